(* EncPathSpec: the vocabulary of T02c / T04b for slider path strings.
     - [path_image pos cps]: what holds of EVERY control-point list the
       decoder's convert_path_str produces for a slider at [pos]
       (Proofs/EncPathImage.v): integer coordinates within the coordinate
       limit after adding the slider position, first point typed and at the
       origin, representable path types, the perfect-curve rule (three
       non-collinear points), and the duplicate rule (an untyped point equal to
       its predecessor ends its segment, unless the segment is Catmull);
     - the three classes the round trip excludes: [d13_class] (known finding
       D13), [d17_class] (known finding D17), [consec_catmull] (named by the
       property text itself), each written from its recorded description.
   Control points are looked at as integer points ([zcp]); the classes and the
   image are defined on those.  Definitions only. *)
From RM Require Export Model.EncSpec.
From RM Require Import Gen.Generated.
Open Scope Z_scope.

(* ---------- integer points ---------- *)

Definition ZPt : Type := (Z * Z)%type.
Definition ZCP : Type := (ZPt * option PathType)%type.

Definition zpt (p : Pos) : ZPt := (f32_as_i32 (px p), f32_as_i32 (py p)).
Definition ipos (z : ZPt) : Pos := mkPos (S.of_Z (fst z)) (S.of_Z (snd z)).
Definition zcp (p : PCP) : ZCP := (zpt (cp_pos p), cp_type p).
Definition icp (z : ZCP) : PCP := mkPCP (ipos (fst z)) (snd z).

(* both coordinates are integers (stored exactly) *)
Definition int_pos (p : Pos) : bool :=
  f32_eqb (px p) (S.of_Z (f32_as_i32 (px p))) && f32_eqb (py p) (S.of_Z (f32_as_i32 (py p))).

Definition zeq (a b : ZPt) : bool := (fst a =? fst b) && (snd a =? snd b).
Definition zadd (a b : ZPt) : ZPt := (fst a + fst b, snd a + snd b).

(* the absolute position (slider position + control point) is within +-MAX_COORDINATE_VALUE *)
Definition abs_ok (P q : ZPt) : bool :=
  (Z.abs (fst P + fst q) <=? max_coordinate_value) && (Z.abs (snd P + snd q) <=? max_coordinate_value).

(* ---------- path types ---------- *)

Definition is_cat (t : PathType) : bool := pt_eqb t pt_catmull.
Definition is_perf (t : PathType) : bool := pt_eqb t pt_perfect.

(* the types PathType::new_from_str can produce *)
Definition pt_ok (t : PathType) : bool :=
  if pt_kind t =? sk_bspline then
    match pt_degree t with Some d => (0 <? d) && (d <=? i32_max) | None => true end
  else ((pt_kind t =? sk_catmull) || (pt_kind t =? sk_linear) || (pt_kind t =? sk_perfect)) &&
       match pt_degree t with None => true | Some _ => false end.

Definition typed (z : ZCP) : bool := match snd z with Some _ => true | None => false end.
Definition next_typed (l : list ZCP) : bool := match l with z :: _ => typed z | [] => false end.
Definition nil_b {A} (l : list A) : bool := match l with [] => true | _ => false end.

(* ---------- the decoder's image ---------- *)

(* a perfect-curve point [q] is followed by exactly two more points of its
   segment (the second may be the first point of the next segment), and the
   three are not collinear *)
Definition perf_ok (t : PathType) (q : ZPt) (r : list ZCP) : bool :=
  negb (is_perf t) ||
  match r with
  | a :: b :: r' =>
      negb (typed a) && (typed b || nil_b r') &&
      negb (is_linear (ipos q) (ipos (fst a)) (ipos (fst b)))
  | _ => false
  end.

(* [last]: type of the latest typed point, [p]: the preceding point *)
Fixpoint zinv_from (P : ZPt) (last : PathType) (p : ZPt) (l : list ZCP) : bool :=
  match l with
  | [] => true
  | z :: r =>
      abs_ok P (fst z) &&
      match snd z with
      | None =>
          (* an untyped point equal to its predecessor is the last of its segment, unless Catmull *)
          (negb (zeq (fst z) p) || is_cat last || nil_b r || next_typed r) &&
          zinv_from P last (fst z) r
      | Some t => pt_ok t && perf_ok t (fst z) r && zinv_from P t (fst z) r
      end
  end.

Definition zimage (P : ZPt) (l : list ZCP) : bool :=
  match l with
  | (q, Some t) :: r => zeq q (0, 0) && pt_ok t && perf_ok t q r && zinv_from P t q r
  | _ => false
  end.

Definition path_image (pos : Pos) (cps : list PCP) : bool :=
  coord_ok (px pos) && coord_ok (py pos) &&
  forallb (fun p => int_pos (cp_pos p)) cps &&
  zimage (zpt pos) (map zcp cps).

(* ---------- the excluded classes ---------- *)

(* D13 (known finding): "a control point typed Catmull that is directly followed by a
   control point at the same position" *)
Fixpoint zd13 (l : list ZCP) : bool :=
  match l with
  | [] => false
  | z :: r =>
      match snd z, r with
      | Some t, z' :: _ => is_cat t && zeq (fst z) (fst z')
      | _, _ => false
      end || zd13 r
  end.
Definition d13_class (cps : list PCP) : bool := zd13 (map zcp cps).

(* D17 (known finding): "a typed control point at index >= 1 whose type equals the type
   of the previous typed control point (not Catmull, not perfect curve) and which is the
   last control point, or is directly followed by another typed control point, or has
   the same position as its predecessor" *)
Fixpoint zd17_from (last : PathType) (p : ZPt) (l : list ZCP) : bool :=
  match l with
  | [] => false
  | z :: r =>
      match snd z with
      | None => zd17_from last (fst z) r
      | Some t =>
          (pt_eqb t last && negb (is_cat t) && negb (is_perf t) &&
           (nil_b r || next_typed r || zeq (fst z) p)) ||
          zd17_from t (fst z) r
      end
  end.
Definition zd17 (l : list ZCP) : bool :=
  match l with
  | (q, Some t) :: r => zd17_from t q r
  | _ => false
  end.
Definition d17_class (cps : list PCP) : bool := zd17 (map zcp cps).

(* "consecutive explicit Catmull segments" (excluded by the property text): a Catmull-typed
   control point whose previous typed control point is Catmull too *)
Fixpoint zcc_from (last : PathType) (l : list ZCP) : bool :=
  match l with
  | [] => false
  | z :: r =>
      match snd z with
      | None => zcc_from last r
      | Some t => (is_cat t && is_cat last) || zcc_from t r
      end
  end.
Definition zcc (l : list ZCP) : bool :=
  match l with
  | (_, Some t) :: r => zcc_from t r
  | _ => false
  end.
Definition consec_catmull (cps : list PCP) : bool := zcc (map zcp cps).

(* ---------- the text of the path field ---------- *)

(* what is assumed of `Display` for f32 in addition to [fmt_ok] (Proofs/EncFmt.v):
   an integer-valued f32 prints like the integer (the path coordinates are written as
   f32 and read back as f64) *)
Definition fmt_f32_int (fmt_f32 : F32 -> str) (fmt_int : Z -> str) : Prop :=
  forall n, Z.abs n < 2 ^ 24 -> fmt_f32 (S.of_Z n) = fmt_int n.

(* ---------- slider lines ---------- *)

(* the length the encoder writes: the expected distance, or the length of the computed curve *)
Definition written_len (dist_of : Z -> list PCP -> option F64 -> outcome F64) (s : Slider) : outcome F64 :=
  match sl_expected_dist s with
  | Some d => Done d
  | None => slider_curve_dist dist_of s
  end.

(* within the coordinate limit: what the decoder's length field accepts.  Its negation is the
   known finding D21 (computed length above MAX_COORDINATE_VALUE, or NaN) *)
Definition len_ok (d : F64) : bool :=
  negb (D.is_nan d) && D.le (D.neg coord_lim64) d && D.le d coord_lim64.
Definition d21_class (d : F64) : bool := negb (len_ok d).

(* [slider_ok h s d]: start time within the parse limits, sample data representable, integer
   position within +-MAX_COORDINATE_VALUE, combo offset 0..7, repeat count 0..8999 (span count
   within the cap), control points in the decoder's image and outside D13 / D17 / consecutive
   Catmull, written length [d] outside D21 *)
Definition slider_ok (h : HitObject) (s : Slider) (d : F64) : bool :=
  in_lim64 (h_start h) && forallb sample_ok (h_samples h) &&
  coord_ok (px (sl_pos s)) && coord_ok (py (sl_pos s)) &&
  (0 <=? sl_combo_offset s) && (sl_combo_offset s <=? 7) &&
  (0 <=? sl_repeat_count s) && (sl_repeat_count s <? repeat_cap) &&
  forallb (forallb sample_ok) (sl_node_samples s) &&
  path_image (sl_pos s) (sl_control_points s) &&
  negb (d13_class (sl_control_points s)) && negb (d17_class (sl_control_points s)) &&
  negb (consec_catmull (sl_control_points s)) &&
  len_ok d.

(* ---------- the [HitObjects] section ---------- *)

(* what the line theorems ask of an object: [object_ok] for circles, spinners and holds,
   [slider_ok] (for the length the encoder writes) for sliders *)
Definition encodable (dist_of : Z -> list PCP -> option F64 -> outcome F64) (h : HitObject) : Prop :=
  match h_kind h with
  | KSlider s => exists d, written_len dist_of s = Done d /\ slider_ok h s d = true
  | _ => object_ok h = true
  end.

(* what holds of EVERY object an accepted hit-object line adds (Proofs/EncLineImage.v):
   the line-level part of [object_ok] / [slider_ok].  Not part of it -- because they do not
   hold of every accepted line or are decided later, at map level: the sample data
   ([sample_ok]), start + duration within the parse limits (class D26), the computed
   length of a slider without explicit length (class D21), the classes D13 / D17 /
   consecutive Catmull. *)
Definition object_image (h : HitObject) : bool :=
  in_lim64 (h_start h) &&
  match h_kind h with
  | KCircle c => coord_ok (px (ci_pos c)) && coord_ok (py (ci_pos c)) &&
                 (0 <=? ci_combo_offset c) && (ci_combo_offset c <=? 7)
  | KSlider s =>
      coord_ok (px (sl_pos s)) && coord_ok (py (sl_pos s)) &&
      (0 <=? sl_combo_offset s) && (sl_combo_offset s <=? 7) &&
      path_image (sl_pos s) (sl_control_points s) &&
      (0 <=? sl_repeat_count s) && (sl_repeat_count s <? repeat_cap) &&
      match sl_expected_dist s with Some d => len_ok d | None => true end &&
      (Z.of_nat (length (sl_node_samples s)) =? sl_repeat_count s + 2)
  | KSpinner s => coord_ok (px (sp_pos s)) && coord_ok (py (sp_pos s))
  | KHold hd => coord_ok (hd_pos_x hd)
  end.

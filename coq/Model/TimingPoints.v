(* TimingPoints: section/timing_points/decode.rs -- TimingPointsState, the
   Pending trait (push_front / push_back), add_control_point,
   flush_pending_points, parse_timing_points and
   From<TimingPointsState> for TimingPoints; section/timing_points/
   effect_flags.rs; TimeSignature::new; SampleBank::try_from(i32).
   Definitions only; the run-based specification [legacy_spec] (C12) is at
   the end; proofs are in Proofs/TimingPointsFacts.v. *)
From RM Require Export Model.Num Model.ControlPoints.
From RM Require Import Gen.Generated.

(* ---------- state ---------- *)

(* the part of GeneralState that parse_timing_points reads *)
Record tp_general := mkTPG {
  tpg_mode : Z;       (* index into GameMode: Osu, Taiko, Catch, Mania *)
  tpg_bank : Z;       (* default_sample_bank, index into SampleBank *)
  tpg_volume : Z }.   (* default_sample_volume *)

Record TPState := mkTS {
  ts_general : tp_general;
  ts_time : F64;                         (* pending_control_points_time *)
  ts_pt : option TimingPoint;            (* pending_timing_point *)
  ts_pd : option DifficultyPoint;        (* pending_difficulty_point *)
  ts_pe : option EffectPoint;            (* pending_effect_point *)
  ts_ps : option SamplePoint;            (* pending_sample_point *)
  ts_cp : ControlPoints }.

(* DecodeState::create *)
Definition tp_init (g : tp_general) : TPState :=
  mkTS g D.zero None None None None cp_empty.

(* ---------- Pending ---------- *)

Inductive pend :=
| PT (p : TimingPoint) | PD (p : DifficultyPoint) | PE (p : EffectPoint) | PS (p : SamplePoint).

(* if pending.is_none() { *pending = Some(self) } *)
Definition keep_first {A} (cur : option A) (p : A) : option A :=
  match cur with None => Some p | Some _ => cur end.

Definition push_front (st : TPState) (p : pend) : TPState :=
  let '(mkTS g t pt pd pe ps c) := st in
  match p with
  | PT x => mkTS g t (keep_first pt x) pd pe ps c
  | PD x => mkTS g t pt (keep_first pd x) pe ps c
  | PE x => mkTS g t pt pd (keep_first pe x) ps c
  | PS x => mkTS g t pt pd pe (keep_first ps x) c
  end.

(* *pending = Some(self) *)
Definition push_back (st : TPState) (p : pend) : TPState :=
  let '(mkTS g t pt pd pe ps c) := st in
  match p with
  | PT x => mkTS g t (Some x) pd pe ps c
  | PD x => mkTS g t pt (Some x) pe ps c
  | PE x => mkTS g t pt pd (Some x) ps c
  | PS x => mkTS g t pt pd pe (Some x) c
  end.

(* ---------- flush_pending_points ---------- *)

Definition add_opt {A} (add : ControlPoints -> A -> outcome ControlPoints)
    (c : ControlPoints) (o : option A) : outcome ControlPoints :=
  match o with Some p => add c p | None => Done c end.

(* take() each slot in the order timing, difficulty, effect, sample *)
Definition flush_cp (st : TPState) : outcome ControlPoints :=
  obind (add_opt add_timing (ts_cp st) (ts_pt st)) (fun c1 =>
  obind (add_opt add_difficulty c1 (ts_pd st)) (fun c2 =>
  obind (add_opt add_effect c2 (ts_pe st)) (fun c3 =>
  add_opt add_sample c3 (ts_ps st)))).

Definition flush_pending_points (st : TPState) : outcome TPState :=
  obind (flush_cp st) (fun c =>
  Done (mkTS (ts_general st) (ts_time st) None None None None c)).

(* ---------- add_control_point ---------- *)

(* (time - self.pending_control_points_time).abs() >= f64::EPSILON *)
Definition time_changed (time pending : F64) : bool :=
  D.ge (D.abs (D.sub time pending)) D.eps.

Definition set_time (st : TPState) (t : F64) : TPState :=
  let '(mkTS g _ pt pd pe ps c) := st in mkTS g t pt pd pe ps c.

Definition add_control_point (st : TPState) (time : F64) (p : pend) (timing_change : bool)
  : outcome TPState :=
  obind (if time_changed time (ts_time st) then flush_pending_points st else Done st) (fun st1 =>
  let st2 := if timing_change then push_front st1 p else push_back st1 p in
  Done (set_time st2 time)).

(* ---------- one line, as text ---------- *)

(* the values a line contributes, after all `?` have passed *)
Record tp_line := mkLine {
  l_time : F64;
  l_beat : F64;          (* beat_len as parsed (may be NaN) *)
  l_speed : F64;         (* speed_multiplier *)
  l_sig : Z;             (* time signature numerator *)
  l_bank : Z;            (* sample set after None -> Normal *)
  l_custom : Z;
  l_vol : Z;             (* as parsed, not yet clamped *)
  l_tc : bool;           (* timing_change *)
  l_kiai : bool;
  l_omit : bool }.

Definition bank_none : Z := 0.
Definition bank_normal : Z := 1.

(* SampleBank::try_from(i32).ok() *)
Fixpoint assoc_z (k : Z) (l : list (Z * Z)) : option Z :=
  match l with
  | [] => None
  | (a, b) :: r => if a =? k then Some b else assoc_z k r
  end.
Definition bank_of_int (n : Z) : option Z := assoc_z n sample_bank_of_int.

(* TimeSignature::new: u32::try_from(n).ok().and_then(NonZeroU32::new) *)
Definition time_signature_new (n : Z) : option Z := if 0 <? n then Some n else None.

(* EffectFlags::has_flag *)
Definition has_flag (flags flag : Z) : bool := negb (Z.land flags flag =? 0).

(* beat length: trim, raw f64 parse, manual limits; NaN passes *)
Definition f_beat (s : str) : option F64 :=
  obnd (parse_f64_raw (trim s)) (fun b =>
  if D.lt b (D.of_Z (- max_parse_value)) then None
  else if D.gt b (D.of_Z max_parse_value) then None
  else Some b).

Definition speed_multiplier (beat : F64) : F64 :=
  if D.lt beat D.zero then D.div (dec64 tp_speed_num_dec) (D.neg beat) else D.one.

(* one function per optional field; [None] = the split iterator is exhausted *)
Definition f_sig (o : option str) : option Z :=
  match o with
  | None => Some tp_default_signature
  | Some s =>
      match s with
      | c :: _ => if c =? tp_sig_skip_char then Some tp_default_signature
                  else obnd (pn_i32 s) time_signature_new
      | [] => obnd (pn_i32 s) time_signature_new
      end
  end.

Definition f_bank (g : tp_general) (o : option str) : option Z :=
  match o with
  | None => Some (tpg_bank g)
  | Some s => obnd (pn_i32 s) (fun n => Some (odflt (tpg_bank g) (bank_of_int n)))
  end.

Definition f_custom (o : option str) : option Z :=
  match o with None => Some tp_default_custom_bank | Some s => pn_i32 s end.

Definition f_vol (g : tp_general) (o : option str) : option Z :=
  match o with None => Some (tpg_volume g) | Some s => pn_i32 s end.

Definition f_tc (o : option str) : bool :=
  match o with
  | None => true
  | Some (c :: _) => c =? tp_timing_change_char
  | Some [] => false
  end.

(* next.parse::<EffectFlags>(): plain i32::from_str, no trim, no limit *)
Definition f_flags (o : option str) : option (bool * bool) :=
  match o with
  | None => Some (false, false)
  | Some s => obnd (parse_i32_raw s) (fun n =>
              Some (has_flag n effect_kiai, has_flag n effect_omit_first_bar_line))
  end.

(* the body of parse_timing_points up to the first add_control_point, on
   the pieces of split(',') consumed front to back *)
Definition parse_fields (g : tp_general) (fs : list str) : option tp_line :=
  let '(o0, fs) := next fs in
  let '(o1, fs) := next fs in
  obnd o0 (fun s0 => obnd o1 (fun s1 =>
  obnd (pn_f64 s0) (fun time =>
  obnd (f_beat s1) (fun beat =>
  let speed := speed_multiplier beat in
  let '(o2, fs) := next fs in
  obnd (f_sig o2) (fun sig =>
  let '(o3, fs) := next fs in
  obnd (f_bank g o3) (fun bank0 =>
  let '(o4, fs) := next fs in
  obnd (f_custom o4) (fun custom =>
  let '(o5, fs) := next fs in
  obnd (f_vol g o5) (fun vol =>
  let '(o6, fs) := next fs in
  let tc := f_tc o6 in
  let '(o7, fs) := next fs in
  obnd (f_flags o7) (fun '(kiai, omit) =>
  let bank := if bank0 =? bank_none then bank_normal else bank0 in
  if tc && D.is_nan beat then None
  else Some (mkLine time beat speed sig bank custom vol tc kiai omit)))))))))).

Definition comma : char := 44.

Definition parse_tp_line (g : tp_general) (line : str) : option tp_line :=
  parse_fields g (split_on comma (trim_comment line)).

(* ---------- the points a line contributes ---------- *)

Definition line_tp (r : tp_line) : TimingPoint :=
  tp_new (l_time r) (l_beat r) (l_omit r) (l_sig r).
Definition line_dp (r : tp_line) : DifficultyPoint :=
  dp_new (l_time r) (l_beat r) (l_speed r).
Definition line_sp (r : tp_line) : SamplePoint :=
  sp_new (l_time r) (l_bank r) (l_vol r) (l_custom r).
Definition scroll_mode (mode : Z) : bool := existsb (Z.eqb mode) tp_scroll_modes.
Definition line_ep (mode : Z) (r : tp_line) : EffectPoint :=
  let e := ep_new (l_time r) (l_kiai r) in
  if scroll_mode mode
  then mkEP (ep_time e) (ep_kiai e)
            (D.clamp (l_speed r) (dec64 (fst scroll_speed_clamp)) (dec64 (snd scroll_speed_clamp)))
  else e.

(* the tail of parse_timing_points: the add_control_point calls in source
   order (timing only on timing-change lines; then difficulty, sample,
   effect) and the final assignment of the pending time *)
Definition apply_line (st : TPState) (r : tp_line) : outcome TPState :=
  let time := l_time r in
  let tc := l_tc r in
  obind (if tc then add_control_point st time (PT (line_tp r)) tc else Done st) (fun st1 =>
  obind (add_control_point st1 time (PD (line_dp r)) tc) (fun st2 =>
  obind (add_control_point st2 time (PS (line_sp r)) tc) (fun st3 =>
  obind (add_control_point st3 time (PE (line_ep (tpg_mode (ts_general st3)) r)) tc) (fun st4 =>
  Done (set_time st4 time))))).

(* TimingPoints::parse_timing_points.  Every `?` precedes the first state
   mutation, so a rejected line returns the state unchanged. *)
Definition parse_timing_points (st : TPState) (line : str) : outcome (TPState * res) :=
  match parse_tp_line (ts_general st) line with
  | None => Done (st, Rejected)
  | Some r => obind (apply_line st r) (fun st' => Done (st', Ok))
  end.

(* From<TimingPointsState> for TimingPoints: flush once more *)
Definition tp_finish (st : TPState) : outcome ControlPoints := flush_cp st.

(* a whole [TimingPoints] section: the per-line results and the final state *)
Fixpoint tp_run (st : TPState) (lines : list str) : outcome (TPState * list res) :=
  match lines with
  | [] => Done (st, [])
  | l :: rest =>
      obind (parse_timing_points st l) (fun '(st1, r) =>
      obind (tp_run st1 rest) (fun '(st2, rs) => Done (st2, r :: rs)))
  end.

Definition tp_decode (g : tp_general) (lines : list str) : outcome (ControlPoints * list res) :=
  obind (tp_run (tp_init g) lines) (fun '(st, rs) =>
  obind (tp_finish st) (fun c => Done (c, rs))).

(* ---------- legacy_spec: the property text, run by run ---------- *)

(* accepted lines, in file order *)
Definition accepted (g : tp_general) (lines : list str) : list tp_line :=
  flat_map (fun l => match parse_tp_line g l with Some r => [r] | None => [] end) lines.

(* two consecutive accepted lines share a time: |t2 - t1| < epsilon (times
   are never NaN, so this is the negation of the code's >= test; see
   Proofs/TimingPointsFacts.same_time_near) *)
Definition same_time (t2 t1 : F64) : bool := negb (time_changed t2 t1).

(* maximal runs of consecutive lines sharing a time *)
Fixpoint runs (ls : list tp_line) : list (list tp_line) :=
  match ls with
  | [] => []
  | r :: rest =>
      match runs rest with
      | (r2 :: run) :: more =>            (* r2 is the line following r *)
          if same_time (l_time r2) (l_time r) then (r :: r2 :: run) :: more
          else [r] :: (r2 :: run) :: more
      | _ => [[r]]
      end
  end.

(* per kind: the last inherited line wins over timing-change lines, the
   first timing-change line wins among those.  Inherited lines carry no
   timing point. *)
Definition inherited (r : tp_line) : bool := negb (l_tc r).
Definition timing_winner (run : list tp_line) : option tp_line := hd_error (filter l_tc run).
Definition winner (run : list tp_line) : option tp_line :=
  match last_opt (filter inherited run) with
  | Some r => Some r
  | None => timing_winner run
  end.

(* the adds of one run, in the order timing, difficulty, effect, sample *)
Definition run_ops (mode : Z) (run : list tp_line) : list cp_op :=
  match timing_winner run with Some r => [OpAddT (line_tp r)] | None => [] end ++
  match winner run with
  | Some r => [OpAddD (line_dp r); OpAddE (line_ep mode r); OpAddS (line_sp r)]
  | None => []
  end.

Definition spec_ops (g : tp_general) (lines : list str) : list cp_op :=
  flat_map (run_ops (tpg_mode g)) (runs (accepted g lines)).

Definition legacy_spec (g : tp_general) (lines : list str) : outcome ControlPoints :=
  cp_run cp_empty (spec_ops g lines).

Definition spec_results (g : tp_general) (lines : list str) : list res :=
  map (fun l => match parse_tp_line g l with Some _ => Ok | None => Rejected end) lines.

(* ---------- dumps ---------- *)

Definition dump_res (r : res) : Z := match r with Ok => 1 | Rejected => 0 end.

(* per-line flags, then the finished control points; [-1] on a panic *)
Definition dump_decode (x : outcome (ControlPoints * list res)) : list Z :=
  match x with
  | Done (c, rs) => map dump_res rs ++ dump_cp c
  | Panic w => [-1; w]
  | OutOfFuel => [-2]
  end.

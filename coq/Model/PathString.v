(* PathString: the slider path string of a hit-object line.
   Mirrors  slider/path_type.rs  PathType::new_from_str,
            slider/path.rs       PathControlPoint,
            decode.rs            HitObjectsState::convert_path_str / convert_points
                                 (with the inner fns read_point and is_linear).
   The two [while { end_idx += 1; end_idx < len } { .. }] loops are kept as
   index loops over [nth_error] with explicit fuel; every indexing, slicing and
   [usize] subtraction that can panic in Rust is a [Panic] outcome here.
   Definitions only; the structural characterisation is in Proofs/. *)
From RM Require Import Model.Text Model.Num.
From RM Require Import Gen.Generated.
Open Scope Z_scope.

(* ---------- PathType ---------- *)
(* SplineType as index in the enum: 0 Catmull, 1 BSpline, 2 Linear, 3 PerfectCurve *)
Definition sk_catmull : Z := 0.
Definition sk_bspline : Z := 1.
Definition sk_linear : Z := 2.
Definition sk_perfect : Z := 3.

Record PathType := mkPT { pt_kind : Z; pt_degree : option Z }.
Definition pt_catmull : PathType := mkPT sk_catmull None.
Definition pt_bezier : PathType := mkPT sk_bspline None.
Definition pt_linear : PathType := mkPT sk_linear None.
Definition pt_perfect : PathType := mkPT sk_perfect None.

Definition optz_eqb (a b : option Z) : bool :=
  match a, b with
  | Some x, Some y => x =? y
  | None, None => true
  | _, _ => false
  end.
(* #[derive(PartialEq)] on PathType *)
Definition pt_eqb (a b : PathType) : bool :=
  (pt_kind a =? pt_kind b) && optz_eqb (pt_degree a) (pt_degree b).

(* PathType::new_from_str *)
Definition path_type_of_str (s : str) : PathType :=
  match s with
  | c :: r =>
      if c =? path_letter_bspline then
        match parse_i32_raw r with          (* chars.as_str().parse::<i32>() *)
        | Some d => if 0 <? d then mkPT sk_bspline (Some d) else pt_bezier
        | None => pt_bezier
        end
      else if c =? path_letter_linear then pt_linear
      else if c =? path_letter_perfect then pt_perfect
      else pt_catmull
  | [] => pt_catmull
  end.

(* ---------- Pos, PathControlPoint ---------- *)
Record Pos := mkPos { px : F32; py : F32 }.
Definition pos_sub (a b : Pos) : Pos := mkPos (S.sub (px a) (px b)) (S.sub (py a) (py b)).
(* #[derive(PartialEq)] on Pos: f32 == on both coordinates *)
Definition pos_eqb (a b : Pos) : bool := S.eq (px a) (px b) && S.eq (py a) (py b).

Record PCP := mkPCP { cp_pos : Pos; cp_type : option PathType }.
Definition pcp_default : PCP := mkPCP (mkPos S.zero S.zero) None.
Definition pcp_with_type (p : PCP) (ty : PathType) : PCP := mkPCP (cp_pos p) (Some ty).

(* MAX_COORDINATE_VALUE as the two float limits used *)
Definition coord_lim64 : F64 := D.of_Z max_coordinate_value.
Definition coord_lim32 : F32 := S.of_Z max_coordinate_value.

(* [v as i32 as f32] *)
Definition trunc64 (v : F64) : F32 := S.of_Z (f64_as_i32 v).
Definition trunc32 (v : F32) : F32 := S.of_Z (f32_as_i32 v).

(* fn read_point(value, start_pos): None = Err *)
Definition read_point (value : str) (start_pos : Pos) : option PCP :=
  match split_on 58 value with
  | sx :: sy :: _ =>
      match pn_f64_lim coord_lim64 sx, pn_f64_lim coord_lim64 sy with
      | Some x, Some y => Some (mkPCP (pos_sub (mkPos (trunc64 x) (trunc64 y)) start_pos) None)
      | _, _ => None
      end
  | _ => None
  end.

(* fn is_linear(p0, p1, p2) *)
Definition is_linear (p0 p1 p2 : Pos) : bool :=
  S.lt (S.abs (S.sub (S.mul (S.sub (py p1) (py p0)) (S.sub (px p2) (px p0)))
                     (S.mul (S.sub (px p1) (px p0)) (S.sub (py p2) (py p0)))))
       S.eps.

(* ---------- checked usize arithmetic, slicing ---------- *)
Definition usub (a b : nat) : option nat := if (a <? b)%nat then None else Some (a - b)%nat.
(* &l[s..e]: panics unless s <= e <= len *)
Definition slice {A} (l : list A) (s e : nat) : option (list A) :=
  if (s <=? e)%nat && (e <=? length l)%nat then Some (firstn (e - s) (skipn s l)) else None.

(* ---------- the two scratch buffers of HitObjectsState ---------- *)
Record PBuf := mkPB { pb_curve : list PCP; pb_vertices : list PCP }.

(* for &point in points.iter().skip(1) { vertices.push(read_point(point, offset)?) } *)
Fixpoint read_points (pts : list str) (offset : Pos) (acc : list PCP) : list PCP * bool :=
  match pts with
  | [] => (acc, true)
  | p :: r =>
      match read_point p offset with
      | Some v => read_points r offset (acc ++ [v])
      | None => (acc, false)
      end
  end.

(* the duplicate-splitting loop of convert_points.
   Called with start_idx = end_idx = 0; returns (vertices, curve_points). *)
Fixpoint dup_loop (fuel : nat) (ty : PathType) (epl : nat) (vs curve : list PCP)
         (start_idx end_idx : nat) : outcome (list PCP * list PCP) :=
  match fuel with
  | O => OutOfFuel
  | S k =>
      let end_idx := S end_idx in                                   (* end_idx += 1 *)
      match usub (length vs) epl with                               (* vertices.len() - end_point_len *)
      | None => Panic 141
      | Some n =>
          if (end_idx <? n)%nat then
            match nth_error vs end_idx, usub end_idx 1 with
            | Some a, Some em1 =>
                match nth_error vs em1 with
                | None => Panic 142
                | Some b =>
                    if negb (pos_eqb (cp_pos a) (cp_pos b)) then
                      dup_loop k ty epl vs curve start_idx end_idx
                    else if pt_eqb ty pt_catmull && (1 <? end_idx)%nat then
                      dup_loop k ty epl vs curve start_idx end_idx
                    else
                      match usub n 1 with                           (* len - end_point_len - 1 *)
                      | None => Panic 143
                      | Some nm1 =>
                          if (end_idx =? nm1)%nat then
                            dup_loop k ty epl vs curve start_idx end_idx
                          else
                            let vs' := replace_nth em1 (pcp_with_type b ty) vs in
                            match slice vs' start_idx end_idx with
                            | None => Panic 144
                            | Some sl => dup_loop k ty epl vs' (curve ++ sl) (S end_idx) end_idx
                            end
                      end
                end
            | _, _ => Panic 142
            end
          else if (start_idx <? end_idx)%nat then
            match slice vs start_idx end_idx with
            | None => Panic 145
            | Some sl => Done (vs, curve ++ sl)
            end
          else Done (vs, curve)
      end
  end.

(* HitObjectsState::convert_points *)
Definition convert_points (pb : PBuf) (points : list str) (end_point : option str)
           (first : bool) (offset : Pos) : outcome (PBuf * res) :=
  match points with
  | [] => Done (pb, Rejected)                          (* points.first() .. ok_or(InvalidLine)? *)
  | p0 :: pts =>
      let path_type := path_type_of_str p0 in
      match usub (length points) 1 with                (* points.len() - 1 *)
      | None => Panic 140
      | Some _ =>
          let epl := match end_point with Some _ => 1%nat | None => 0%nat end in
          (* vertices.clear(); if first { push(default) } *)
          let v0 := if first then [pcp_default] else [] in
          match read_points pts offset v0 with
          | (vs, false) => Done (mkPB (pb_curve pb) vs, Rejected)
          | (vs, true) =>
              match (match end_point with
                     | Some e => match read_point e offset with
                                 | Some v => Some (vs ++ [v]) | None => None end
                     | None => Some vs end) with
              | None => Done (mkPB (pb_curve pb) vs, Rejected)
              | Some vs =>
                  let path_type :=
                    if pt_eqb path_type pt_perfect then
                      match vs with
                      | [a; b; c] => if is_linear (cp_pos a) (cp_pos b) (cp_pos c)
                                     then pt_linear else path_type
                      | _ => pt_bezier
                      end
                    else path_type in
                  match vs with
                  | [] => Done (mkPB (pb_curve pb) vs, Rejected)      (* first_mut() = None *)
                  | v :: vr =>
                      let vs := pcp_with_type v path_type :: vr in
                      match dup_loop (Datatypes.S (length vs)) path_type epl vs (pb_curve pb) 0 0 with
                      | Done (vs', curve') => Done (mkPB curve' vs', Ok)
                      | Panic w => Panic w
                      | OutOfFuel => OutOfFuel
                      end
                  end
              end
          end
      end
  end.

(* the closure of convert_path_str, over the pieces of point_str.split('|') *)
Fixpoint path_loop (fuel : nat) (pb : PBuf) (ps : list str) (start_idx end_idx : nat)
         (first : bool) (offset : Pos) : outcome (PBuf * res) :=
  match fuel with
  | O => OutOfFuel
  | S k =>
      let end_idx := S end_idx in
      if (end_idx <? length ps)%nat then
        match nth_error ps end_idx with
        | None => Panic 146
        | Some [] => Done (pb, Rejected)               (* .chars().next().ok_or(InvalidLine)? *)
        | Some (c :: _) =>
            if negb (is_ascii_alpha c) then path_loop k pb ps start_idx end_idx first offset
            else
              let end_point := nth_error ps (S end_idx) in          (* .get(end_idx + 1) *)
              match slice ps start_idx end_idx with
              | None => Panic 147
              | Some pts =>
                  match convert_points pb pts end_point first offset with
                  | Done (pb', Ok) => path_loop k pb' ps end_idx end_idx false offset
                  | other => other
                  end
              end
        end
      else if (start_idx <? end_idx)%nat then
        match slice ps start_idx end_idx with
        | None => Panic 148
        | Some pts => convert_points pb pts None first offset
        end
      else Done (pb, Ok)
  end.

Definition convert_path_str (pb : PBuf) (point_str : str) (offset : Pos) : outcome (PBuf * res) :=
  let ps := split_on 124 point_str in
  path_loop (Datatypes.S (length ps)) pb ps 0 0 true offset.

(* ---------- canonical dumps ---------- *)
Definition dump_pt (t : PathType) : list Z :=
  pt_kind t :: match pt_degree t with Some d => [1; d] | None => [0] end.
Definition dump_pcp (p : PCP) : list Z :=
  [S.bits (px (cp_pos p)); S.bits (py (cp_pos p))] ++
  match cp_type p with Some t => 1 :: dump_pt t | None => [0] end.
Definition dump_pcps (l : list PCP) : list Z := Z.of_nat (length l) :: flat_map dump_pcp l.

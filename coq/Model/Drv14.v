(* Drv14: decoding of correspondence cases for C14 (glue, not verified).
   Input: mode, then lines, each as <length> <code points...>.
   Output: per line 0 (Ok) / 1 (Rejected), then the dump of the state:
   all hit objects, last_object, curve_points, vertices.
   A Panic / OutOfFuel ends the run with 2 <code> / 3. *)
From RM Require Import Model.Text Model.HitSamples Model.PathString Model.HitObjectLine.
Open Scope Z_scope.

Fixpoint take_n {A} (n : nat) (l : list A) : list A * list A :=
  match n, l with
  | O, _ => ([], l)
  | S k, x :: r => let '(a, b) := take_n k r in (x :: a, b)
  | S _, [] => ([], [])
  end.

Fixpoint run_c14_aux (fuel : nat) (st : HOState) (inp : list Z) (acc : list Z) : list Z :=
  match fuel with
  | O => acc ++ [99]
  | S k =>
      match inp with
      | [] => acc ++ dump_state st
      | n :: r =>
          let '(line, r') := take_n (Z.to_nat n) r in
          match parse_hit_objects st line with
          | Done (st', Ok) => run_c14_aux k st' r' (acc ++ [0])
          | Done (st', Rejected) => run_c14_aux k st' r' (acc ++ [1])
          | Panic w => acc ++ [2; w]
          | OutOfFuel => acc ++ [3]
          end
      end
  end.

Definition run_c14 (inp : list Z) : list Z :=
  match inp with
  | [] => [98]
  | mode :: r => run_c14_aux (S (length r)) (ho_create mode) r []
  end.

(* SliderEvents: section/hit_objects/slider/event.rs
   (SliderEventsIter::new, Iterator::next, generate_ticks, new_repeat_point).

   The code is written once against a small record of float operations
   ([fops]) and read twice: the IEEE instance [ops64] (Flocq binary64, the
   executable model tied bit-exactly to the crate) and, in
   Proofs/SliderEventsExact.v, the exact instance over R.  The float
   expression trees are those of the source, operation for operation.

   Fuel.  Two loops have no structural bound:
   * the [while d <= len] loop of [generate_ticks] ([tf], "tick fuel": number
     of evaluations of the loop condition allowed per call).  In the real code
     the number of iterations is about len / tick_dist, which for a tiny
     positive tick distance is astronomically large (memory is exhausted
     first: every iteration pushes an event);
   * the [loop] of [Iterator::next] ([fuel]): for span_count >= 0 it runs at
     most 4 times, for a negative span count it runs until [span] overflows.
   [collect] uses its [fuel] both for the number of events pulled and for the
   inner loop of each [next]. *)
From RM Require Export Model.Floats.
From RM Require Import Gen.Generated.

(* ---------- float operations used by event.rs ---------- *)

Record fops (F : Type) := mkOps {
  f_add : F -> F -> F;
  f_sub : F -> F -> F;
  f_mul : F -> F -> F;
  f_div : F -> F -> F;
  f_le : F -> F -> bool;                 (* a <= b ;  a >= b is [f_le b a] *)
  f_lt : F -> F -> bool;                 (* a <  b ;  a >  b is [f_lt b a] *)
  f_max : F -> F -> F;                   (* f64::max *)
  f_min : F -> F -> F;                   (* f64::min *)
  f_clamp_chk : F -> F -> F -> outcome F;  (* f64::clamp, panics unless lo <= hi *)
  f_of_Z : Z -> F;                       (* f64::from(i32), literals 0.0 1.0 2.0 *)
  f_of_dec : bool * Z * Z -> F }.        (* a decimal literal from Gen.Generated *)
Arguments f_add {F}. Arguments f_sub {F}. Arguments f_mul {F}. Arguments f_div {F}.
Arguments f_le {F}. Arguments f_lt {F}. Arguments f_max {F}. Arguments f_min {F}.
Arguments f_clamp_chk {F}. Arguments f_of_Z {F}. Arguments f_of_dec {F}.

Definition se_dec64 (d : bool * Z * Z) : F64 := let '(s, m, e) := d in D.of_decimal s m e.

Definition ops64 : fops F64 :=
  mkOps F64 D.add D.sub D.mul D.div D.le D.lt D.max D.min D.clamp_chk D.of_Z se_dec64.

(* ---------- i32 arithmetic ---------- *)

(* [chk = true]: overflow panics (debug build, overflow-checks on);
   [chk = false]: two's complement wrap (release build). *)
Definition i32_wrap (z : Z) : Z := (z - i32_min) mod 2 ^ 32 + i32_min.
Definition i32_arith (chk : bool) (r : Z) : outcome Z :=
  if (i32_min <=? r) && (r <=? i32_max) then Done r
  else if chk then Panic 4 else Done (i32_wrap r).

(* ---------- events and the iterator ---------- *)

Inductive ekind := KHead | KTick | KRepeat | KLastTick | KTail.

Record event (F : Type) := mkEv {
  ev_kind : ekind;
  ev_span : Z;          (* span_idx : i32 *)
  ev_sst : F;           (* span_start_time *)
  ev_time : F;
  ev_prog : F }.        (* path_progress *)
Arguments mkEv {F}. Arguments ev_kind {F}. Arguments ev_span {F}.
Arguments ev_sst {F}. Arguments ev_time {F}. Arguments ev_prog {F}.

Record params (F : Type) := mkP {
  p_start : F; p_dur : F; p_vel : F; p_td : F; p_total : F; p_n : Z }.
Arguments mkP {F}. Arguments p_start {F}. Arguments p_dur {F}. Arguments p_vel {F}.
Arguments p_td {F}. Arguments p_total {F}. Arguments p_n {F}.

Inductive ist := SHead | STicks (span : Z) | SLastTick | STail | SDone.

(* [it_ticks] is the shared Vec<SliderEvent>; the head of the list is the
   *last* element of the Vec: push = cons, pop = take the head,
   Vec::reverse = rev, Vec::clear = []. *)
Record iter (F : Type) := mkIt {
  it_start : F; it_dur : F; it_mdfe : F; it_td : F; it_len : F;
  it_n : Z;
  it_ticks : list (event F);
  it_st : ist }.
Arguments mkIt {F}. Arguments it_start {F}. Arguments it_dur {F}. Arguments it_mdfe {F}.
Arguments it_td {F}. Arguments it_len {F}. Arguments it_n {F}. Arguments it_ticks {F}.
Arguments it_st {F}.

Definition vec_clear {A} (v : list A) : list A := [].

Section Machine.
  Context {F : Type} (OP : fops F) (chk : bool).
  Notation ev := (event F).

  Definition c_zero : F := f_of_Z OP 0.
  Definition c_one : F := f_of_Z OP 1.
  Definition c_two : F := f_of_Z OP 2.
  Definition c_max_len : F := f_of_dec OP slider_max_len_dec.            (* MAX_LEN *)
  Definition c_tail_leniency : F := f_of_dec OP tail_leniency_dec.      (* TAIL_LENIENCY *)
  Definition c_mdfe_factor : F := f_of_dec OP min_dist_from_end_factor_dec.  (* velocity * 10.0 *)

  Definition set_ticks (it : iter F) (t : list ev) : iter F :=
    mkIt (it_start it) (it_dur it) (it_mdfe it) (it_td it) (it_len it) (it_n it) t (it_st it).
  Definition set_st (it : iter F) (s : ist) : iter F :=
    mkIt (it_start it) (it_dur it) (it_mdfe it) (it_td it) (it_len it) (it_n it) (it_ticks it) s.

  (* SliderEventsIter::new *)
  Definition iter_new (p : params F) (buf : list ev) : outcome (iter F) :=
    let len := f_min OP c_max_len (p_total p) in
    obind (f_clamp_chk OP (p_td p) c_zero len) (fun tick_dist =>
    let ticks := vec_clear buf in
    Done (mkIt (p_start p) (p_dur p) (f_mul OP (p_vel p) c_mdfe_factor) tick_dist len
               (p_n p) ticks SHead)).

  (* new_repeat_point *)
  Definition new_repeat_point (span : Z) (sst dur : F) : outcome ev :=
    obind (i32_arith chk (span + 1)) (fun s1 =>
    Done (mkEv KRepeat span sst (f_add OP sst dur) (f_of_Z OP (Z.rem s1 2)))).

  (* the [while d <= iter.len] loop of generate_ticks; [buf] is iter.ticks *)
  Fixpoint tick_loop (tf : nat) (it : iter F) (span : Z) (reversed : bool) (sst : F)
           (d : F) (buf : list ev) : outcome (list ev) :=
    match tf with
    | O => OutOfFuel
    | S k =>
        if f_le OP d (it_len it) then
          if f_le OP (f_sub OP (it_len it) (it_mdfe it)) d then Done buf     (* break *)
          else
            let path_progress := f_div OP d (it_len it) in
            let time_progress := if reversed then f_sub OP c_one path_progress else path_progress in
            let tick := mkEv KTick span sst
                             (f_add OP sst (f_mul OP time_progress (it_dur it))) path_progress in
            tick_loop k it span reversed sst (f_add OP d (it_td it)) (tick :: buf)
        else Done buf
    end.

  Definition push_repeat (span : Z) (sst : F) (it : iter F) (buf : list ev) : outcome (list ev) :=
    obind (new_repeat_point span sst (it_dur it)) (fun r => Done (r :: buf)).

  (* generate_ticks(iter, span) *)
  Definition generate_ticks (tf : nat) (it : iter F) (span : Z) : outcome (iter F) :=
    let reversed := Z.rem span 2 =? 1 in
    let sst := f_add OP (it_start it) (f_mul OP (f_of_Z OP span) (it_dur it)) in
    obind (i32_arith chk (it_n it - 1)) (fun n1 =>
    let with_repeat := span <? n1 in
    obind (if reversed && with_repeat then push_repeat span sst it (it_ticks it)
           else Done (it_ticks it)) (fun b1 =>
    let d := it_td it in
    obind (if f_lt OP c_zero d then tick_loop tf it span reversed sst d b1 else Done b1) (fun b2 =>
    if negb reversed then
      obind (if with_repeat then push_repeat span sst it b2 else Done b2) (fun b3 =>
      Done (set_ticks it (rev b3)))
    else Done (set_ticks it b2)))).

  Definition head_event (it : iter F) : ev :=
    mkEv KHead 0 (it_start it) (it_start it) c_zero.

  Definition last_tick_event (it : iter F) : outcome ev :=
    let total_duration := f_mul OP (f_of_Z OP (it_n it)) (it_dur it) in
    obind (i32_arith chk (it_n it - 1)) (fun final_span_idx =>
    let final_span_start_time :=
      f_add OP (it_start it) (f_mul OP (f_of_Z OP final_span_idx) (it_dur it)) in
    let last_tick_time :=
      f_max OP (f_add OP (it_start it) (f_div OP total_duration c_two))
              (f_add OP (f_add OP final_span_start_time (it_dur it)) c_tail_leniency) in
    let p0 := f_div OP (f_sub OP last_tick_time final_span_start_time) (it_dur it) in
    let last_tick_progress := if Z.rem (it_n it) 2 =? 0 then f_sub OP c_one p0 else p0 in
    Done (mkEv KLastTick final_span_idx final_span_start_time last_tick_time last_tick_progress)).

  Definition tail_event (it : iter F) : outcome ev :=
    let total_duration := f_mul OP (f_of_Z OP (it_n it)) (it_dur it) in
    obind (i32_arith chk (it_n it - 1)) (fun final_span_idx =>
    obind (i32_arith chk (it_n it - 1)) (fun n1 =>
    Done (mkEv KTail final_span_idx
               (f_add OP (it_start it) (f_mul OP (f_of_Z OP n1) (it_dur it)))
               (f_add OP (it_start it) total_duration)
               (f_of_Z OP (Z.rem (it_n it) 2))))).

  (* Iterator::next *)
  Fixpoint iter_next (fuel tf : nat) (it : iter F) : outcome (option ev * iter F) :=
    match fuel with
    | O => OutOfFuel
    | S k =>
        match it_st it with
        | SHead => Done (Some (head_event it), set_st it (STicks 0))
        | STicks span =>
            match it_ticks it with
            | e :: r => Done (Some e, set_ticks it r)              (* ticks.pop() *)
            | [] =>
                if span =? it_n it then iter_next k tf (set_st it SLastTick)
                else
                  obind (i32_arith chk (span + 1)) (fun span' =>
                  obind (generate_ticks tf (set_st it (STicks span')) span) (fun it' =>
                  iter_next k tf it'))
            end
        | SLastTick =>
            obind (last_tick_event it) (fun e => Done (Some e, set_st it STail))
        | STail =>
            obind (tail_event it) (fun e => Done (Some e, set_st it SDone))
        | SDone => Done (None, it)
        end
    end.

  (* iterator.collect::<Vec<_>>() *)
  Fixpoint collect_aux (n fuel tf : nat) (it : iter F) : outcome (list ev) :=
    match n with
    | O => OutOfFuel
    | S k =>
        obind (iter_next fuel tf it) (fun r =>
        match fst r with
        | None => Done []
        | Some e => obind (collect_aux k fuel tf (snd r)) (fun l => Done (e :: l))
        end)
    end.
  Definition collect (fuel tf : nat) (it : iter F) : outcome (list ev) :=
    collect_aux fuel fuel tf it.

  (* SliderEventsIter::new(.., &mut buf).collect() *)
  Definition run (fuel tf : nat) (p : params F) (buf : list ev) : outcome (list ev) :=
    obind (iter_new p buf) (collect fuel tf).

  (* ---------- the eager list, written from the property text ---------- *)

  (* effective length and tick distance *)
  Definition sp_len (p : params F) : F := f_min OP c_max_len (p_total p).
  Definition sp_mdfe (p : params F) : F := f_mul OP (p_vel p) c_mdfe_factor.

  (* travelled distances of the ticks of one span, in travel order: the
     running sums td, td+td, (td+td)+td, ... as long as they are <= len and
     not within the minimum distance from the end *)
  Fixpoint tick_dists (tf : nat) (len mdfe td d : F) : outcome (list F) :=
    match tf with
    | O => OutOfFuel
    | S k =>
        if f_le OP d len && negb (f_le OP (f_sub OP len mdfe) d)
        then obind (tick_dists k len mdfe td (f_add OP d td)) (fun l => Done (d :: l))
        else Done []
    end.
  Definition span_dists (tf : nat) (len mdfe td : F) : outcome (list F) :=
    if f_lt OP c_zero td then tick_dists tf len mdfe td td else Done [].

  Section Spec.
    Variables (start dur len : F) (n : Z).

    Definition sp_sst (s : Z) : F := f_add OP start (f_mul OP (f_of_Z OP s) dur).
    Definition sp_tick (s : Z) (d : F) : ev :=
      let p := f_div OP d len in
      mkEv KTick s (sp_sst s)
           (f_add OP (sp_sst s) (f_mul OP (if Z.odd s then f_sub OP c_one p else p) dur)) p.
    Definition sp_repeat (s : Z) : ev :=
      mkEv KRepeat s (sp_sst s) (f_add OP (sp_sst s) dur) (f_of_Z OP ((s + 1) mod 2)).
    (* ticks of span [s] in chronological order: travel order on even spans,
       the reverse on odd (reversed) spans; then the repeat unless last span *)
    Definition sp_span (dists : list F) (s : Z) : list ev :=
      (if Z.odd s then rev (map (sp_tick s) dists) else map (sp_tick s) dists)
      ++ (if s <? n - 1 then [sp_repeat s] else []).
    Definition sp_head : ev := mkEv KHead 0 start start c_zero.
    Definition sp_last_tick : ev :=
      let fsst := sp_sst (n - 1) in
      let t := f_max OP (f_add OP start (f_div OP (f_mul OP (f_of_Z OP n) dur) c_two))
                       (f_add OP (f_add OP fsst dur) c_tail_leniency) in
      let p := f_div OP (f_sub OP t fsst) dur in
      mkEv KLastTick (n - 1) fsst t (if Z.even n then f_sub OP c_one p else p).
    Definition sp_tail : ev :=
      mkEv KTail (n - 1) (sp_sst (n - 1)) (f_add OP start (f_mul OP (f_of_Z OP n) dur))
           (f_of_Z OP (n mod 2)).
    Definition spans : list Z := map Z.of_nat (seq 0 (Z.to_nat n)).
    Definition sp_events (dists : list F) : list ev :=
      sp_head :: flat_map (sp_span dists) spans ++ [sp_last_tick; sp_tail].
  End Spec.

  (* head; per span the ticks in chronological order then (except after the
     last span) the repeat; legacy last tick; tail *)
  Definition events_spec (tf : nat) (p : params F) : outcome (list ev) :=
    let len := sp_len p in
    obind (f_clamp_chk OP (p_td p) c_zero len) (fun td =>
    obind (if 0 <? p_n p then span_dists tf len (sp_mdfe p) td else Done []) (fun dists =>
    Done (sp_events (p_start p) (p_dur p) len (p_n p) dists))).
End Machine.

(* ---------- canonical dumps ---------- *)

Definition kind_code (k : ekind) : Z :=
  match k with KHead => 0 | KTick => 1 | KRepeat => 2 | KLastTick => 3 | KTail => 4 end.
Definition dump_ev (e : event F64) : list Z :=
  [kind_code (ev_kind e); ev_span e; D.bits (ev_sst e); D.bits (ev_time e); D.bits (ev_prog e)].
Definition dump_evs (l : list (event F64)) : list Z :=
  Z.of_nat (length l) :: flat_map dump_ev l.
(* outcome: 0 = Done, then payload; 1 = Panic; 2 = OutOfFuel *)
Definition dump_out {A} (d : A -> list Z) (x : outcome A) : list Z :=
  match x with Done a => 0 :: d a | Panic w => [1; w] | OutOfFuel => [2] end.

(* DrvEnc: correspondence entries `enc` (C04, C02) and `edit` (C03).
   enc:  the text of a .osu file as code points (the byte -> text layer is
         C10/C08's business).  text -> lines_of_text -> decode_beatmap ->
         encode_tokens -> token dump (marker 0x7e57), or [1; w] on a panic of
         the model, [2] when out of fuel.
   edit: field id, length-prefixed value, then the text: decode, set the
         field, encode.

   The slider-curve distance and the slider event iterator are parameters of
   the decoder / encoder models; here they are connected to the curve model
   (Model/Curve.v, pure level L1, libm as an argument) and to the slider
   event model (Model/SliderEvents.v, IEEE instance, release-build i32
   arithmetic as in the harness).  Glue, not verified. *)
From RM Require Import Model.Encode Model.Edit.
From RM Require Model.Curve Model.SliderEvents.

Definition conv_pos (p : PathString.Pos) : Curve.Pos :=
  Curve.mkPos (PathString.px p) (PathString.py p).
Definition conv_ty (t : PathType) : Curve.SplineType :=
  if pt_kind t =? sk_catmull then Curve.Catmull
  else if pt_kind t =? sk_bspline then Curve.BSpline
  else if pt_kind t =? sk_linear then Curve.Linear
  else Curve.PerfectCurve.
Definition conv_pcp (p : PCP) : Curve.PathControlPoint :=
  Curve.mkPCP (conv_pos (cp_pos p)) (omap conv_ty (cp_type p)).

(* slider.path.curve_with_bufs(bufs).dist() *)
Definition dist_real (lm : Curve.Libm) (mode : Z) (cps : list PCP) (e : option F64) : outcome F64 :=
  obind (Curve.curve_L1 lm Curve.bezier_fuel mode (map conv_pcp cps) e) (fun c =>
  Done (Curve.dist (Curve.c_lengths c))).

Definition ev_fuel : nat := Z.to_nat 1000000.
Definition kind_idx (k : SliderEvents.ekind) : Z :=
  match k with
  | SliderEvents.KHead => evk_head | SliderEvents.KTick => evk_tick
  | SliderEvents.KRepeat => evk_repeat | SliderEvents.KLastTick => evk_last_tick
  | SliderEvents.KTail => evk_tail
  end.
(* SliderEventsIter::new(..).collect() on a cleared tick buffer *)
Definition events_real (start dur vel td total : F64) (n : Z) : outcome (list EncEvent) :=
  obind (SliderEvents.run SliderEvents.ops64 false ev_fuel ev_fuel
           (SliderEvents.mkP start dur vel td total n) []) (fun l =>
  Done (map (fun e => mkEncEv (kind_idx (SliderEvents.ev_kind e)) (SliderEvents.ev_span e)
                              (SliderEvents.ev_time e)) l)).

Definition dump_enc (x : outcome (list tok)) : list Z :=
  match x with
  | Done toks => dump_toks toks
  | Panic w => [1; w]
  | OutOfFuel => [2]
  end.

Definition enc_of_text (lm : Curve.Libm) (text : list Z) : outcome (list tok) :=
  obind (decode_beatmap (dist_real lm) (lines_of_text text)) (fun m =>
  encode_tokens (dist_real lm) events_real m).

Definition run_enc (lm : Curve.Libm) (inp : list Z) : list Z := dump_enc (enc_of_text lm inp).

Definition run_edit (lm : Curve.Libm) (inp : list Z) : list Z :=
  match inp with
  | id :: vlen :: rest =>
      let v := firstn (Z.to_nat vlen) rest in
      let text := skipn (Z.to_nat vlen) rest in
      match edit_of id v with
      | None => [97]
      | Some e =>
          dump_enc (obind (decode_beatmap (dist_real lm) (lines_of_text text)) (fun m =>
                    encode_tokens (dist_real lm) events_real (apply_edit e m)))
      end
  | _ => [99]
  end.

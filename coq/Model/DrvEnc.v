(* DrvEnc: correspondence entry `enc` (C04, C03, C02).
   Input: the text of a .osu file as code points (the byte -> text layer is
   C10/C08's business).  text -> lines_of_text -> decode_beatmap ->
   encode_tokens -> token dump (marker 0x7e57), or [1; w] on a panic of the
   model, [2] when out of fuel.

   The slider-curve distance and the slider event iterator are parameters of
   the encoder model; until the curve / slider-event packages are connected
   the entry runs with stubs that panic (code 77 / 78), which makes it usable
   on maps WITHOUT sliders (neither function is called for them).  The lead
   replaces [dist_stub] / [events_stub] by the real models here. *)
From RM Require Import Model.Encode.

Definition dist_stub : Z -> list PCP -> option F64 -> outcome F64 := fun _ _ _ => Panic 77.
Definition events_stub : F64 -> F64 -> F64 -> F64 -> F64 -> Z -> outcome (list EncEvent) :=
  fun _ _ _ _ _ _ => Panic 78.

Definition enc_of_text (text : list Z) : outcome (list tok) :=
  obind (decode_beatmap dist_stub (lines_of_text text)) (fun m =>
  encode_tokens dist_stub events_stub m).

Definition run_enc (inp : list Z) : list Z :=
  match enc_of_text inp with
  | Done toks => dump_toks toks
  | Panic w => [1; w]
  | OutOfFuel => [2]
  end.

(* entry `edit` (C03): field id, length-prefixed value, then the text.
   decode, set the field, encode. *)
From RM Require Import Model.Edit.

Definition run_edit (inp : list Z) : list Z :=
  match inp with
  | id :: vlen :: rest =>
      let v := firstn (Z.to_nat vlen) rest in
      let text := skipn (Z.to_nat vlen) rest in
      match edit_of id v with
      | None => [97]
      | Some e =>
          match obind (decode_beatmap dist_stub (lines_of_text text)) (fun m =>
                encode_tokens dist_stub events_stub (apply_edit e m)) with
          | Done toks => dump_toks toks
          | Panic w => [1; w]
          | OutOfFuel => [2]
          end
      end
  | _ => [99]
  end.

(* MapLevel: `impl From<HitObjectsState> for HitObjects`
   (section/hit_objects/decode.rs) on the concrete hit-object type:
   stable sort, break post-processing, slider velocity, durations, and the
   application of sample points (control_points/sample.rs SamplePoint::apply).
   The curve distance of a slider path enters as the function [dist_of]
   (mode, control points, expected distance) -> distance, instantiated with the
   curve model (Model/Curve.v) by Model/Decoders.v. *)
From RM Require Export Model.MapLevelGeneric Model.HitSamples Model.PathString Model.HitObjectLine Model.ControlPoints.
From RM Require Import Gen.Generated.

(* ---------- SamplePoint::apply ---------- *)

Definition sp_apply (p : SamplePoint) (s : HitSampleInfo) : HitSampleInfo :=
  let vol := if hs_volume s =? 0
             then zclamp (sp_vol p) (fst sample_volume_clamp) (snd sample_volume_clamp)
             else hs_volume s in
  match hs_name s with
  | NDefault _ =>
      let custom := if hs_custom s =? 0 then sp_custom p else hs_custom s in
      let suffix := if (hs_custom s =? 0) && (2 <=? sp_custom p) then Some (sp_custom p) else hs_suffix s in
      let bank := if hs_bank_specified s then hs_bank s else sp_bank p in
      mkHS (hs_name s) bank suffix vol custom true (hs_layered s)
  | NFile _ =>
      (* bank = DEFAULT_SAMPLE_BANK (Normal), suffix None, custom bank 1 *)
      mkHS (hs_name s) (sp_bank dflt_sp) None vol 1 false false
  end.

(* ---------- object accessors ---------- *)

Definition force_new_combo (h : HitObject) (f : bool) : HitObject :=
  match h_kind h with
  | KCircle c => mkHObj (h_start h) (KCircle (mkCircle (ci_pos c) (ci_new_combo c || f) (ci_combo_offset c))) (h_samples h)
  | KSlider s => mkHObj (h_start h)
                   (KSlider (mkSlider (sl_pos s) (sl_new_combo s || f) (sl_combo_offset s) (sl_mode s)
                                      (sl_control_points s) (sl_expected_dist s) (sl_node_samples s)
                                      (sl_repeat_count s) (sl_velocity s))) (h_samples h)
  | KSpinner s => mkHObj (h_start h) (KSpinner (mkSpinner (sp_pos s) (sp_duration s) (sp_new_combo s || f))) (h_samples h)
  | KHold _ => h
  end.

Definition start_key (h : HitObject) : Z := D.key (h_start h).

Definition f64_5 : F64 := dec64' control_point_leniency_dec.
Definition default_beat_len : F64 :=
  D.div (dec64' (fst default_beat_len_dec)) (dec64' (snd default_beat_len_dec)).

Section WithDist.
  Variable dist_of : Z -> list PCP -> option F64 -> outcome F64.

  (* HitObjectSlider::duration_with_bufs *)
  Definition slider_duration (s : Slider) : outcome F64 :=
    obind (dist_of (sl_mode s) (sl_control_points s) (sl_expected_dist s)) (fun d =>
    Done (D.div (D.mul (D.of_Z (sl_repeat_count s + 1)) d) (sl_velocity s))).

  Definition sample_point_or_default (c : ControlPoints) (t : F64) : SamplePoint :=
    match sample_point_at c t with Some p => p | None => dflt_sp end.

  (* node i of a slider: time = start + i * duration / span_count + 5 *)
  Fixpoint apply_nodes (c : ControlPoints) (start duration span_count : F64)
           (i : Z) (nodes : list (list HitSampleInfo)) : list (list HitSampleInfo) :=
    match nodes with
    | [] => []
    | n :: r =>
        let time := D.add (D.add start (D.div (D.mul (D.of_Z i) duration) span_count)) f64_5 in
        let p := sample_point_or_default c time in
        map (sp_apply p) n :: apply_nodes c start duration span_count (i + 1) r
    end.

  (* the body of the `for h in hit_objects.iter_mut()` loop *)
  Definition process_object (c : ControlPoints) (slider_multiplier : F64) (mode : Z) (h : HitObject)
    : outcome HitObject :=
    let start := h_start h in
    obind
      (match h_kind h with
       | KSlider s =>
           let beat_len := match timing_point_at c start with Some p => tp_beat_len p | None => default_beat_len end in
           obind (difficulty_point_at c start) (fun dp =>
           let sv := match dp with Some p => dp_sv p | None => D.one end in
           let vel := slider_velocity_of slider_multiplier sv beat_len mode in
           let s1 := mkSlider (sl_pos s) (sl_new_combo s) (sl_combo_offset s) (sl_mode s)
                              (sl_control_points s) (sl_expected_dist s) (sl_node_samples s)
                              (sl_repeat_count s) vel in
           obind (slider_duration s1) (fun duration =>
           let span_count := D.of_Z (sl_repeat_count s + 1) in
           let nodes := apply_nodes c start duration span_count 0 (sl_node_samples s) in
           let s2 := mkSlider (sl_pos s) (sl_new_combo s) (sl_combo_offset s) (sl_mode s)
                              (sl_control_points s) (sl_expected_dist s) nodes
                              (sl_repeat_count s) vel in
           Done (KSlider s2, D.add start duration)))
       | KCircle _ => Done (h_kind h, start)
       | KSpinner s => Done (h_kind h, D.add start (sp_duration s))
       | KHold hd => Done (h_kind h, D.add start (hd_duration hd))
       end)
      (fun '(kind, end_time) =>
       let p := sample_point_or_default c (D.add end_time f64_5) in
       Done (mkHObj start kind (map (sp_apply p) (h_samples h)))).

  Fixpoint process_objects (c : ControlPoints) (sm : F64) (mode : Z) (l : list HitObject)
    : outcome (list HitObject) :=
    match l with
    | [] => Done []
    | h :: r => obind (process_object c sm mode h) (fun h' =>
                obind (process_objects c sm mode r) (fun r' => Done (h' :: r')))
    end.

  (* sort, breaks, then the per-object loop *)
  Definition finish_hit_objects (c : ControlPoints) (breaks : list BreakPeriod)
             (slider_multiplier : F64) (mode : Z) (objs : list HitObject) : outcome (list HitObject) :=
    let sorted := ssort start_key objs in
    let combos := post_process_breaks h_start force_new_combo breaks sorted in
    process_objects c slider_multiplier mode combos.
End WithDist.

(* DrvCurve: decoding of correspondence cases for C16-C19 (glue, not verified). *)
From RM Require Import Model.ControlPoints Model.Curve Model.SliderPathCache.
Open Scope Z_scope.

Definition ty_of (t : Z) : option SplineType :=
  if t =? 1 then Some Catmull else if t =? 2 then Some BSpline
  else if t =? 3 then Some Linear else if t =? 4 then Some PerfectCurve else None.

(* n control points: x bits, y bits, type code, degree (ignored by curve.rs) *)
Fixpoint take_pts (n : nat) (inp : list Z) : option (list PathControlPoint * list Z) :=
  match n with
  | O => Some ([], inp)
  | S k =>
      match inp with
      | x :: y :: t :: _ :: r =>
          match take_pts k r with
          | Some (l, r') => Some (mkPCP (mkPos (S.of_bits x) (S.of_bits y)) (ty_of t) :: l, r')
          | None => None
          end
      | _ => None
      end
  end.

Definition take_list (inp : list Z) : option (list PathControlPoint * list Z) :=
  match inp with n :: r => take_pts (Z.to_nat n) r | [] => None end.

Definition take_len (inp : list Z) : option (option F64 * list Z) :=
  match inp with
  | h :: b :: r => Some (if h =? 0 then None else Some (D.of_bits b), r)
  | _ => None
  end.

(* c16: mode, points, expected length -> Curve::new with fresh buffers *)
Definition run_c16 (lm : Libm) (inp : list Z) : list Z :=
  match inp with
  | mode :: r =>
      match take_list r with
      | Some (pts, r1) =>
          match take_len r1 with
          | Some (e, _) =>
              dump_out (fun x : Curve * CurveBuffers => dump_curve (fst x))
                       (curve_new_L0 lm bezier_fuel mode pts e bufs_default)
          | None => [98]
          end
      | None => [98]
      end
  | _ => [98]
  end.

(* c18: mode, pool of point lists, pool of lengths, operations *)
Fixpoint take_pool (n : nat) (inp : list Z) : option (list (list PathControlPoint) * list Z) :=
  match n with
  | O => Some ([], inp)
  | S k => match take_list inp with
           | Some (l, r) => match take_pool k r with
                            | Some (ls, r') => Some (l :: ls, r')
                            | None => None end
           | None => None
           end
  end.
Fixpoint take_lens (n : nat) (inp : list Z) : option (list (option F64) * list Z) :=
  match n with
  | O => Some ([], inp)
  | S k => match take_len inp with
           | Some (l, r) => match take_lens k r with
                            | Some (ls, r') => Some (l :: ls, r')
                            | None => None end
           | None => None
           end
  end.

Section C18.
  Variable lm : Libm.
  Variable mode : Z.
  Variable pool : list (list PathControlPoint).
  Variable lens : list (option F64).
  Definition pl (k : Z) := nth (Z.to_nat k) pool [].
  Definition ln (k : Z) := nth (Z.to_nat k) lens None.

  Definition decode_op (inp : list Z) : option (sp_op * list Z) :=
    match inp with
    | 0 :: k :: l :: r => Some (OpOwnedOther mode (pl k) (ln l), r)
    | 1 :: k :: l :: r => Some (OpBorrowedOther mode (pl k) (ln l), r)
    | 2 :: r => Some (OpCurve, r)
    | 3 :: r => Some (OpCurveWithBufs, r)
    | 4 :: r => Some (OpBorrowed, r)
    | 5 :: k :: r => Some (OpSetPoints (pl k), r)
    | 6 :: l :: r => Some (OpSetDist (ln l), r)
    | 7 :: r => Some (OpClear, r)
    | 8 :: r => Some (OpTouchPoints, r)
    | 9 :: r => Some (OpTouchDist, r)
    | _ => None
    end.

  Fixpoint run_ops (fuel : nat) (sp : SliderPath) (bufs : CurveBuffers) (inp acc : list Z) : list Z :=
    match fuel with
    | O => acc ++ [99]
    | S f =>
        match inp with
        | [] => acc
        | _ =>
            match decode_op inp with
            | None => acc ++ [98]
            | Some (o, r) =>
                match sp_step lm bezier_fuel sp bufs o with
                | Done (sp', bufs', res) =>
                    run_ops f sp' bufs' r
                      (acc ++ match res with Some c => 0 :: dump_curve c | None => [] end)
                | Panic _ => acc ++ [1]
                | OutOfFuel => acc ++ [2]
                end
            end
        end
    end.
End C18.

Definition run_c18 (lm : Libm) (inp : list Z) : list Z :=
  match inp with
  | mode :: np :: r =>
      match take_pool (Z.to_nat np) r with
      | Some (pool, nl :: r1) =>
          match take_lens (Z.to_nat nl) r1 with
          | Some (lens, ops) =>
              run_ops lm mode pool lens (S (length ops))
                      (sp_new mode (nth 0 pool []) (nth 0 lens None)) bufs_default ops []
          | None => [98]
          end
      | _ => [98]
      end
  | _ => [98]
  end.

(* c19: curve as in c16, then progress values, then (i, d) pairs *)
Fixpoint run_prog (c : Curve) (n : nat) (inp acc : list Z) : list Z * list Z :=
  match n with
  | O => (acc, inp)
  | S k =>
      match inp with
      | p :: r =>
          let pr := D.of_bits p in
          let d := progress_to_dist (c_lengths c) pr in
          run_prog c k r
            (acc ++ dump_out dump_pos (position_at (c_path c) (c_lengths c) pr)
                 ++ [D.bits d; Z.of_nat (idx_of_dist (c_lengths c) d)])
      | [] => (acc ++ [98], [])
      end
  end.
Fixpoint run_interp (c : Curve) (n : nat) (inp acc : list Z) : list Z :=
  match n with
  | O => acc
  | S k =>
      match inp with
      | i :: d :: r =>
          run_interp c k r
            (acc ++ dump_out dump_pos
                      (interpolate_vertices (c_path c) (c_lengths c) (Z.to_nat i) (D.of_bits d))
                 ++ [Z.of_nat (idx_of_dist (c_lengths c) (D.of_bits d))])
      | _ => acc ++ [98]
      end
  end.

Definition run_c19 (lm : Libm) (inp : list Z) : list Z :=
  match inp with
  | mode :: r =>
      match take_list r with
      | Some (pts, r1) =>
          match take_len r1 with
          | Some (e, np :: r2) =>
              match curve_new_L0 lm bezier_fuel mode pts e bufs_default with
              | Done (c, _) =>
                  let '(acc, r3) := run_prog c (Z.to_nat np) r2 [0; D.bits (dist (c_lengths c))] in
                  match r3 with
                  | ni :: r4 => run_interp c (Z.to_nat ni) r4 acc
                  | [] => acc
                  end
              | Panic _ => [1]
              | OutOfFuel => [2]
              end
          | _ => [98]
          end
      | None => [98]
      end
  | _ => [98]
  end.

(* c16s: a sequence of Curve::new calls threading ONE CurveBuffers value:
   count, then (mode, points, expected length) per curve *)
Fixpoint run_seq (lm : Libm) (n : nat) (bufs : CurveBuffers) (inp acc : list Z) : list Z :=
  match n with
  | O => acc
  | S k =>
      match inp with
      | mode :: r =>
          match take_list r with
          | Some (pts, r1) =>
              match take_len r1 with
              | Some (e, r2) =>
                  match curve_new_L0 lm bezier_fuel mode pts e bufs with
                  | Done (c, bufs') => run_seq lm k bufs' r2 (acc ++ 0 :: dump_curve c)
                  | Panic _ => acc ++ [1]
                  | OutOfFuel => acc ++ [2]
                  end
              | None => acc ++ [98]
              end
          | None => acc ++ [98]
          end
      | [] => acc ++ [98]
      end
  end.

Definition run_c16s (lm : Libm) (inp : list Z) : list Z :=
  match inp with
  | n :: r => run_seq lm (Z.to_nat n) bufs_default r []
  | [] => [98]
  end.

(* Text: the [str] operations rosu-map uses, over lists of Unicode scalar
   values.  Each function mirrors the std function named in its comment. *)
From RM Require Export Model.Prelude.

Definition char := Z.
Definition str := list char.

(* Coq string literal -> str (ASCII only; used for keys and headers) *)
Fixpoint lit (s : string) : str :=
  match s with
  | EmptyString => []
  | String a r => Z.of_N (N_of_ascii a) :: lit r
  end.

Fixpoint str_eqb (a b : str) : bool :=
  match a, b with
  | [], [] => true
  | x :: a', y :: b' => Z.eqb x y && str_eqb a' b'
  | _, _ => false
  end.

(* char::is_whitespace  (Unicode White_Space) *)
Definition is_ws (c : char) : bool :=
  ((9 <=? c) && (c <=? 13)) || (c =? 32) || (c =? 133) || (c =? 160) || (c =? 5760)
  || ((8192 <=? c) && (c <=? 8202)) || (c =? 8232) || (c =? 8233) || (c =? 8239)
  || (c =? 8287) || (c =? 12288).

(* str::trim_start / trim_end / trim *)
Fixpoint trim_start (s : str) : str :=
  match s with
  | c :: r => if is_ws c then trim_start r else s
  | [] => []
  end.
Definition trim_end (s : str) : str := rev (trim_start (rev s)).
Definition trim (s : str) : str := trim_end (trim_start s).

(* str::split(char): always at least one piece *)
Fixpoint split_on (d : char) (s : str) : list str :=
  match s with
  | [] => [[]]
  | c :: r =>
      if c =? d then [] :: split_on d r
      else match split_on d r with
           | p :: ps => (c :: p) :: ps
           | [] => [[c]]   (* unreachable: split_on is never empty *)
           end
  end.

(* str::starts_with / strip_prefix *)
Fixpoint strip_prefix (p s : str) : option str :=
  match p, s with
  | [], _ => Some s
  | x :: p', y :: s' => if x =? y then strip_prefix p' s' else None
  | _ :: _, [] => None
  end.
Definition starts_with (p s : str) : bool :=
  match strip_prefix p s with Some _ => true | None => false end.
Definition strip_suffix (p s : str) : option str :=
  omap (@rev char) (strip_prefix (rev p) (rev s)).
Definition ends_with (p s : str) : bool :=
  match strip_suffix p s with Some _ => true | None => false end.

(* str::find(pat) as "text before the first occurrence", None if absent *)
Fixpoint before_first (p s : str) : option str :=
  if starts_with p s then Some []
  else match s with
       | [] => None
       | c :: r => omap (cons c) (before_first p r)
       end.

Definition slashes : str := [47; 47].

(* StrExt::trim_comment *)
Definition trim_comment (s : str) : str :=
  trim_end (odflt s (before_first slashes s)).

(* str::rsplit(c).next(): text after the last [c], or everything *)
Fixpoint after_last_aux (d : char) (s : str) (acc : str) : str :=
  match s with
  | [] => acc
  | c :: r => if c =? d then after_last_aux d r r else after_last_aux d r acc
  end.
Definition after_last (d : char) (s : str) : str := after_last_aux d s s.

(* str::trim_matches(c) for a single char *)
Fixpoint trim_start_matches (d : char) (s : str) : str :=
  match s with
  | c :: r => if c =? d then trim_start_matches d r else s
  | [] => []
  end.
Definition trim_matches (d : char) (s : str) : str :=
  rev (trim_start_matches d (rev (trim_start_matches d s))).

(* str::replace(from, to) for a non-empty pattern; fuel = length *)
Fixpoint replace_sub_aux (fuel : nat) (p t s : str) : str :=
  match fuel with
  | O => s
  | S k =>
      match strip_prefix p s with
      | Some r => match p with
                  | [] => s
                  | _ => t ++ replace_sub_aux k p t r
                  end
      | None => match s with
                | [] => []
                | c :: r => c :: replace_sub_aux k p t r
                end
      end
  end.
Definition replace_sub (p t s : str) : str := replace_sub_aux (S (length s)) p t s.

(* StrExt::to_standardized_path / clean_filename *)
Definition backslash : char := 92.
Definition to_standardized_path (s : str) : str := replace_sub [backslash] [47] s.
Definition clean_filename (s : str) : str :=
  to_standardized_path (replace_sub [backslash; backslash] [backslash] (trim_matches 34 s)).

(* char::is_ascii_alphabetic, u8::to_ascii_lowercase on code points *)
Definition is_ascii_alpha (c : char) : bool :=
  ((65 <=? c) && (c <=? 90)) || ((97 <=? c) && (c <=? 122)).
Definition ascii_lower (c : char) : char :=
  if (65 <=? c) && (c <=? 90) then c + 32 else c.

Definition is_digit (c : char) : bool := (48 <=? c) && (c <=? 57).

(* nth piece of an iterator: Rust's split.next() sequence is modelled by
   taking the list of pieces and consuming from the front. *)
Definition next {A} (l : list A) : option A * list A :=
  match l with [] => (None, []) | x :: r => (Some x, r) end.

(* EncTimingSpec: vocabulary of T02d (C02): "decoding, encoding and decoding again
   yields identical timing points and identical effective slider-velocity / kiai /
   scroll-speed timelines".
     - the class of hit objects whose samples carry the default volume and custom
       index ([objects_plain]) and of sample points with the default values
       ([sp_plain]);
     - the three timelines [sv_at], [kiai_at], [scroll_at] (the lookups of
       ControlPoints with the defaults of the point types);
     - the written records of the [TimingPoints] section ([wrec]) and the pure
       description of the `for group in groups` loop ([group_blocks]);
     - the exclusions, as decidable predicates on control points:
         [times_separated]   D8 and its relatives: two control-point times with
                             different total_cmp keys differ by at least f64::EPSILON
                             (so -0.0 / +0.0 never both occur, and no two distinct
                             times fall into one pending group of the decoder);
         [values_separated]  two distinct stored values are never within f64::EPSILON
                             (`is_redundant` compares with that tolerance);
         [scroll_follows_sv] D12: in taiko / mania the scroll speed is the slider velocity;
         [sv_round_trips]    the float fact clamp(100 / -(-100 / sv)) = sv.
   Definitions only. *)
From RM Require Export Model.EncSpec.
From RM Require Import Gen.Generated.
Open Scope Z_scope.

(* ---------- (a) the sample class ---------- *)

(* volume and custom index as the default sample point has them (100, 0) *)
Definition sample_plain (s : HitSampleInfo) : bool :=
  (hs_volume s =? sp_vol dflt_sp) && (hs_custom s =? sp_custom dflt_sp).
Definition object_plain (h : HitObject) : bool :=
  forallb sample_plain (h_samples h) &&
  match h_kind h with
  | KSlider s => forallb (forallb sample_plain) (sl_node_samples s)
  | _ => true
  end.
Definition objects_plain (l : list HitObject) : bool := forallb object_plain l.

(* a sample point that only differs from SamplePoint::default() in its time *)
Definition sp_plain (p : SamplePoint) : bool :=
  (sp_bank p =? sp_bank dflt_sp) && (sp_vol p =? sp_vol dflt_sp) && (sp_custom p =? sp_custom dflt_sp).

(* ---------- the three timelines ---------- *)

Definition dp_sv_or (o : option DifficultyPoint) : F64 :=
  match o with Some p => dp_sv p | None => dp_sv dflt_dp end.
Definition ep_kiai_or (o : option EffectPoint) : bool :=
  match o with Some p => ep_kiai p | None => ep_kiai dflt_ep end.
Definition ep_scroll_or (o : option EffectPoint) : F64 :=
  match o with Some p => ep_scroll p | None => ep_scroll dflt_ep end.

(* difficulty_point_at(t).map_or(DEFAULT, |p| p.slider_velocity) etc. *)
Definition sv_at (c : ControlPoints) (t : F64) : outcome F64 :=
  obind (difficulty_point_at c t) (fun o => Done (dp_sv_or o)).
Definition kiai_at (c : ControlPoints) (t : F64) : outcome bool :=
  obind (effect_point_at c t) (fun o => Done (ep_kiai_or o)).
Definition scroll_at (c : ControlPoints) (t : F64) : outcome F64 :=
  obind (effect_point_at c t) (fun o => Done (ep_scroll_or o)).

(* ---------- the control points the encoder works on ---------- *)

Section Enc.
  Variable dist_of : Z -> list PCP -> option F64 -> outcome F64.
  Variable events_of : F64 -> F64 -> F64 -> F64 -> F64 -> Z -> outcome (list EncEvent).

  (* `control_points` of encode_timing_points after collect_samples *)
  Definition enc_control_points (m : BeatmapV) : outcome ControlPoints :=
    let ho := bmv_ho m in
    collect_samples dist_of events_of (g_mode (hov_general ho)) (bmv_version m)
                    (d_slider_tick_rate (hov_difficulty ho))
                    (d_slider_multiplier (hov_difficulty ho))
                    (hov_control_points ho) (hov_hit_objects ho).
End Enc.

(* ---------- (b) the records the `for group in groups` loop writes ---------- *)

Inductive wrec :=
| WT (t : TimingPoint) (p : Props)        (* "time,beat_len," + props, uninherited *)
| WI (time : F64) (p : Props).            (* "time,-100/sv," + props, inherited *)

Definition wrec_line (r : wrec) : line :=
  match r with
  | WT t p => tp_line (tp_time t) (tp_beat_len t) p true
  | WI time p => tp_line time (D.div f64_m100 (pr_sv p)) p false
  end.
Definition wrec_time (r : wrec) : F64 :=
  match r with WT t _ => tp_time t | WI time _ => time end.
Definition wrec_props (r : wrec) : Props :=
  match r with WT _ p => p | WI _ p => p end.

(* `ControlPointProperties { slider_velocity: 1.0, ..props }` *)
Definition props_timing (p : Props) : Props :=
  mkProps D.one (pr_sig p) (pr_bank p) (pr_custom p) (pr_vol p) (pr_flags p).

(* the lookups of ControlPointProperties::new without their panic outcome (on sorted
   collections they never panic: Proofs/ControlPointsFacts.at_opt_spec) *)
Definition dp_lookup (c : ControlPoints) (t : F64) : option DifficultyPoint :=
  match difficulty_point_at c t with Done o => o | _ => None end.
Definition ep_lookup (c : ControlPoints) (t : F64) : option EffectPoint :=
  match effect_point_at c t with Done o => o | _ => None end.

(* ControlPointProperties::new, as a value *)
Definition props_at (c : ControlPoints) (time : F64) (last : Props) (update_bank : bool) : Props :=
  let timing := timing_point_at c time in
  let sample := match sample_point_at c time with Some p => p | None => dflt_sp end in
  let tmp := sp_apply sample (hs_new (NDefault nm_normal) None 0 0) in
  let kiai := ep_kiai_or (ep_lookup c time) in
  let omit := match timing with Some p => tp_omit p | None => false end in
  mkProps (dp_sv_or (dp_lookup c time))
          (match timing with Some p => tp_sig p | None => tp_default_signature end)
          (if update_bank then hs_bank tmp else pr_bank last)
          (if 0 <=? hs_custom tmp then hs_custom tmp else pr_custom last)
          (hs_volume tmp)
          (Z.lor (if kiai then effect_kiai else effect_none)
                 (if omit then effect_omit_first_bar_line else effect_none)).

(* one decision of the loop per group: the properties computed for it and whether the
   inherited line is written (the timing line is written iff the group has a timing point) *)
Record gdec := mkGD { gd_group : Group; gd_props : Props; gd_inh : bool }.

Definition has_timing (g : Group) : bool := match gr_timing g with Some _ => true | None => false end.

Fixpoint group_decisions (c : ControlPoints) (last : Props) (gs : list Group) : list gdec :=
  match gs with
  | [] => []
  | g :: r =>
      let props := props_at c (gr_time g) last (has_timing g) in
      let last1 := if has_timing g then props_timing props else last in
      if props_redundant props last1 then mkGD g props false :: group_decisions c last1 r
      else mkGD g props true :: group_decisions c props r
  end.

(* the records written for one group, in order *)
Definition gd_block (d : gdec) : list wrec :=
  match gr_timing (gd_group d) with Some t => [WT t (gd_props d)] | None => [] end ++
  (if gd_inh d then [WI (gr_time (gd_group d)) (gd_props d)] else []).

Definition enc_decisions (c : ControlPoints) : list gdec := group_decisions c props_default (groups_of c).
Definition enc_records (c : ControlPoints) : list wrec := flat_map gd_block (enc_decisions c).

(* every written record is a line the decoder's field parser can take: times and beat
   fields within the parse limits, integer fields within i32 (the beat field of an
   inherited line is -100/sv) *)
Definition wrec_ok (r : wrec) : bool :=
  match r with
  | WT t p => tp_line_ok (tp_time t) (tp_beat_len t) p true
  | WI time p => tp_line_ok time (D.div f64_m100 (pr_sv p)) p false
  end.

(* ---------- exclusions ---------- *)

Definition cp_times (c : ControlPoints) : list F64 :=
  map tp_time (cp_timing c) ++ map dp_time (cp_difficulty c) ++
  map ep_time (cp_effect c) ++ map sp_time (cp_sample c).

(* same total_cmp key, or at least f64::EPSILON apart (in both argument orders of the
   decoder's flush test) *)
Definition apart (t u : F64) : bool :=
  (D.key t =? D.key u) || (time_changed t u && time_changed u t).
Fixpoint pairwise {A} (r : A -> A -> bool) (l : list A) : bool :=
  match l with
  | [] => true
  | x :: rest => forallb (r x) rest && pairwise r rest
  end.
Definition times_separated (c : ControlPoints) : bool := pairwise apart (cp_times c).

(* two values are equal or not within f64::EPSILON of each other *)
Definition near_eq (x y : F64) : bool := negb (near x y) || f64_eqb x y.
Definition all_pairs {A} (r : A -> A -> bool) (l : list A) : bool :=
  forallb (fun x => forallb (r x) l) l.
Definition sv_values (c : ControlPoints) : list F64 := D.one :: map dp_sv (cp_difficulty c).
Definition scroll_values (c : ControlPoints) : list F64 := D.one :: map ep_scroll (cp_effect c).
Definition values_separated (c : ControlPoints) : bool :=
  all_pairs near_eq (sv_values c) && all_pairs near_eq (scroll_values c).

(* what the decoder computes from the beat-length field "-100/sv" of an inherited line,
   before the clamps: speed_multiplier = 100 / -beat_len for a negative beat length *)
Definition sv_back (sv : F64) : F64 := speed_multiplier (D.div f64_m100 sv).
Definition sv_round_trips (sv : F64) : bool := f64_eqb (sv_back sv) sv.
Definition svs_round_trip (c : ControlPoints) : bool := forallb sv_round_trips (map dp_sv (cp_difficulty c)).

(* D12: the format has one field for slider velocity and scroll speed.  Outside taiko /
   mania every scroll speed is 1; in taiko / mania the scroll speed at every control-point
   time is the slider velocity active there. *)
Definition sv_lookup (c : ControlPoints) (t : F64) : F64 :=
  match sv_at c t with Done x => x | _ => D.nan end.
Definition scroll_lookup (c : ControlPoints) (t : F64) : F64 :=
  match scroll_at c t with Done x => x | _ => D.nan end.
Definition scroll_follows_sv (mode : Z) (c : ControlPoints) : bool :=
  if scroll_mode mode
  then forallb (fun t => f64_eqb (scroll_lookup c t) (sv_lookup c t))
               (cp_times c)
  else forallb (fun p => f64_eqb (ep_scroll p) D.one) (cp_effect c).

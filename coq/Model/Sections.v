(* Sections: the six simple section parsers of rosu-map
     General::parse_general      src/section/general/decode.rs
     Editor::parse_editor        src/section/editor.rs
     Metadata::parse_metadata    src/section/metadata.rs
     Difficulty::parse_difficulty src/section/difficulty.rs
     Events::parse_events        src/section/events/decode.rs
     Colors::parse_colors        src/section/colors/{mod,decode}.rs
   Each [parse_x : State -> str -> State * res] mirrors the Rust function
   statement by statement and returns the state as mutated up to the error.
   Enums are their variant index (as in Gen.Generated tables).
   Definitions only; dumps at the end. *)
From RM Require Export Model.KeyValue.
From RM Require Import Gen.Generated.

Record BreakPeriod : Type := mkBreak { bp_start : F64; bp_end : F64 }.
Record Color : Type := mkColor { c_r : Z; c_g : Z; c_b : Z; c_a : Z }.
Record CustomColor : Type := mkCustomColor { cc_name : str; cc_color : Color }.

(* ---------- state records and field setters (Rust: [state.f = v]) ---------- *)

Record GeneralState : Type := mkGeneral {
  g_audio_file : str;
  g_audio_lead_in : F64;
  g_preview_time : Z;
  g_default_sample_bank : Z;
  g_default_sample_volume : Z;
  g_stack_leniency : F32;
  g_mode : Z;
  g_letterbox_in_breaks : bool;
  g_special_style : bool;
  g_widescreen_storyboard : bool;
  g_epilepsy_warning : bool;
  g_samples_match_playback_rate : bool;
  g_countdown : Z;
  g_countdown_offset : Z
}.
Definition set_g_audio_file (s : GeneralState) (v : str) : GeneralState :=
  mkGeneral v (g_audio_lead_in s) (g_preview_time s) (g_default_sample_bank s) (g_default_sample_volume s) (g_stack_leniency s) (g_mode s) (g_letterbox_in_breaks s) (g_special_style s) (g_widescreen_storyboard s) (g_epilepsy_warning s) (g_samples_match_playback_rate s) (g_countdown s) (g_countdown_offset s).
Definition set_g_audio_lead_in (s : GeneralState) (v : F64) : GeneralState :=
  mkGeneral (g_audio_file s) v (g_preview_time s) (g_default_sample_bank s) (g_default_sample_volume s) (g_stack_leniency s) (g_mode s) (g_letterbox_in_breaks s) (g_special_style s) (g_widescreen_storyboard s) (g_epilepsy_warning s) (g_samples_match_playback_rate s) (g_countdown s) (g_countdown_offset s).
Definition set_g_preview_time (s : GeneralState) (v : Z) : GeneralState :=
  mkGeneral (g_audio_file s) (g_audio_lead_in s) v (g_default_sample_bank s) (g_default_sample_volume s) (g_stack_leniency s) (g_mode s) (g_letterbox_in_breaks s) (g_special_style s) (g_widescreen_storyboard s) (g_epilepsy_warning s) (g_samples_match_playback_rate s) (g_countdown s) (g_countdown_offset s).
Definition set_g_default_sample_bank (s : GeneralState) (v : Z) : GeneralState :=
  mkGeneral (g_audio_file s) (g_audio_lead_in s) (g_preview_time s) v (g_default_sample_volume s) (g_stack_leniency s) (g_mode s) (g_letterbox_in_breaks s) (g_special_style s) (g_widescreen_storyboard s) (g_epilepsy_warning s) (g_samples_match_playback_rate s) (g_countdown s) (g_countdown_offset s).
Definition set_g_default_sample_volume (s : GeneralState) (v : Z) : GeneralState :=
  mkGeneral (g_audio_file s) (g_audio_lead_in s) (g_preview_time s) (g_default_sample_bank s) v (g_stack_leniency s) (g_mode s) (g_letterbox_in_breaks s) (g_special_style s) (g_widescreen_storyboard s) (g_epilepsy_warning s) (g_samples_match_playback_rate s) (g_countdown s) (g_countdown_offset s).
Definition set_g_stack_leniency (s : GeneralState) (v : F32) : GeneralState :=
  mkGeneral (g_audio_file s) (g_audio_lead_in s) (g_preview_time s) (g_default_sample_bank s) (g_default_sample_volume s) v (g_mode s) (g_letterbox_in_breaks s) (g_special_style s) (g_widescreen_storyboard s) (g_epilepsy_warning s) (g_samples_match_playback_rate s) (g_countdown s) (g_countdown_offset s).
Definition set_g_mode (s : GeneralState) (v : Z) : GeneralState :=
  mkGeneral (g_audio_file s) (g_audio_lead_in s) (g_preview_time s) (g_default_sample_bank s) (g_default_sample_volume s) (g_stack_leniency s) v (g_letterbox_in_breaks s) (g_special_style s) (g_widescreen_storyboard s) (g_epilepsy_warning s) (g_samples_match_playback_rate s) (g_countdown s) (g_countdown_offset s).
Definition set_g_letterbox_in_breaks (s : GeneralState) (v : bool) : GeneralState :=
  mkGeneral (g_audio_file s) (g_audio_lead_in s) (g_preview_time s) (g_default_sample_bank s) (g_default_sample_volume s) (g_stack_leniency s) (g_mode s) v (g_special_style s) (g_widescreen_storyboard s) (g_epilepsy_warning s) (g_samples_match_playback_rate s) (g_countdown s) (g_countdown_offset s).
Definition set_g_special_style (s : GeneralState) (v : bool) : GeneralState :=
  mkGeneral (g_audio_file s) (g_audio_lead_in s) (g_preview_time s) (g_default_sample_bank s) (g_default_sample_volume s) (g_stack_leniency s) (g_mode s) (g_letterbox_in_breaks s) v (g_widescreen_storyboard s) (g_epilepsy_warning s) (g_samples_match_playback_rate s) (g_countdown s) (g_countdown_offset s).
Definition set_g_widescreen_storyboard (s : GeneralState) (v : bool) : GeneralState :=
  mkGeneral (g_audio_file s) (g_audio_lead_in s) (g_preview_time s) (g_default_sample_bank s) (g_default_sample_volume s) (g_stack_leniency s) (g_mode s) (g_letterbox_in_breaks s) (g_special_style s) v (g_epilepsy_warning s) (g_samples_match_playback_rate s) (g_countdown s) (g_countdown_offset s).
Definition set_g_epilepsy_warning (s : GeneralState) (v : bool) : GeneralState :=
  mkGeneral (g_audio_file s) (g_audio_lead_in s) (g_preview_time s) (g_default_sample_bank s) (g_default_sample_volume s) (g_stack_leniency s) (g_mode s) (g_letterbox_in_breaks s) (g_special_style s) (g_widescreen_storyboard s) v (g_samples_match_playback_rate s) (g_countdown s) (g_countdown_offset s).
Definition set_g_samples_match_playback_rate (s : GeneralState) (v : bool) : GeneralState :=
  mkGeneral (g_audio_file s) (g_audio_lead_in s) (g_preview_time s) (g_default_sample_bank s) (g_default_sample_volume s) (g_stack_leniency s) (g_mode s) (g_letterbox_in_breaks s) (g_special_style s) (g_widescreen_storyboard s) (g_epilepsy_warning s) v (g_countdown s) (g_countdown_offset s).
Definition set_g_countdown (s : GeneralState) (v : Z) : GeneralState :=
  mkGeneral (g_audio_file s) (g_audio_lead_in s) (g_preview_time s) (g_default_sample_bank s) (g_default_sample_volume s) (g_stack_leniency s) (g_mode s) (g_letterbox_in_breaks s) (g_special_style s) (g_widescreen_storyboard s) (g_epilepsy_warning s) (g_samples_match_playback_rate s) v (g_countdown_offset s).
Definition set_g_countdown_offset (s : GeneralState) (v : Z) : GeneralState :=
  mkGeneral (g_audio_file s) (g_audio_lead_in s) (g_preview_time s) (g_default_sample_bank s) (g_default_sample_volume s) (g_stack_leniency s) (g_mode s) (g_letterbox_in_breaks s) (g_special_style s) (g_widescreen_storyboard s) (g_epilepsy_warning s) (g_samples_match_playback_rate s) (g_countdown s) v.

Record EditorState : Type := mkEditor {
  ed_bookmarks : list Z;
  ed_distance_spacing : F64;
  ed_beat_divisor : Z;
  ed_grid_size : Z;
  ed_timeline_zoom : F64
}.
Definition set_ed_bookmarks (s : EditorState) (v : list Z) : EditorState :=
  mkEditor v (ed_distance_spacing s) (ed_beat_divisor s) (ed_grid_size s) (ed_timeline_zoom s).
Definition set_ed_distance_spacing (s : EditorState) (v : F64) : EditorState :=
  mkEditor (ed_bookmarks s) v (ed_beat_divisor s) (ed_grid_size s) (ed_timeline_zoom s).
Definition set_ed_beat_divisor (s : EditorState) (v : Z) : EditorState :=
  mkEditor (ed_bookmarks s) (ed_distance_spacing s) v (ed_grid_size s) (ed_timeline_zoom s).
Definition set_ed_grid_size (s : EditorState) (v : Z) : EditorState :=
  mkEditor (ed_bookmarks s) (ed_distance_spacing s) (ed_beat_divisor s) v (ed_timeline_zoom s).
Definition set_ed_timeline_zoom (s : EditorState) (v : F64) : EditorState :=
  mkEditor (ed_bookmarks s) (ed_distance_spacing s) (ed_beat_divisor s) (ed_grid_size s) v.

Record MetadataState : Type := mkMetadata {
  m_title : str;
  m_title_unicode : str;
  m_artist : str;
  m_artist_unicode : str;
  m_creator : str;
  m_version : str;
  m_source : str;
  m_tags : str;
  m_beatmap_id : Z;
  m_beatmap_set_id : Z
}.
Definition set_m_title (s : MetadataState) (v : str) : MetadataState :=
  mkMetadata v (m_title_unicode s) (m_artist s) (m_artist_unicode s) (m_creator s) (m_version s) (m_source s) (m_tags s) (m_beatmap_id s) (m_beatmap_set_id s).
Definition set_m_title_unicode (s : MetadataState) (v : str) : MetadataState :=
  mkMetadata (m_title s) v (m_artist s) (m_artist_unicode s) (m_creator s) (m_version s) (m_source s) (m_tags s) (m_beatmap_id s) (m_beatmap_set_id s).
Definition set_m_artist (s : MetadataState) (v : str) : MetadataState :=
  mkMetadata (m_title s) (m_title_unicode s) v (m_artist_unicode s) (m_creator s) (m_version s) (m_source s) (m_tags s) (m_beatmap_id s) (m_beatmap_set_id s).
Definition set_m_artist_unicode (s : MetadataState) (v : str) : MetadataState :=
  mkMetadata (m_title s) (m_title_unicode s) (m_artist s) v (m_creator s) (m_version s) (m_source s) (m_tags s) (m_beatmap_id s) (m_beatmap_set_id s).
Definition set_m_creator (s : MetadataState) (v : str) : MetadataState :=
  mkMetadata (m_title s) (m_title_unicode s) (m_artist s) (m_artist_unicode s) v (m_version s) (m_source s) (m_tags s) (m_beatmap_id s) (m_beatmap_set_id s).
Definition set_m_version (s : MetadataState) (v : str) : MetadataState :=
  mkMetadata (m_title s) (m_title_unicode s) (m_artist s) (m_artist_unicode s) (m_creator s) v (m_source s) (m_tags s) (m_beatmap_id s) (m_beatmap_set_id s).
Definition set_m_source (s : MetadataState) (v : str) : MetadataState :=
  mkMetadata (m_title s) (m_title_unicode s) (m_artist s) (m_artist_unicode s) (m_creator s) (m_version s) v (m_tags s) (m_beatmap_id s) (m_beatmap_set_id s).
Definition set_m_tags (s : MetadataState) (v : str) : MetadataState :=
  mkMetadata (m_title s) (m_title_unicode s) (m_artist s) (m_artist_unicode s) (m_creator s) (m_version s) (m_source s) v (m_beatmap_id s) (m_beatmap_set_id s).
Definition set_m_beatmap_id (s : MetadataState) (v : Z) : MetadataState :=
  mkMetadata (m_title s) (m_title_unicode s) (m_artist s) (m_artist_unicode s) (m_creator s) (m_version s) (m_source s) (m_tags s) v (m_beatmap_set_id s).
Definition set_m_beatmap_set_id (s : MetadataState) (v : Z) : MetadataState :=
  mkMetadata (m_title s) (m_title_unicode s) (m_artist s) (m_artist_unicode s) (m_creator s) (m_version s) (m_source s) (m_tags s) (m_beatmap_id s) v.

Record DifficultyState : Type := mkDifficulty {
  d_has_approach_rate : bool;
  d_hp_drain_rate : F32;
  d_circle_size : F32;
  d_overall_difficulty : F32;
  d_approach_rate : F32;
  d_slider_multiplier : F64;
  d_slider_tick_rate : F64
}.
Definition set_d_has_approach_rate (s : DifficultyState) (v : bool) : DifficultyState :=
  mkDifficulty v (d_hp_drain_rate s) (d_circle_size s) (d_overall_difficulty s) (d_approach_rate s) (d_slider_multiplier s) (d_slider_tick_rate s).
Definition set_d_hp_drain_rate (s : DifficultyState) (v : F32) : DifficultyState :=
  mkDifficulty (d_has_approach_rate s) v (d_circle_size s) (d_overall_difficulty s) (d_approach_rate s) (d_slider_multiplier s) (d_slider_tick_rate s).
Definition set_d_circle_size (s : DifficultyState) (v : F32) : DifficultyState :=
  mkDifficulty (d_has_approach_rate s) (d_hp_drain_rate s) v (d_overall_difficulty s) (d_approach_rate s) (d_slider_multiplier s) (d_slider_tick_rate s).
Definition set_d_overall_difficulty (s : DifficultyState) (v : F32) : DifficultyState :=
  mkDifficulty (d_has_approach_rate s) (d_hp_drain_rate s) (d_circle_size s) v (d_approach_rate s) (d_slider_multiplier s) (d_slider_tick_rate s).
Definition set_d_approach_rate (s : DifficultyState) (v : F32) : DifficultyState :=
  mkDifficulty (d_has_approach_rate s) (d_hp_drain_rate s) (d_circle_size s) (d_overall_difficulty s) v (d_slider_multiplier s) (d_slider_tick_rate s).
Definition set_d_slider_multiplier (s : DifficultyState) (v : F64) : DifficultyState :=
  mkDifficulty (d_has_approach_rate s) (d_hp_drain_rate s) (d_circle_size s) (d_overall_difficulty s) (d_approach_rate s) v (d_slider_tick_rate s).
Definition set_d_slider_tick_rate (s : DifficultyState) (v : F64) : DifficultyState :=
  mkDifficulty (d_has_approach_rate s) (d_hp_drain_rate s) (d_circle_size s) (d_overall_difficulty s) (d_approach_rate s) (d_slider_multiplier s) v.

Record EventsState : Type := mkEvents {
  ev_background_file : str;
  ev_breaks : list BreakPeriod
}.
Definition set_ev_background_file (s : EventsState) (v : str) : EventsState :=
  mkEvents v (ev_breaks s).
Definition set_ev_breaks (s : EventsState) (v : list BreakPeriod) : EventsState :=
  mkEvents (ev_background_file s) v.

Record ColorsState : Type := mkColors {
  co_custom_combo_colors : list Color;
  co_custom_colors : list CustomColor
}.
Definition set_co_custom_combo_colors (s : ColorsState) (v : list Color) : ColorsState :=
  mkColors v (co_custom_colors s).
Definition set_co_custom_colors (s : ColorsState) (v : list CustomColor) : ColorsState :=
  mkColors (co_custom_combo_colors s) v.

(* ---------- defaults (DecodeState::create ignores the version) ---------- *)

Definition general_default : GeneralState :=
  mkGeneral [] D.zero default_preview_time 0 default_sample_volume
            (lit32 default_stack_leniency_dec) 0 false false false false false
            default_countdown 0.
Definition editor_default : EditorState :=
  mkEditor [] (lit64 default_distance_spacing_dec) default_beat_divisor 0
           (lit64 default_timeline_zoom_dec).
Definition metadata_default : MetadataState :=
  mkMetadata [] [] [] [] [] [] [] [] default_beatmap_id 0.
Definition difficulty_default : DifficultyState :=
  mkDifficulty false (lit32 default_hp_drain_rate_dec) (lit32 default_circle_size_dec)
               (lit32 default_overall_difficulty_dec) (lit32 default_approach_rate_dec)
               (lit64 default_slider_multiplier_dec) (lit64 default_slider_tick_rate_dec).
Definition events_default : EventsState := mkEvents [] [].
Definition colors_default : ColorsState := mkColors [] [].

(* ---------- keys (section_keys!) ---------- *)

Inductive GeneralKey :=
| GAudioFilename | GAudioLeadIn | GPreviewTime | GSampleSet | GSampleVolume
| GStackLeniency | GMode | GLetterboxInBreaks | GSpecialStyle | GWidescreenStoryboard
| GEpilepsyWarning | GSamplesMatchPlaybackRate | GCountdown | GCountdownOffset.
Definition all_general_keys : list GeneralKey :=
  [GAudioFilename; GAudioLeadIn; GPreviewTime; GSampleSet; GSampleVolume;
   GStackLeniency; GMode; GLetterboxInBreaks; GSpecialStyle; GWidescreenStoryboard;
   GEpilepsyWarning; GSamplesMatchPlaybackRate; GCountdown; GCountdownOffset].
Definition general_key_from_str (s : str) : option GeneralKey :=
  obnd (index_of general_keys s) (nth_error all_general_keys).

Inductive EditorKey := EBookmarks | EDistanceSpacing | EBeatDivisor | EGridSize | ETimelineZoom.
Definition all_editor_keys : list EditorKey :=
  [EBookmarks; EDistanceSpacing; EBeatDivisor; EGridSize; ETimelineZoom].
Definition editor_key_from_str (s : str) : option EditorKey :=
  obnd (index_of editor_keys s) (nth_error all_editor_keys).

Inductive MetadataKey :=
| MTitle | MTitleUnicode | MArtist | MArtistUnicode | MCreator | MVersion | MSource | MTags
| MBeatmapID | MBeatmapSetID.
Definition all_metadata_keys : list MetadataKey :=
  [MTitle; MTitleUnicode; MArtist; MArtistUnicode; MCreator; MVersion; MSource; MTags;
   MBeatmapID; MBeatmapSetID].
Definition metadata_key_from_str (s : str) : option MetadataKey :=
  obnd (index_of metadata_keys s) (nth_error all_metadata_keys).

Inductive DifficultyKey :=
| DHPDrainRate | DCircleSize | DOverallDifficulty | DApproachRate | DSliderMultiplier | DSliderTickRate.
Definition all_difficulty_keys : list DifficultyKey :=
  [DHPDrainRate; DCircleSize; DOverallDifficulty; DApproachRate; DSliderMultiplier; DSliderTickRate].
Definition difficulty_key_from_str (s : str) : option DifficultyKey :=
  obnd (index_of difficulty_keys s) (nth_error all_difficulty_keys).

(* ---------- [General] ---------- *)

(* i32::parse(value)? == 1 *)
Definition is_flag_value (n : Z) : bool := n =? flag_true_value.

Definition parse_general (st : GeneralState) (line : str) : GeneralState * res :=
  match kv_parse general_key_from_str (trim_comment line) with
  | None => (st, Ok)
  | Some (key, value) =>
      match key with
      | GAudioFilename => (set_g_audio_file st (to_standardized_path value), Ok)
      | GAudioLeadIn =>
          match pn_i32 value with
          | Some n => (set_g_audio_lead_in st (D.of_Z n), Ok)
          | None => (st, Rejected)
          end
      | GPreviewTime =>
          match pn_i32 value with
          | Some n => (set_g_preview_time st n, Ok)
          | None => (st, Rejected)
          end
      | GSampleSet =>
          match assoc_str sample_bank_table value with
          | Some b => (set_g_default_sample_bank st b, Ok)
          | None => (st, Rejected)
          end
      | GSampleVolume =>
          match pn_i32 value with
          | Some n => (set_g_default_sample_volume st n, Ok)
          | None => (st, Rejected)
          end
      | GStackLeniency =>
          match pn_f32 value with
          | Some x => (set_g_stack_leniency st x, Ok)
          | None => (st, Rejected)
          end
      | GMode =>
          match assoc_str game_mode_table value with
          | Some m => (set_g_mode st m, Ok)
          | None => (st, Rejected)
          end
      | GLetterboxInBreaks =>
          match pn_i32 value with
          | Some n => (set_g_letterbox_in_breaks st (is_flag_value n), Ok)
          | None => (st, Rejected)
          end
      | GSpecialStyle =>
          match pn_i32 value with
          | Some n => (set_g_special_style st (is_flag_value n), Ok)
          | None => (st, Rejected)
          end
      | GWidescreenStoryboard =>
          match pn_i32 value with
          | Some n => (set_g_widescreen_storyboard st (is_flag_value n), Ok)
          | None => (st, Rejected)
          end
      | GEpilepsyWarning =>
          match pn_i32 value with
          | Some n => (set_g_epilepsy_warning st (is_flag_value n), Ok)
          | None => (st, Rejected)
          end
      | GSamplesMatchPlaybackRate =>
          match pn_i32 value with
          | Some n => (set_g_samples_match_playback_rate st (is_flag_value n), Ok)
          | None => (st, Rejected)
          end
      | GCountdown =>
          match assoc_str countdown_table value with
          | Some c => (set_g_countdown st c, Ok)
          | None => (st, Rejected)
          end
      | GCountdownOffset =>
          match pn_i32 value with
          | Some n => (set_g_countdown_offset st n, Ok)
          | None => (st, Rejected)
          end
      end
  end.

(* ---------- [Editor] ---------- *)

(* value.split(',').map(StrExt::parse_num).filter_map(Result::ok).collect():
   every piece goes through ParseNumber for i32 (trimmed, within +-MAX_PARSE_VALUE);
   a piece that fails is skipped *)
Definition parse_bookmarks (value : str) : list Z :=
  filter_map pn_i32 (split_on comma value).

Definition parse_editor (st : EditorState) (line : str) : EditorState * res :=
  match kv_parse editor_key_from_str (trim_comment line) with
  | None => (st, Ok)
  | Some (key, value) =>
      match key with
      | EBookmarks => (set_ed_bookmarks st (parse_bookmarks value), Ok)
      | EDistanceSpacing =>
          match pn_f64 value with
          | Some x => (set_ed_distance_spacing st x, Ok)
          | None => (st, Rejected)
          end
      | EBeatDivisor =>
          match pn_i32 value with
          | Some n => (set_ed_beat_divisor st n, Ok)
          | None => (st, Rejected)
          end
      | EGridSize =>
          match pn_i32 value with
          | Some n => (set_ed_grid_size st n, Ok)
          | None => (st, Rejected)
          end
      | ETimelineZoom =>
          match pn_f64 value with
          | Some x => (set_ed_timeline_zoom st x, Ok)
          | None => (st, Rejected)
          end
      end
  end.

(* ---------- [Metadata] (no trim_comment here) ---------- *)

Definition parse_metadata (st : MetadataState) (line : str) : MetadataState * res :=
  match kv_parse metadata_key_from_str line with
  | None => (st, Ok)
  | Some (key, value) =>
      match key with
      | MTitle => (set_m_title st value, Ok)
      | MTitleUnicode => (set_m_title_unicode st value, Ok)
      | MArtist => (set_m_artist st value, Ok)
      | MArtistUnicode => (set_m_artist_unicode st value, Ok)
      | MCreator => (set_m_creator st value, Ok)
      | MVersion => (set_m_version st value, Ok)
      | MSource => (set_m_source st value, Ok)
      | MTags => (set_m_tags st value, Ok)
      | MBeatmapID =>
          match pn_i32 value with
          | Some n => (set_m_beatmap_id st n, Ok)
          | None => (st, Rejected)
          end
      | MBeatmapSetID =>
          match pn_i32 value with
          | Some n => (set_m_beatmap_set_id st n, Ok)
          | None => (st, Rejected)
          end
      end
  end.

(* ---------- [Difficulty] ---------- *)

Definition slider_mult_lo : F64 := lit64 (fst slider_mult_clamp).
Definition slider_mult_hi : F64 := lit64 (snd slider_mult_clamp).
Definition tick_rate_lo : F64 := lit64 (fst tick_rate_clamp).
Definition tick_rate_hi : F64 := lit64 (snd tick_rate_clamp).

Definition parse_difficulty (st : DifficultyState) (line : str) : DifficultyState * res :=
  match kv_parse difficulty_key_from_str (trim_comment line) with
  | None => (st, Ok)
  | Some (key, value) =>
      match key with
      | DHPDrainRate =>
          match pn_f32 value with
          | Some x => (set_d_hp_drain_rate st x, Ok)
          | None => (st, Rejected)
          end
      | DCircleSize =>
          match pn_f32 value with
          | Some x => (set_d_circle_size st x, Ok)
          | None => (st, Rejected)
          end
      | DOverallDifficulty =>
          match pn_f32 value with
          | Some x =>
              let st1 := set_d_overall_difficulty st x in
              let st2 := if negb (d_has_approach_rate st1)
                         then set_d_approach_rate st1 (d_overall_difficulty st1)
                         else st1 in
              (st2, Ok)
          | None => (st, Rejected)
          end
      | DApproachRate =>
          match pn_f32 value with
          | Some x => (set_d_has_approach_rate (set_d_approach_rate st x) true, Ok)
          | None => (st, Rejected)
          end
      | DSliderMultiplier =>
          match pn_f64 value with
          | Some x => (set_d_slider_multiplier st (D.clamp x slider_mult_lo slider_mult_hi), Ok)
          | None => (st, Rejected)
          end
      | DSliderTickRate =>
          match pn_f64 value with
          | Some x => (set_d_slider_tick_rate st (D.clamp x tick_rate_lo tick_rate_hi), Ok)
          | None => (st, Rejected)
          end
      end
  end.

(* ---------- [Events] ---------- *)

Inductive EventType := EvBackground | EvVideo | EvBreak | EvColor | EvSprite | EvSample | EvAnimation.
Definition all_event_types : list EventType :=
  [EvBackground; EvVideo; EvBreak; EvColor; EvSprite; EvSample; EvAnimation].
(* EventType::from_str *)
Definition event_type_from_str (s : str) : option EventType :=
  obnd (assoc_str event_type_table s) (fun i => nth_error all_event_types (Z.to_nat i)).

(* [.., a, b, c] = filename.as_bytes(): the last three BYTES, lowercased with
   u8::to_ascii_lowercase, looked up in VIDEO_EXTENSIONS.
   None: fewer than three bytes. *)
Definition last3_lower (filename : str) : option (list Z) :=
  match rev (utf8 filename) with
  | c :: b :: a :: _ => Some [ascii_lower a; ascii_lower b; ascii_lower c]
  | _ => None
  end.
Definition is_video_ext (ext : list Z) : bool :=
  existsb (fun e => str_eqb (lit e) ext) video_extensions.

Definition parse_events (st : EventsState) (line : str) : EventsState * res :=
  let split0 := split_on comma (trim_comment line) in
  let '(o_type, split1) := next split0 in
  let '(o_start, split2) := next split1 in
  let '(o_params, split3) := next split2 in
  match o_type, o_start, o_params with
  | Some event_type, Some start_time, Some event_params =>
      match event_type_from_str event_type with
      | None => (st, Rejected)
      | Some EvSprite =>
          match ev_background_file st with
          | [] =>
              match fst (next split3) with
              | Some f => (set_ev_background_file st (clean_filename f), Ok)
              | None => (st, Rejected)
              end
          | _ :: _ => (st, Ok)
          end
      | Some EvVideo =>
          let filename := clean_filename event_params in
          match last3_lower filename with
          | Some ext =>
              if negb (is_video_ext ext) then (set_ev_background_file st filename, Ok)
              else (st, Ok)
          | None => (st, Ok)
          end
      | Some EvBackground => (set_ev_background_file st (clean_filename event_params), Ok)
      | Some EvBreak =>
          match pn_f64 start_time with
          | None => (st, Rejected)
          | Some s =>
              match pn_f64 event_params with
              | None => (st, Rejected)
              | Some e =>
                  (* "a break never ends before it starts": if end < start { start } else { end } *)
                  (set_ev_breaks st (ev_breaks st ++ [mkBreak s (if D.lt e s then s else e)]), Ok)
              end
          end
      | Some EvColor | Some EvSample | Some EvAnimation => (st, Ok)
      end
  | _, _, _ => (st, Rejected)
  end.

(* ---------- [Colours] ---------- *)

(* Color::from_str *)
Definition color_from_str (s : str) : option Color :=
  let split0 := map trim (split_on comma s) in
  let '(r, split1) := next split0 in
  let '(g, split2) := next split1 in
  let '(b, split3) := next split2 in
  let none := nth_error split3 1 in          (* split.nth(1) *)
  match r, g, b, none with
  | Some r, Some g, Some b, None =>
      match parse_u8_raw r with
      | None => None
      | Some r' =>
          match parse_u8_raw g with
          | None => None
          | Some g' =>
              match parse_u8_raw b with
              | None => None
              | Some b' => Some (mkColor r' g' b' color_default_alpha)
              end
          end
      end
  | _, _, _, _ => None
  end.

(* ColorsKey::from_str never fails *)
Inductive ColorsKey := CKCombo | CKName (name : str).
Definition colors_key_from_str (s : str) : option ColorsKey :=
  if starts_with (lit colors_combo_prefix) s then Some CKCombo else Some (CKName s).

(* custom_colors.iter_mut().find(|c| c.name == name): first match is updated *)
Fixpoint set_custom_color (l : list CustomColor) (name : str) (c : Color) : option (list CustomColor) :=
  match l with
  | [] => None
  | x :: r =>
      if str_eqb (cc_name x) name then Some (mkCustomColor (cc_name x) c :: r)
      else omap (cons x) (set_custom_color r name c)
  end.

Definition parse_colors (st : ColorsState) (line : str) : ColorsState * res :=
  match kv_parse colors_key_from_str (trim_comment line) with
  | None => (st, Ok)
  | Some (key, value) =>
      match color_from_str value with
      | None => (st, Rejected)
      | Some color =>
          match key with
          | CKCombo =>
              (set_co_custom_combo_colors st (co_custom_combo_colors st ++ [color]), Ok)
          | CKName name =>
              match set_custom_color (co_custom_colors st) name color with
              | Some l => (set_co_custom_colors st l, Ok)
              | None => (set_co_custom_colors st (co_custom_colors st ++ [mkCustomColor name color]), Ok)
              end
          end
      end
  end.

(* ---------- running a section over lines ---------- *)

Definition run_lines {S : Type} (parse : S -> str -> S * res) (st : S) (lines : list str) : S :=
  fold_left (fun s l => fst (parse s l)) lines st.

(* ---------- dumps for the correspondence check ---------- *)

Definition dump_general (s : GeneralState) : list Z :=
  dump_str (g_audio_file s) ++
  [D.bits (g_audio_lead_in s); g_preview_time s; g_default_sample_bank s;
   g_default_sample_volume s; S.bits (g_stack_leniency s); g_mode s] ++
  dump_bool (g_letterbox_in_breaks s) ++ dump_bool (g_special_style s) ++
  dump_bool (g_widescreen_storyboard s) ++ dump_bool (g_epilepsy_warning s) ++
  dump_bool (g_samples_match_playback_rate s) ++
  [g_countdown s; g_countdown_offset s].

Definition dump_editor (s : EditorState) : list Z :=
  dump_seq (fun n => [n]) (ed_bookmarks s) ++
  [D.bits (ed_distance_spacing s); ed_beat_divisor s; ed_grid_size s; D.bits (ed_timeline_zoom s)].

Definition dump_metadata (s : MetadataState) : list Z :=
  dump_str (m_title s) ++ dump_str (m_title_unicode s) ++ dump_str (m_artist s) ++
  dump_str (m_artist_unicode s) ++ dump_str (m_creator s) ++ dump_str (m_version s) ++
  dump_str (m_source s) ++ dump_str (m_tags s) ++ [m_beatmap_id s; m_beatmap_set_id s].

Definition dump_difficulty (s : DifficultyState) : list Z :=
  dump_bool (d_has_approach_rate s) ++
  [S.bits (d_hp_drain_rate s); S.bits (d_circle_size s); S.bits (d_overall_difficulty s);
   S.bits (d_approach_rate s); D.bits (d_slider_multiplier s); D.bits (d_slider_tick_rate s)].

Definition dump_break (b : BreakPeriod) : list Z := [D.bits (bp_start b); D.bits (bp_end b)].
Definition dump_events (s : EventsState) : list Z :=
  dump_str (ev_background_file s) ++ dump_seq dump_break (ev_breaks s).

Definition dump_color (c : Color) : list Z := [c_r c; c_g c; c_b c; c_a c].
Definition dump_custom_color (c : CustomColor) : list Z := dump_str (cc_name c) ++ dump_color (cc_color c).
Definition dump_colors (s : ColorsState) : list Z :=
  dump_seq dump_color (co_custom_combo_colors s) ++ dump_seq dump_custom_color (co_custom_colors s).

(* SectionsSpec: the declarative, table-driven reading of property C11,
   written from the property text (not from the code):

     key/value sections   key |-> (conversion, field)
       - the record is cut at the FIRST colon; key and value are trimmed
       - numbers must parse and lie within +-(2^31-1)   (ParseNumber, Model/Num.v)
       - a flag is true only for the value 1
       - slider multiplier is clamped to [0.4, 3.6], tick rate to [0.5, 8]
       - approach rate follows overall difficulty until it is set itself
       - unknown key: nothing happens; invalid value: the record is rejected
         and nothing happens
     events               event type |-> action
       - background / video-with-image-extension / first sprite fill the
         background; a break never ends before it starts
     colours              R,G,B with optional ignored alpha; "Combo*" keys
                          append, every other key names a custom colour

   The literal keys, bounds and tables below are the ones the property names;
   Properties/C11.v pins each of them against Gen.Generated.  Definitions only. *)
From RM Require Import Model.Sections.
From RM Require Import Gen.Generated.

(* ---------- records ---------- *)

(* text before / after the first occurrence of [d] *)
Fixpoint split_first (d : char) (s : str) : str * option str :=
  match s with
  | [] => ([], None)
  | c :: r =>
      if c =? d then ([], Some r)
      else let '(a, b) := split_first d r in (c :: a, b)
  end.

(* "the value is the trimmed text after the first colon" (a record without a
   colon has the empty value) *)
Definition record_of (s : str) : str * str :=
  let '(k, v) := split_first colon s in (trim k, trim (odflt [] v)).

(* ---------- conversions ---------- *)

Definition conv (V : Type) : Type := str -> option V.

Definition c_text : conv str := fun v => Some v.
Definition c_path : conv str := fun v => Some (to_standardized_path v).
Definition c_i32 : conv Z := pn_i32.
Definition c_i32_as_f64 : conv F64 := fun v => omap D.of_Z (pn_i32 v).
Definition c_f32 : conv F32 := pn_f32.
Definition c_f64 : conv F64 := pn_f64.
Definition c_flag : conv bool := fun v => omap (fun n => n =? 1) (pn_i32 v).
Definition c_table (t : list (string * Z)) : conv Z := assoc_str t.
Definition c_clamped (lo hi : F64) : conv F64 := fun v => omap (fun x => D.clamp x lo hi) (pn_f64 v).
(* every element that is a number (as every number of the format: trimmed, within
   +-(2^31-1)); the others are skipped *)
Definition c_int_list : conv (list Z) := fun v => Some (filter_map c_i32 (split_on comma v)).

Definition sample_bank_names : list (string * Z) :=
  [("0", 0); ("None", 0); ("1", 1); ("Normal", 1); ("2", 2); ("Soft", 2); ("3", 3); ("Drum", 3)]%string.
Definition game_mode_names : list (string * Z) := [("0", 0); ("1", 1); ("2", 2); ("3", 3)]%string.
Definition countdown_names : list (string * Z) :=
  [("0", 0); ("None", 0); ("1", 1); ("Normal", 1); ("2", 2); ("Half speed", 2);
   ("3", 3); ("Double speed", 3)]%string.

(* ---------- tables ---------- *)

Record row (S : Type) : Type := mkRow {
  r_key : string;
  r_upd : str -> S -> option S      (* None: invalid value *)
}.
Arguments mkRow {S} _ _.
Arguments r_key {S} _.
Arguments r_upd {S} _ _ _.

(* key |-> conversion, field *)
Definition field {S V : Type} (key : string) (c : conv V) (set : S -> V -> S) : row S :=
  mkRow key (fun v st => omap (set st) (c v)).

Fixpoint find_row {S : Type} (tbl : list (row S)) (k : str) : option (row S) :=
  match tbl with
  | [] => None
  | r :: t => if str_eqb (lit (r_key r)) k then Some r else find_row t k
  end.

(* one record against a table; [split] is the way a line is cut into key and
   value, [strip] says whether a trailing comment is removed first *)
Definition spec_kv {S : Type} (split : str -> str * str) (tbl : list (row S)) (strip : bool)
           (st : S) (line : str) : S * res :=
  let '(k, v) := split (if strip then trim_comment line else line) in
  match find_row tbl k with
  | None => (st, Ok)
  | Some r =>
      match r_upd r v st with
      | Some st' => (st', Ok)
      | None => (st, Rejected)
      end
  end.

Local Open Scope string_scope.
Local Open Scope list_scope.
Local Open Scope Z_scope.

Definition general_table : list (row GeneralState) :=
  [ field "AudioFilename" c_path set_g_audio_file;
    field "AudioLeadIn" c_i32_as_f64 set_g_audio_lead_in;
    field "PreviewTime" c_i32 set_g_preview_time;
    field "SampleSet" (c_table sample_bank_names) set_g_default_sample_bank;
    field "SampleVolume" c_i32 set_g_default_sample_volume;
    field "StackLeniency" c_f32 set_g_stack_leniency;
    field "Mode" (c_table game_mode_names) set_g_mode;
    field "LetterboxInBreaks" c_flag set_g_letterbox_in_breaks;
    field "SpecialStyle" c_flag set_g_special_style;
    field "WidescreenStoryboard" c_flag set_g_widescreen_storyboard;
    field "EpilepsyWarning" c_flag set_g_epilepsy_warning;
    field "SamplesMatchPlaybackRate" c_flag set_g_samples_match_playback_rate;
    field "Countdown" (c_table countdown_names) set_g_countdown;
    field "CountdownOffset" c_i32 set_g_countdown_offset ].

Definition editor_table : list (row EditorState) :=
  [ field "Bookmarks" c_int_list set_ed_bookmarks;
    field "DistanceSpacing" c_f64 set_ed_distance_spacing;
    field "BeatDivisor" c_i32 set_ed_beat_divisor;
    field "GridSize" c_i32 set_ed_grid_size;
    field "TimelineZoom" c_f64 set_ed_timeline_zoom ].

Definition metadata_table : list (row MetadataState) :=
  [ field "Title" c_text set_m_title;
    field "TitleUnicode" c_text set_m_title_unicode;
    field "Artist" c_text set_m_artist;
    field "ArtistUnicode" c_text set_m_artist_unicode;
    field "Creator" c_text set_m_creator;
    field "Version" c_text set_m_version;
    field "Source" c_text set_m_source;
    field "Tags" c_text set_m_tags;
    field "BeatmapID" c_i32 set_m_beatmap_id;
    field "BeatmapSetID" c_i32 set_m_beatmap_set_id ].

(* the clamp bounds the property names, as correctly rounded f64 literals *)
Definition sm_lo : F64 := lit64 (false, 4, -1).      (* 0.4 *)
Definition sm_hi : F64 := lit64 (false, 36, -1).     (* 3.6 *)
Definition tr_lo : F64 := lit64 (false, 5, -1).      (* 0.5 *)
Definition tr_hi : F64 := lit64 (false, 80, -1).     (* 8.0 *)

(* approach rate follows overall difficulty until it is set itself *)
Definition set_od_and_following_ar (st : DifficultyState) (x : F32) : DifficultyState :=
  if d_has_approach_rate st then set_d_overall_difficulty st x
  else set_d_approach_rate (set_d_overall_difficulty st x) x.
Definition set_own_ar (st : DifficultyState) (x : F32) : DifficultyState :=
  set_d_has_approach_rate (set_d_approach_rate st x) true.

Definition difficulty_table : list (row DifficultyState) :=
  [ field "HPDrainRate" c_f32 set_d_hp_drain_rate;
    field "CircleSize" c_f32 set_d_circle_size;
    field "OverallDifficulty" c_f32 set_od_and_following_ar;
    field "ApproachRate" c_f32 set_own_ar;
    field "SliderMultiplier" (c_clamped sm_lo sm_hi) set_d_slider_multiplier;
    field "SliderTickRate" (c_clamped tr_lo tr_hi) set_d_slider_tick_rate ].

(* the four key/value sections; [split] is left open so that the code's way
   of cutting a record (KeyValue.kv_pieces) and the property's (record_of)
   can be compared on the same tables *)
Definition spec_general_with split := spec_kv split general_table true.
Definition spec_editor_with split := spec_kv split editor_table true.
Definition spec_metadata_with split := spec_kv split metadata_table false.
Definition spec_difficulty_with split := spec_kv split difficulty_table true.

Definition spec_general := spec_general_with record_of.
Definition spec_editor := spec_editor_with record_of.
Definition spec_metadata := spec_metadata_with record_of.
Definition spec_difficulty := spec_difficulty_with record_of.

(* ---------- events ---------- *)

Definition event_type_names : list (string * Z) :=
  [("0", 0); ("Background", 0); ("1", 1); ("Video", 1); ("2", 2); ("Break", 2);
   ("3", 3); ("Colour", 3); ("4", 4); ("Sprite", 4); ("5", 5); ("Sample", 5);
   ("6", 6); ("Animation", 6)].

Definition video_extension_names : list string := ["mp4"; "mov"; "avi"; "flv"; "mpg"; "wmv"; "m4v"].

(* "video with image extension": the file name has at least three bytes and
   its last three bytes, lower-cased, are not a video extension *)
Definition has_image_extension (filename : str) : bool :=
  match last3_lower filename with
  | Some ext => negb (existsb (fun e => str_eqb (lit e) ext) video_extension_names)
  | None => false
  end.

Definition event_action : Type := str -> str -> list str -> EventsState -> EventsState * res.

Definition act_background : event_action :=
  fun _ params _ st => (set_ev_background_file st (clean_filename params), Ok).
Definition act_video : event_action :=
  fun _ params _ st =>
    let f := clean_filename params in
    if has_image_extension f then (set_ev_background_file st f, Ok) else (st, Ok).
Definition act_break : event_action :=
  fun start params _ st =>
    match pn_f64 start, pn_f64 params with
    | Some s, Some e => (set_ev_breaks st (ev_breaks st ++ [mkBreak s (if D.lt e s then s else e)]), Ok)
    | _, _ => (st, Rejected)
    end.
Definition act_sprite : event_action :=
  fun _ _ more st =>
    match ev_background_file st with
    | [] => match more with
            | f :: _ => (set_ev_background_file st (clean_filename f), Ok)
            | [] => (st, Rejected)
            end
    | _ :: _ => (st, Ok)
    end.
Definition act_none : event_action := fun _ _ _ st => (st, Ok).

(* indexed by the event type number *)
Definition event_actions : list (string * event_action) :=
  [ ("Background", act_background); ("Video", act_video); ("Break", act_break);
    ("Color", act_none); ("Sprite", act_sprite); ("Sample", act_none); ("Animation", act_none) ].

Definition spec_events (st : EventsState) (line : str) : EventsState * res :=
  match split_on comma (trim_comment line) with
  | ty :: start :: params :: more =>
      match assoc_str event_type_names ty with
      | Some i =>
          match nth_error event_actions (Z.to_nat i) with
          | Some (_, act) => act start params more st
          | None => (st, Rejected)
          end
      | None => (st, Rejected)
      end
  | _ => (st, Rejected)
  end.

(* ---------- colours ---------- *)

(* R,G,B with optional ignored alpha *)
Definition spec_color (v : str) : option Color :=
  match map trim (split_on comma v) with
  | [r; g; b] | [r; g; b; _] =>
      match parse_u8_raw r, parse_u8_raw g, parse_u8_raw b with
      | Some r', Some g', Some b' => Some (mkColor r' g' b' 255)
      | _, _, _ => None
      end
  | _ => None
  end.

(* a named colour replaces the first colour of that name, or is appended *)
Fixpoint upsert_color (l : list CustomColor) (name : str) (c : Color) : list CustomColor :=
  match l with
  | [] => [mkCustomColor name c]
  | x :: r =>
      if str_eqb (cc_name x) name then mkCustomColor (cc_name x) c :: r
      else x :: upsert_color r name c
  end.

Definition spec_colors_with (split : str -> str * str) (st : ColorsState) (line : str) : ColorsState * res :=
  let '(k, v) := split (trim_comment line) in
  match spec_color v with
  | None => (st, Rejected)
  | Some c =>
      if starts_with (lit "Combo") k
      then (set_co_custom_combo_colors st (co_custom_combo_colors st ++ [c]), Ok)
      else (set_co_custom_colors st (upsert_color (co_custom_colors st) k c), Ok)
  end.
Definition spec_colors := spec_colors_with record_of.

(* CurveDist: the slider-curve distance used by map-level processing and the
   encoder, obtained from the curve model.  The pure curve (L1) is used; it
   equals the buffer-reusing computation of the code (L0) by C18 (T18a). *)
From RM Require Model.Curve.
From RM Require Import Model.Prelude Model.Floats Model.PathString.
Open Scope Z_scope.

Definition conv_pos (p : Pos) : Curve.Pos := Curve.mkPos (px p) (py p).
(* SplineType index: 0 Catmull, 1 BSpline, 2 Linear, 3 PerfectCurve *)
Definition conv_kind (k : Z) : Curve.SplineType :=
  if k =? 0 then Curve.Catmull else if k =? 1 then Curve.BSpline
  else if k =? 2 then Curve.Linear else Curve.PerfectCurve.
Definition conv_pcp (p : PCP) : Curve.PathControlPoint :=
  Curve.mkPCP (conv_pos (cp_pos p))
              (match cp_type p with Some t => Some (conv_kind (pt_kind t)) | None => None end).

Definition curve_of (lm : Curve.Libm) (mode : Z) (cps : list PCP) (e : option F64) : outcome Curve.Curve :=
  Curve.curve_L1 lm Curve.bezier_fuel mode (map conv_pcp cps) e.

Definition dist_of_curve (lm : Curve.Libm) (mode : Z) (cps : list PCP) (e : option F64) : outcome F64 :=
  obind (curve_of lm mode cps e) (fun c => Done (Curve.dist (Curve.c_lengths c))).

(* DrvIO: decoding of correspondence cases for C08 / C09 / C10 (glue, not
   verified).  Every entry has type list Z -> list Z. *)
From RM Require Import Model.Text Model.Encoding Model.Reader.

(* reader schedule: n > 0 = Chunk n, 0 = Interrupted, -k = Fail (kind k) *)
Definition ev_of_code (z : Z) : ev :=
  match z with
  | Zpos p => Chunk p
  | Z0 => Interrupted
  | Zneg p => Fail (kind_of_code (Zpos p))
  end.

(* writer schedule: n > 0 = WAccept n, 0 = WInterrupted, -7 = WZero, -k = WFail k *)
Definition wev_of_code (z : Z) : wev :=
  match z with
  | Zpos p => WAccept p
  | Z0 => WInterrupted
  | Zneg p => if (Zpos p =? 7) then WZero else WFail (kind_of_code (Zpos p))
  end.

Definition split_n (n : Z) (l : list Z) : list Z * list Z :=
  (firstn (Z.to_nat n) l, skipn (Z.to_nat n) l).

(* c10d: enc, bytes -> Encoding::decode *)
Definition run_c10d (inp : list Z) : list Z :=
  match inp with
  | e :: b => dump_ostr (decode (enc_of_index e) b)
  | [] => [98]
  end.

(* c10b: bytes -> Encoding::from_bom *)
Definition run_c10b (inp : list Z) : list Z :=
  let '(e, n) := from_bom inp in [enc_index e; Z.of_nat n].

(* c10v: bytes -> std::str::from_utf8 error *)
Definition run_c10v (inp : list Z) : list Z := dump_utf8_error (from_utf8 inp).

(* c10u: code units -> char::decode_utf16 with U+FFFD *)
Definition run_c10u (inp : list Z) : list Z := dump_str (decode_utf16 inp).

(* c10s: bytes -> lossy_spec (the declarative automaton), for cross-checking
   with String::from_utf8_lossy *)
Definition run_c10s (inp : list Z) : list Z := dump_str (lossy_spec inp).

(* c10x: prefix bytes -> digest over all 256 continuations of the prefix of
   (from_utf8 error, decoded text) -- the exhaustive sweep of short strings *)
Definition mix (h v : Z) : Z := (h * 1000003 + v + 1) mod 2305843009213693951.
Fixpoint sweep_last (n : nat) (b : Z) (pre : list Z) (h : Z) : Z :=
  match n with
  | O => h
  | S m =>
      let v := pre ++ [b] in
      let h1 := fold_left mix (dump_utf8_error (from_utf8 v)) h in
      let h2 := fold_left mix (dump_ostr (decode Utf8 v)) h1 in
      sweep_last m (b + 1) pre h2
  end.
Definition run_c10x (inp : list Z) : list Z := [sweep_last 256 0 inp 0].

(* c08 (also C09 read side, C10 lines): nsched, events, bytes ->
   all lines or the error *)
Definition run_c08 (inp : list Z) : list Z :=
  match inp with
  | n :: r =>
      let '(evs, b) := split_n n r in
      dump_io dump_lines (read_all_lines (mk_reader b (map ev_of_code evs)))
  | [] => [98]
  end.

(* c08p: bytes -> decode_stream (the schedule-free reference) *)
Definition run_c08p (inp : list Z) : list Z := dump_io dump_lines (decode_stream inp).

(* c09w: flush code (0 = Ok, k = error kind), nsched, events,
   (len, bytes)* -> outcome, bytes accepted, write calls, events left *)
Fixpoint chunks_of (fuel : nat) (l : list Z) : list bytes :=
  match fuel with
  | O => []
  | S f =>
      match l with
      | [] => []
      | n :: r => let '(c, r') := split_n n r in c :: chunks_of f r'
      end
  end.

Definition run_c09w (inp : list Z) : list Z :=
  match inp with
  | fl :: n :: r =>
      let '(evs, r1) := split_n n r in
      let ws := chunks_of (length r1) r1 in
      let w := mkWriter (map wev_of_code evs) (if fl =? 0 then None else Some (kind_of_code fl)) [] O in
      let '(res, w') := encode_writes ws w in
      dump_io (fun _ => []) res ++
      [Z.of_nat (length (accepted_rev w')); Z.of_nat (calls w'); Z.of_nat (length (wsched w'))]
  | _ => [98]
  end.

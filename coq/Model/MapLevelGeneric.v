(* MapLevelGeneric: the parts of `From<HitObjectsState> for HitObjects`
   (section/hit_objects/decode.rs) that do not depend on the concrete
   hit-object type: the stable sort by start time, the break post-processing
   loop, and the slider velocity formula. *)
From RM Require Export Model.Floats Model.Sections.
From RM Require Import Gen.Generated.

(* ---------- std: slice::sort_by is a stable sort ---------- *)
(* Modelled by the insertion sort that places an element before the first
   element that does not compare Less-or-Equal... i.e. the stable one. *)
Section Sort.
  Context {O : Type} (key : O -> Z).

  Fixpoint sinsert (x : O) (l : list O) : list O :=
    match l with
    | [] => [x]
    | y :: r => if key x <=? key y then x :: y :: r else y :: sinsert x r
    end.

  Fixpoint ssort (l : list O) : list O :=
    match l with
    | [] => []
    | x :: r => sinsert x (ssort r)
    end.
End Sort.

(* ---------- HitObjectsState::post_process_breaks ---------- *)

Section Breaks.
  Context {O : Type} (start : O -> F64) (force : O -> bool -> O).
  (* [force h b]: h.new_combo |= b  (no effect on hold notes) *)

  (* the inner `while`: drop breaks whose end is before the object's start *)
  Fixpoint skip_breaks (bs : list BreakPeriod) (t : F64) (forced : bool) : list BreakPeriod * bool :=
    match bs with
    | b :: r => if D.lt (bp_end b) t then skip_breaks r t true else (bs, forced)
    | [] => ([], forced)
    end.

  Fixpoint post_process_breaks (bs : list BreakPeriod) (objs : list O) : list O :=
    match objs with
    | [] => []
    | h :: r =>
        let '(bs', f) := skip_breaks bs (start h) false in
        force h f :: post_process_breaks bs' r
    end.
End Breaks.

(* ---------- get_precision_adjusted_beat_len and slider velocity ---------- *)

Definition dec64' (d : bool * Z * Z) : F64 := let '(s, m, e) := d in D.of_decimal s m e.
Definition dec32' (d : bool * Z * Z) : F32 := let '(s, m, e) := d in S.of_decimal s m e.

Definition f64_100 : F64 := D.of_Z 100.

(* mode: 0 osu, 1 taiko, 2 catch, 3 mania *)
Definition precision_adjusted_beat_len (slider_velocity beat_len : F64) (mode : Z) : F64 :=
  let sv_as_bl := D.div (D.neg f64_100) slider_velocity in
  let mult :=
    if D.lt sv_as_bl D.zero then
      let '(lo, hi, dv) := if (mode =? 1) || (mode =? 3) then bpm_clamp_tm else bpm_clamp_std in
      D.div (D.clamp (D.neg sv_as_bl) (dec64' lo) (dec64' hi)) (dec64' dv)
    else D.one in
  D.mul beat_len mult.

(* slider.velocity = f64::from(BASE_SCORING_DIST) * slider_multiplier / adjusted *)
Definition slider_velocity_of (slider_multiplier slider_velocity beat_len : F64) (mode : Z) : F64 :=
  D.div (D.mul (f64_of_f32 (dec32' base_scoring_dist_dec)) slider_multiplier)
        (precision_adjusted_beat_len slider_velocity beat_len mode).

(* EncObjCarry: vocabulary of C02 / T02b -- what a hit-object line of a circle, a
   spinner or a hold carries, written from the property text:

     "... the same hit objects (count, start times, kinds, positions, combo flags
      and offsets, ..., spinner/hold durations, ..., sample names and banks).
      Only what the legacy text format cannot carry is excluded: ... per-sample
      volume / custom-bank index / suffix / layering flag ..."

     - [carry_sample] erases exactly the four excluded per-sample fields;
     - [carry_object]: start time, kind, position, duration, combo flag / offset and
       the carried sample list.  A spinner has no position in the format (the
       decoder puts every spinner at [spinner_pos], so on decoded maps this is
       the identity); a hold has only x (the record has no other coordinate);
     - [samples_shape] / [samples_image]: the sample lists the decoder can
       produce (boolean), i.e. the lists on which names and banks survive;
     - [reread_object]: EXACTLY what the decoder reads from the line the encoder
       writes (no erasure), as a function of the parser state and the object.
   Definitions only. *)
From RM Require Export Model.EncSpec.
From RM Require Import Gen.Generated.
Open Scope Z_scope.

(* ---------- carry ---------- *)

(* volume, custom-bank index, suffix, layering flag are not carried;
   name, bank (and the "bank was given" flag) are *)
Definition carry_sample (s : HitSampleInfo) : HitSampleInfo :=
  mkHS (hs_name s) (hs_bank s) None 0 0 (hs_bank_specified s) false.
Definition carry_samples (l : list HitSampleInfo) : list HitSampleInfo := map carry_sample l.

Definition carry_kind (k : HitObjectKind) : HitObjectKind :=
  match k with
  | KSpinner s => KSpinner (mkSpinner spinner_pos (sp_duration s) (sp_new_combo s))
  | _ => k
  end.

Definition carry_object (h : HitObject) : HitObject :=
  mkHObj (h_start h) (carry_kind (h_kind h)) (carry_samples (h_samples h)).

(* ---------- the shape of a decoded sample list ---------- *)

(* the banks a decoded sample can have: Normal, Soft, Drum (never None) *)
Definition bank13 (b : Z) : bool := (1 <=? b) && (b <=? 3).

(* the addition names, in the order in which convert_sound_type pushes them *)
Definition addition_names : list Z := [nm_finish; nm_whistle; nm_clap].

Definition is_named (n : Z) (s : HitSampleInfo) : bool :=
  match hs_name s with NDefault k => k =? n | NFile _ => false end.

(* [l] is a sub-sequence of the samples named [table] (in that order), every one with bank [ab] *)
Fixpoint adds_shape (table : list Z) (ab : Z) (l : list HitSampleInfo) {struct table} : bool :=
  match table with
  | [] => match l with [] => true | _ => false end
  | n :: t =>
      match l with
      | [] => true
      | s :: r => if is_named n s then (hs_bank s =? ab) && adds_shape t ab r else adds_shape t ab l
      end
  end.

(* the primary sample: a non-empty file name (always in the Normal bank), or the
   normal sample with a real bank *)
Definition head_shape (s : HitSampleInfo) : bool :=
  match hs_name s with
  | NFile (_ :: _) => hs_bank s =? sb_normal
  | NFile [] => false
  | NDefault n => (n =? nm_normal) && bank13 (hs_bank s)
  end.

(* primary sample first, then finish / whistle / clap in table order, all additions in ONE real bank *)
Definition samples_shape (l : list HitSampleInfo) : bool :=
  match l with
  | [] => false
  | h :: r =>
      head_shape h &&
      match r with
      | [] => true
      | a :: _ => bank13 (hs_bank a) && adds_shape addition_names (hs_bank a) r
      end
  end.

(* after SamplePoint::apply (which every decoded object has gone through) the flag "bank
   was given" is a function of the name: set on the four default names, clear on a file *)
Definition specified_ok (l : list HitSampleInfo) : bool :=
  forallb (fun s => Bool.eqb (hs_bank_specified s) (is_default_name s)) l.
Definition specify (s : HitSampleInfo) : HitSampleInfo :=
  mkHS (hs_name s) (hs_bank s) (hs_suffix s) (hs_volume s) (hs_custom s) (is_default_name s) (hs_layered s).

(* the sample lists of decoded maps *)
Definition samples_image (l : list HitSampleInfo) : bool := samples_shape l && specified_ok l.

(* what read_custom_sample_banks can leave in a SampleBankInfo: no bank, or a real bank *)
Definition opt_bank13 (o : option Z) : bool := match o with None => true | Some b => bank13 b end.
Definition bank_info_ok (b : SampleBankInfo) : bool := opt_bank13 (sbi_normal b) && opt_bank13 (sbi_addition b).

(* ---------- what the decoder reads from the encoder's line, exactly ---------- *)

(* [(bank != SampleBank::None).then_some(bank)] of [i32.try_into().unwrap_or(Normal)] *)
Definition opt_bank (n : Z) : option Z :=
  let b := bank_of_i32 n in if b =? sb_none then None else Some b.

(* the SampleBankInfo read from "normal:addition:custom:volume:file" as written by get_sample_bank *)
Definition reread_info (mode : Z) (l : list HitSampleInfo) : SampleBankInfo :=
  let nb := opt_bank (bank_of_first is_hit_normal l) in
  mkSBI (Some (match first_file l with Some f => f | None => [] end))
        nb
        (match opt_bank (bank_of_first is_addition l) with Some a => Some a | None => nb end)
        (Z.max 0 (if mode =? mode_mania then match l with s :: _ => hs_volume s | [] => 100 end else 0))
        (if mode =? mode_mania then match find is_default_name l with Some s => hs_custom s | None => 0 end else 0).

Definition reread_samples (mode : Z) (l : list HitSampleInfo) : list HitSampleInfo :=
  convert_sound_type (reread_info mode l) (sound_type_of l).

(* a circle's new-combo flag is re-derived from the parser state (first object / after a
   spinner), its combo offset only survives next to the new-combo bit; the end time is
   written as start + duration and read back by subtraction *)
Definition reread_kind (st : HOState) (start : F64) (k : HitObjectKind) : HitObjectKind :=
  match k with
  | KCircle c =>
      KCircle (mkCircle (ci_pos c) (forced_new_combo st (ci_new_combo c))
                        (if ci_new_combo c then ci_combo_offset c else 0))
  | KSpinner s =>
      KSpinner (mkSpinner spinner_pos (f64_max_lit (D.sub (D.add start (sp_duration s)) start) D.zero)
                          (sp_new_combo s))
  | KHold hd =>
      KHold (mkHold (hd_pos_x hd) (D.sub (D.max start (D.add start (hd_duration hd))) start))
  | KSlider s => KSlider s                          (* not treated here *)
  end.

Definition reread_object (st : HOState) (mode : Z) (h : HitObject) : HitObject :=
  mkHObj (h_start h) (reread_kind st (h_start h) (h_kind h)) (reread_samples mode (h_samples h)).

(* the type the parser remembers of an accepted line *)
Definition kept_type_of (k : HitObjectKind) : Z :=
  match k with
  | KCircle _ => hot_circle | KSlider _ => hot_slider | KSpinner _ => hot_spinner | KHold _ => hot_hold
  end.

(* the parser state after an accepted circle / spinner / hold line *)
Definition push (st : HOState) (o : HitObject) : HOState :=
  mkHO (Some (kept_type_of (h_kind o))) (ho_curve st) (ho_vertices st) (ho_objects st ++ [o]) (ho_mode st).

(* ---------- side conditions ---------- *)

(* the state does not force a new combo on a circle that has none, and an offset is only
   present next to the new-combo flag (the second half holds of every decoded circle) *)
Definition circle_image (c : Circle) : bool := ci_new_combo c || (ci_combo_offset c =? 0).
Definition combo_kept (st : HOState) (c : Circle) : bool :=
  (ci_new_combo c || negb (first_object st || last_object_was_spinner st)) && circle_image c.

(* the two float operations of the round trip reproduce the duration *)
Definition spinner_time_ok (start d : F64) : Prop :=
  f64_max_lit (D.sub (D.add start d) start) D.zero = d.
Definition hold_time_ok (start d : F64) : Prop :=
  D.sub (D.max start (D.add start d)) start = d.

(* the decoder-image side conditions of one object, as far as they are invariants of
   parse_hit_objects (the sample clause is [samples_shape]; [specified_ok] is added by
   SamplePoint::apply, see [samples_image]) *)
Definition kind_image (k : HitObjectKind) : bool :=
  match k with
  | KCircle c => circle_image c
  | KSpinner s => f32_eqb (px (sp_pos s)) (px spinner_pos) && f32_eqb (py (sp_pos s)) (py spinner_pos)
  | _ => true
  end.
Definition line_image (h : HitObject) : bool := kind_image (h_kind h) && samples_shape (h_samples h).

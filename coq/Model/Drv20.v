(* Drv20: decoding of correspondence cases for C20 (glue, not verified).

   A case is a *history* over ONE shared tick buffer:
     0 start dur vel tick_dist total_dist span_count   New (floats as f64 bits)
     1 k                                               Next: pull k events
     2                                                 Drain: pull until None
     3 k                                               Junk: drop the iterator, push k junk events
   Output: per New [0] or [1; why] (panic); per pulled event 1 :: dump, per
   None [0]; [2] and stop when the model runs out of fuel; finally the length
   of the shared buffer.  The harness is built in release mode, hence
   [chk = false] (wrapping i32 arithmetic). *)
From RM Require Import Model.SliderEvents.

Definition drv_fuel : nat := Z.to_nat 1000000.
Definition drv_chk : bool := false.

Definition junk_ev (i : nat) : event F64 :=
  mkEv KTick (Z.of_nat i) (D.of_Z 7) (D.of_Z (Z.of_nat i)) (D.of_Z 1).

(* the buffer as the caller sees it between iterators *)
Definition cur_buf (cur : option (iter F64)) (buf : list (event F64)) : list (event F64) :=
  match cur with Some it => it_ticks it | None => buf end.

(* pull up to [k] events; [all = true]: stop at the first None *)
(* [acc] is kept reversed; [emit l acc] appends l *)
Definition emit (l acc : list Z) : list Z := rev_append l acc.

Fixpoint pull (k : nat) (all : bool) (it : iter F64) (acc : list Z) : iter F64 * list Z * bool :=
  match k with
  | O => (it, acc, true)
  | S k' =>
      match iter_next ops64 drv_chk drv_fuel drv_fuel it with
      | Done (Some e, it') => pull k' all it' (emit (1 :: dump_ev e) acc)
      | Done (None, it') => if all then (it', emit [0] acc, true) else pull k' all it' (emit [0] acc)
      | Panic w => (it, emit [1; w] acc, false)
      | OutOfFuel => (it, emit [2] acc, false)
      end
  end.

Fixpoint run_c20_aux (fuel : nat) (cur : option (iter F64)) (buf : list (event F64))
         (inp : list Z) (acc : list Z) : list Z :=
  match fuel with
  | O => emit [99] acc
  | S f =>
      match inp with
      | [] => emit [Z.of_nat (length (cur_buf cur buf))] acc
      | 0 :: st :: du :: ve :: td :: to :: n :: r =>
          let b := cur_buf cur buf in
          match iter_new ops64 (mkP (D.of_bits st) (D.of_bits du) (D.of_bits ve)
                                    (D.of_bits td) (D.of_bits to) n) b with
          | Done it => run_c20_aux f (Some it) [] r (emit [0] acc)
          | Panic w => run_c20_aux f None b r (emit [1; w] acc)
          | OutOfFuel => emit [2] acc
          end
      | 1 :: k :: r =>
          match cur with
          | Some it =>
              let '(it', acc', ok) := pull (Z.to_nat k) false it acc in
              if ok then run_c20_aux f (Some it') buf r acc' else acc'
          | None => run_c20_aux f cur buf r (emit [97] acc)
          end
      | 2 :: r =>
          match cur with
          | Some it =>
              let '(it', acc', ok) := pull drv_fuel true it acc in
              if ok then run_c20_aux f (Some it') buf r acc' else acc'
          | None => run_c20_aux f cur buf r (emit [97] acc)
          end
      | 3 :: k :: r =>
          let b := cur_buf cur buf in
          run_c20_aux f None (rev (map junk_ev (seq 0 (Z.to_nat k))) ++ b) r acc
      | _ => emit [98] acc
      end
  end.

Definition run_c20 (inp : list Z) : list Z :=
  rev' (run_c20_aux (S (length inp)) None [] inp []).

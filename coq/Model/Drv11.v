(* Drv11: decoding of correspondence cases for C11 (glue, not verified).
   case  = section id (0 General, 1 Editor, 2 Metadata, 3 Difficulty, 4 Events,
           5 Colours), then the lines, each as <length> <code points...>
   result = number of lines, one flag per line (0 Ok / 1 Rejected), then the
           dump of the final state; the state starts from DecodeState::create. *)
From RM Require Import Model.Sections.

Fixpoint take_n {A} (n : nat) (l : list A) : list A * list A :=
  match n, l with
  | O, _ => ([], l)
  | S k, x :: r => let '(a, b) := take_n k r in (x :: a, b)
  | S k, [] => ([], [])
  end.

Fixpoint decode_lines (fuel : nat) (inp : list Z) : list str :=
  match fuel with
  | O => []
  | S k =>
      match inp with
      | [] => []
      | n :: r => let '(l, rest) := take_n (Z.to_nat n) r in l :: decode_lines k rest
      end
  end.

Fixpoint run_flags {S : Type} (parse : S -> str -> S * res) (st : S) (lines : list str)
  : S * list Z :=
  match lines with
  | [] => (st, [])
  | l :: r =>
      let '(st1, rs) := parse st l in
      let '(st2, fl) := run_flags parse st1 r in
      (st2, dump_res rs :: fl)
  end.

Definition run_section {S : Type} (parse : S -> str -> S * res) (dump : S -> list Z)
           (st : S) (lines : list str) : list Z :=
  let '(st', fl) := run_flags parse st lines in
  Z.of_nat (length lines) :: fl ++ dump st'.

Definition run_c11 (inp : list Z) : list Z :=
  match inp with
  | [] => [-1]
  | sec :: r =>
      let lines := decode_lines (S (length r)) r in
      if sec =? 0 then run_section parse_general dump_general general_default lines
      else if sec =? 1 then run_section parse_editor dump_editor editor_default lines
      else if sec =? 2 then run_section parse_metadata dump_metadata metadata_default lines
      else if sec =? 3 then run_section parse_difficulty dump_difficulty difficulty_default lines
      else if sec =? 4 then run_section parse_events dump_events events_default lines
      else if sec =? 5 then run_section parse_colors dump_colors colors_default lines
      else [-2]
  end.

(* Floats: Rust f32/f64 as Flocq IEEE-754 values (single-NaN variant).
   Every operation here is the correctly rounded IEEE operation that Rust's
   primitive performs; libm functions are NOT here (they enter as oracles). *)
From RM Require Export Model.Prelude.
From Flocq Require Import Core.
From Flocq Require Export BinarySingleNaN.
Open Scope Z_scope.

Section Generic.
  Variables prec emax : Z.
  Context (Hp : Prec_gt_0 prec) (He : Prec_lt_emax prec emax).
  Notation fl := (binary_float prec emax).

  Definition fadd (a b : fl) : fl := Bplus mode_NE a b.
  Definition fsub (a b : fl) : fl := Bminus mode_NE a b.
  Definition fmul (a b : fl) : fl := Bmult mode_NE a b.
  Definition fdiv (a b : fl) : fl := Bdiv mode_NE a b.
  Definition fsqrt (a : fl) : fl := Bsqrt mode_NE a.
  Definition fneg (a : fl) : fl := Bopp a.
  Definition fabs (a : fl) : fl := Babs a.
  Definition flt (a b : fl) : bool := Bltb a b.
  Definition fle (a b : fl) : bool := Bleb a b.
  Definition feq (a b : fl) : bool := Beqb a b.
  Definition fgt (a b : fl) : bool := Bltb b a.
  Definition fge (a b : fl) : bool := Bleb b a.
  Definition fis_nan (a : fl) : bool := is_nan a.

  Definition fzero : fl := B754_zero false.
  Definition fnan : fl := B754_nan.
  Definition finf (s : bool) : fl := B754_infinity s.

  (* integer -> float, round to nearest even (exact when representable) *)
  Definition of_Z (n : Z) : fl := binary_normalize prec emax Hp He mode_NE n 0 false.
  (* m * 2^e, rounded *)
  Definition of_ZE (m e : Z) (szero : bool) : fl :=
    binary_normalize prec emax Hp He mode_NE m e szero.

  (* f.max(g), f.min(g): Rust semantics: a NaN operand yields the other.
     For equal-comparing operands (including +0/-0) the x86-64 lowering
     returns the *second* operand for max... see Proofs/FloatFacts and the
     correspondence check; modelled as observed: *)
  Definition fmax (a b : fl) : fl :=
    if fis_nan a then b else if fis_nan b then a
    else if flt a b then b else a.
  Definition fmin (a b : fl) : fl :=
    if fis_nan a then b else if fis_nan b then a
    else if flt b a then b else a.

  (* f.clamp(lo, hi): panics unless lo <= hi *)
  Definition fclamp (x lo hi : fl) : outcome fl :=
    if fle lo hi then
      let x1 := if flt x lo then lo else x in
      let x2 := if fgt x1 hi then hi else x1 in
      Done x2
    else Panic 1.
  (* total version for call sites with literal bounds lo <= hi *)
  Definition fclamp_t (x lo hi : fl) : fl :=
    let x1 := if flt x lo then lo else x in
    if fgt x1 hi then hi else x1.

  Definition fceil (x : fl) : fl := Bnearbyint mode_UP x.

  (* [x as iN] with range [lo, hi]: truncate, saturate, NaN -> 0 *)
  Definition to_int_sat (lo hi : Z) (x : fl) : Z :=
    match x with
    | B754_nan => 0
    | B754_infinity s => if s then lo else hi
    | _ => let t := Btrunc x in if t <? lo then lo else if hi <? t then hi else t
    end.

  (* bit pattern; all NaNs collapse to the canonical quiet NaN *)
  Definition mant_bits : Z := prec - 1.
  Definition exp_bits_bias : Z := emax - 1.       (* 1023 / 127 *)
  Definition emin_ : Z := 3 - emax - prec.        (* -1074 / -149 *)

  Definition bits_of (x : fl) : Z :=
    let sgn (s : bool) := if s then 2 ^ (mant_bits + (Z.log2 emax + 1)) else 0 in
    match x with
    | B754_zero s => sgn s
    | B754_infinity s => sgn s + (2 * emax - 1) * 2 ^ mant_bits
    | B754_nan => (2 * emax - 1) * 2 ^ mant_bits + 2 ^ (mant_bits - 1)
    | B754_finite s m e _ =>
        let m := Zpos m in
        if m <? 2 ^ mant_bits then sgn s + m
        else sgn s + (e - emin_ + 1) * 2 ^ mant_bits + (m - 2 ^ mant_bits)
    end.

  Definition of_bits (b : Z) : fl :=
    let w := mant_bits + (Z.log2 emax + 1) in
    let s := Z.testbit b w in
    let r := b mod 2 ^ w in
    let ex := r / 2 ^ mant_bits in
    let fr := r mod 2 ^ mant_bits in
    if ex =? 2 * emax - 1 then (if fr =? 0 then B754_infinity s else B754_nan)
    else if ex =? 0 then
      (if fr =? 0 then B754_zero s else of_ZE (if s then - fr else fr) emin_ s)
    else of_ZE (let m := fr + 2 ^ mant_bits in if s then - m else m) (ex - 1 + emin_) s.

  (* decimal -> float, one correct rounding: value = (-1)^s * m * 10^e *)
  Definition of_decimal (s : bool) (m : Z) (e : Z) : fl :=
    if m =? 0 then B754_zero s
    else if 0 <=? e then of_ZE (if s then - (m * 10 ^ e) else m * 10 ^ e) 0 s
    else
      let '(q, e', l) := SpecFloat.SFdiv_core_binary prec emax m 0 (10 ^ (- e)) 0 in
      let sf := binary_round_aux prec emax mode_NE s q e' l in
      match bool_dec (SpecFloat.valid_binary prec emax sf) true with
      | left H => SF2B sf H
      | right _ => B754_nan
      end.
End Generic.

(* ---------- the two instances ---------- *)

Definition F64 := binary_float 53 1024.
Definition F32 := binary_float 24 128.
Lemma Hp64 : Prec_gt_0 53. Proof. reflexivity. Qed.
Lemma He64 : Prec_lt_emax 53 1024. Proof. reflexivity. Qed.
Lemma Hp32 : Prec_gt_0 24. Proof. reflexivity. Qed.
Lemma He32 : Prec_lt_emax 24 128. Proof. reflexivity. Qed.

Module D.  (* f64 *)
  Definition add : F64 -> F64 -> F64 := fadd 53 1024 Hp64 He64.
  Definition sub : F64 -> F64 -> F64 := fsub 53 1024 Hp64 He64.
  Definition mul : F64 -> F64 -> F64 := fmul 53 1024 Hp64 He64.
  Definition div : F64 -> F64 -> F64 := fdiv 53 1024 Hp64 He64.
  Definition sqrt : F64 -> F64 := fsqrt 53 1024 Hp64 He64.
  Definition neg : F64 -> F64 := fneg 53 1024.
  Definition abs : F64 -> F64 := fabs 53 1024.
  Definition lt : F64 -> F64 -> bool := flt 53 1024.
  Definition le : F64 -> F64 -> bool := fle 53 1024.
  Definition gt : F64 -> F64 -> bool := fgt 53 1024.
  Definition ge : F64 -> F64 -> bool := fge 53 1024.
  Definition eq : F64 -> F64 -> bool := feq 53 1024.
  Definition is_nan : F64 -> bool := fis_nan 53 1024.
  Definition max : F64 -> F64 -> F64 := fmax 53 1024.
  Definition min : F64 -> F64 -> F64 := fmin 53 1024.
  Definition clamp : F64 -> F64 -> F64 -> F64 := fclamp_t 53 1024.
  Definition clamp_chk : F64 -> F64 -> F64 -> outcome F64 := fclamp 53 1024.
  Definition ceil : F64 -> F64 := fceil 53 1024 He64.
  Definition of_Z : Z -> F64 := of_Z 53 1024 Hp64 He64.
  Definition of_ZE : Z -> Z -> bool -> F64 := of_ZE 53 1024 Hp64 He64.
  Definition of_bits : Z -> F64 := of_bits 53 1024 Hp64 He64.
  Definition bits : F64 -> Z := bits_of 53 1024.
  Definition of_decimal : bool -> Z -> Z -> F64 := of_decimal 53 1024 Hp64 He64.
  Definition to_int_sat : Z -> Z -> F64 -> Z := to_int_sat 53 1024.
  Definition zero : F64 := fzero 53 1024.
  Definition nan : F64 := fnan 53 1024.
  Definition inf : bool -> F64 := finf 53 1024.
  Definition one : F64 := of_Z 1.
  (* f64::EPSILON = 2^-52 *)
  Definition eps : F64 := of_ZE 1 (-52) false.
  (* f64::total_cmp as an injective key into Z *)
  Definition key (x : F64) : Z :=
    let b := bits x in if b <? 2 ^ 63 then b else 2 ^ 63 - 1 - b.
  Definition total_cmp (a b : F64) : comparison := Z.compare (key a) (key b).
End D.

Module S.  (* f32 *)
  Definition add : F32 -> F32 -> F32 := fadd 24 128 Hp32 He32.
  Definition sub : F32 -> F32 -> F32 := fsub 24 128 Hp32 He32.
  Definition mul : F32 -> F32 -> F32 := fmul 24 128 Hp32 He32.
  Definition div : F32 -> F32 -> F32 := fdiv 24 128 Hp32 He32.
  Definition sqrt : F32 -> F32 := fsqrt 24 128 Hp32 He32.
  Definition neg : F32 -> F32 := fneg 24 128.
  Definition abs : F32 -> F32 := fabs 24 128.
  Definition lt : F32 -> F32 -> bool := flt 24 128.
  Definition le : F32 -> F32 -> bool := fle 24 128.
  Definition gt : F32 -> F32 -> bool := fgt 24 128.
  Definition ge : F32 -> F32 -> bool := fge 24 128.
  Definition eq : F32 -> F32 -> bool := feq 24 128.
  Definition is_nan : F32 -> bool := fis_nan 24 128.
  Definition max : F32 -> F32 -> F32 := fmax 24 128.
  Definition min : F32 -> F32 -> F32 := fmin 24 128.
  Definition clamp : F32 -> F32 -> F32 -> F32 := fclamp_t 24 128.
  Definition of_Z : Z -> F32 := of_Z 24 128 Hp32 He32.
  Definition of_ZE : Z -> Z -> bool -> F32 := of_ZE 24 128 Hp32 He32.
  Definition of_bits : Z -> F32 := of_bits 24 128 Hp32 He32.
  Definition bits : F32 -> Z := bits_of 24 128.
  Definition of_decimal : bool -> Z -> Z -> F32 := of_decimal 24 128 Hp32 He32.
  Definition to_int_sat : Z -> Z -> F32 -> Z := to_int_sat 24 128.
  Definition zero : F32 := fzero 24 128.
  Definition nan : F32 := fnan 24 128.
  Definition inf : bool -> F32 := finf 24 128.
  Definition one : F32 := of_Z 1.
  (* f32::EPSILON = 2^-23 *)
  Definition eps : F32 := of_ZE 1 (-23) false.
End S.

(* conversions between the two widths *)
Definition f64_of_f32 (x : F32) : F64 :=
  match x with
  | B754_zero s => B754_zero s
  | B754_infinity s => B754_infinity s
  | B754_nan => B754_nan
  | B754_finite s m e _ => D.of_ZE (if s then Zneg m else Zpos m) e s
  end.
Definition f32_of_f64 (x : F64) : F32 :=
  match x with
  | B754_zero s => B754_zero s
  | B754_infinity s => B754_infinity s
  | B754_nan => B754_nan
  | B754_finite s m e _ => S.of_ZE (if s then Zneg m else Zpos m) e s
  end.

Definition i32_min : Z := - 2 ^ 31.
Definition i32_max : Z := 2 ^ 31 - 1.
Definition f64_as_i32 (x : F64) : Z := D.to_int_sat i32_min i32_max x.
Definition f32_as_i32 (x : F32) : Z := S.to_int_sat i32_min i32_max x.
Definition f64_as_usize (x : F64) : Z := D.to_int_sat 0 (2 ^ 64 - 1) x.

(* ---- appended for C14 (HitObjectLine) ----
   [x.max(LIT)] with a non-NaN literal right operand, as rustc lowers it on
   x86-64 at opt-level >= 1 ([maxsd x, LIT]: the literal comes back when the
   operands compare equal or x is NaN).  Observed on this machine: release
   [(-0.0f64).max(0.0)] = +0.0 whereas a debug build (and [D.max], which returns
   its first operand on ties) gives -0.0; Rust's documentation leaves the sign
   of zero open.  The harness links a release build, so this is the variant
   the spinner duration [(end - start).max(0.0)] is modelled with. *)
Definition f64_max_lit (a lit : F64) : F64 :=
  if D.is_nan a then lit else if D.lt lit a then a else lit.

(* KeyValue: util::KeyValue::parse, the section_keys! FromStr, the small
   from_str tables and the UTF-8 view of a string (needed where the code
   looks at bytes).  Definitions only. *)
From RM Require Export Model.Text Model.Num.
From RM Require Import Gen.Generated.

Definition colon : char := 58.
Definition comma : char := 44.

(* str::split_once(c): text before and after the FIRST occurrence of c *)
Fixpoint split_once (d : char) (s : str) : option (str * str) :=
  match s with
  | [] => None
  | c :: r =>
      if c =? d then Some ([], r)
      else match split_once d r with
           | Some (a, b) => Some (c :: a, b)
           | None => None
           end
  end.

(* KeyValue::parse:
     let (key, value) = s.split_once(':').unwrap_or((s, ""));
     key:   key.trim().parse()?       (K::from_str)
     value: value.trim()
   i.e. the line is cut at the first colon only; without a colon the whole
   line is the key and the value is empty. *)
Definition kv_pieces (s : str) : str * str :=
  let '(key, value) := odflt (s, []) (split_once colon s) in
  (trim key, trim value).

Definition kv_parse {K : Type} (from_str : str -> option K) (s : str) : option (K * str) :=
  let '(k, v) := kv_pieces s in
  match from_str k with
  | Some key => Some (key, v)
  | None => None
  end.

(* section_keys!: FromStr matches the variant names exactly, in order *)
Fixpoint index_of (names : list string) (s : str) : option nat :=
  match names with
  | [] => None
  | n :: r => if str_eqb (lit n) s then Some O else omap S (index_of r s)
  end.

(* from_str tables of GameMode, CountdownType, SampleBank, EventType:
   first matching literal wins *)
Fixpoint assoc_str {A : Type} (tbl : list (string * A)) (s : str) : option A :=
  match tbl with
  | [] => None
  | (n, a) :: r => if str_eqb (lit n) s then Some a else assoc_str r s
  end.

(* str::as_bytes: the UTF-8 encoding of a sequence of scalar values *)
Definition utf8_char (c : char) : list Z :=
  if c <? 128 then [c]
  else if c <? 2048 then [192 + c / 64; 128 + c mod 64]
  else if c <? 65536 then [224 + c / 4096; 128 + (c / 64) mod 64; 128 + c mod 64]
  else [240 + c / 262144; 128 + (c / 4096) mod 64; 128 + (c / 64) mod 64; 128 + c mod 64].
Definition utf8 (s : str) : list Z := flat_map utf8_char s.

(* Iterator::filter_map *)
Fixpoint filter_map {A B : Type} (f : A -> option B) (l : list A) : list B :=
  match l with
  | [] => []
  | x :: r => match f x with Some y => y :: filter_map f r | None => filter_map f r end
  end.

(* decimal literal of the source -> float (the compiler rounds correctly) *)
Definition lit64 (d : bool * Z * Z) : F64 := let '(s, m, e) := d in D.of_decimal s m e.
Definition lit32 (d : bool * Z * Z) : F32 := let '(s, m, e) := d in S.of_decimal s m e.

(* dump helpers shared by the section dumps *)
Definition dump_str (s : str) : list Z := Z.of_nat (length s) :: s.
Definition dump_bool (b : bool) : list Z := [if b then 1 else 0].
Definition dump_seq {A : Type} (f : A -> list Z) (l : list A) : list Z :=
  Z.of_nat (length l) :: flat_map f l.
Definition dump_res (r : res) : Z := match r with Ok => 0 | Rejected => 1 end.

(* Drv07: correspondence entries for whole-file decoding with each decoder
   (C07, C06, C01, C15).  Input: decoder id, then the file's text as code
   points (the byte->text layer is checked separately by C10/C08).
   decoder ids: 0 General 1 Editor 2 Metadata 3 Difficulty 4 Events 5 Colors
                6 TimingPoints 7 HitObjects 8 Beatmap *)
From RM Require Import Model.Decoders.

Definition dump_oc {A} (d : A -> list Z) (x : outcome A) : list Z :=
  match x with Done a => 0 :: d a | Panic w => [1; w] | OutOfFuel => [2] end.

Definition run_dec_simple (inp : list Z) : list Z :=
  match inp with
  | id :: text =>
      let lines := lines_of_text text in
      if id =? 0 then dump_general (decode_general lines)
      else if id =? 1 then dump_editor (decode_editor lines)
      else if id =? 2 then dump_metadata (decode_metadata lines)
      else if id =? 3 then dump_difficulty_v (decode_difficulty lines)
      else if id =? 4 then dump_events (decode_events lines)
      else if id =? 5 then dump_colors (decode_colors lines)
      else if id =? 6 then dump_oc dump_tpv (decode_timing_points lines)
      else [98]
  | [] => [99]
  end.

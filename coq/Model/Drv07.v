(* Drv07: correspondence entries for whole-file decoding with each decoder
   (C07, C06, C01, C15).  Input: decoder id, then the file's text as code
   points (the byte->text layer is checked separately by C10/C08).
   decoder ids: 0 General 1 Editor 2 Metadata 3 Difficulty 4 Events 5 Colors
                6 TimingPoints 7 HitObjects 8 Beatmap *)
From RM Require Import Model.Decoders Model.CurveDist Model.Reader.
From RM Require Model.Curve.

Definition dump_oc {A} (d : A -> list Z) (x : outcome A) : list Z :=
  match x with Done a => 0 :: d a | Panic w => [1; w] | OutOfFuel => [2] end.

Definition run_dec_simple (inp : list Z) : list Z :=
  match inp with
  | id :: text =>
      let lines := lines_of_text text in
      if id =? 0 then dump_general (decode_general lines)
      else if id =? 1 then dump_editor (decode_editor lines)
      else if id =? 2 then dump_metadata (decode_metadata lines)
      else if id =? 3 then dump_difficulty_v (decode_difficulty lines)
      else if id =? 4 then dump_events (decode_events lines)
      else if id =? 5 then dump_colors (decode_colors lines)
      else if id =? 6 then dump_oc dump_tpv (decode_timing_points lines)
      else [98]
  | [] => [99]
  end.

(* finished hit objects: the curve distance stands in for the path mode,
   which the implementation does not expose *)
Definition dump_object_v (lm : Curve.Libm) (h : HitObject) : list Z :=
  D.bits (h_start h) ::
  (match h_kind h with
   | KSlider s =>
       1 :: dump_pos (sl_pos s) ++ [hbz (sl_new_combo s); sl_combo_offset s] ++
       (match dist_of_curve lm (sl_mode s) (sl_control_points s) (sl_expected_dist s) with
        | Done d => [D.bits d] | _ => [-1] end) ++
       dump_pcps (sl_control_points s) ++ dump_optf64 (sl_expected_dist s) ++
       (Z.of_nat (length (sl_node_samples s)) :: flat_map dump_samples (sl_node_samples s)) ++
       [sl_repeat_count s; D.bits (sl_velocity s)]
   | k => dump_kind k
   end) ++ dump_samples (h_samples h).

Definition dump_hov_v (lm : Curve.Libm) (v : HitObjectsV) : list Z :=
  dump_general (hov_general v) ++ dump_difficulty_v (hov_difficulty v) ++ dump_events (hov_events v) ++
  dump_cp (hov_control_points v) ++
  (Z.of_nat (length (hov_hit_objects v)) :: flat_map (dump_object_v lm) (hov_hit_objects v)).
Definition dump_bmv_v (lm : Curve.Libm) (v : BeatmapV) : list Z :=
  [bmv_version v] ++ dump_editor (bmv_editor v) ++ dump_metadata (bmv_metadata v) ++
  dump_colors (bmv_colors v) ++ dump_hov_v lm (bmv_ho v).

Definition run_dec (lm : Curve.Libm) (inp : list Z) : list Z :=
  match inp with
  | id :: text =>
      let lines := lines_of_text text in
      if id =? 7 then dump_oc (dump_hov_v lm) (decode_hit_objects (dist_of_curve lm) lines)
      else if id =? 8 then dump_oc (dump_bmv_v lm) (decode_beatmap (dist_of_curve lm) lines)
      else run_dec_simple inp
  | [] => [99]
  end.

(* decb: decoder id, then the RAW BYTES of the file: the reader model (BOM,
   encodings, line splitting; one-chunk schedule = from_bytes) composed with
   the decoder models.  io prefix: 0 ok / 1 kind / 2 panic / 3 fuel. *)
Definition run_decb (lm : Curve.Libm) (inp : list Z) : list Z :=
  match inp with
  | id :: bytes =>
      match read_all_lines (mk_reader bytes []) with
      | IoDone lines =>
          0 :: (if id =? 7 then dump_oc (dump_hov_v lm) (decode_hit_objects (dist_of_curve lm) lines)
                else if id =? 8 then dump_oc (dump_bmv_v lm) (decode_beatmap (dist_of_curve lm) lines)
                else if id =? 0 then dump_general (decode_general lines)
                else if id =? 1 then dump_editor (decode_editor lines)
                else if id =? 2 then dump_metadata (decode_metadata lines)
                else if id =? 3 then dump_difficulty_v (decode_difficulty lines)
                else if id =? 4 then dump_events (decode_events lines)
                else if id =? 5 then dump_colors (decode_colors lines)
                else if id =? 6 then dump_oc dump_tpv (decode_timing_points lines)
                else [98])
      | IoErr k => [1; kind_code k]
      | IoPanic w => [2; w]
      | IoFuel => [3]
      end
  | [] => [99]
  end.

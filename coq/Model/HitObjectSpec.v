(* HitObjectSpec: what the property text of C14 prescribes, written down
   declaratively (fields by position, flags by bit number, structural recursion
   over the token list, tables), independently of the shape of the Rust code.
   Definitions only.  Proofs/HitObjectLineFacts.v shows that the transcribed
   parser (Model/HitObjectLine.v, Model/PathString.v, Model/HitSamples.v)
   computes exactly this. *)
From RM Require Import Model.Text Model.Num Model.HitSamples Model.PathString Model.HitObjectLine.
From RM Require Import Gen.Generated.
Open Scope Z_scope.

(* ---------- flags by bit number ---------- *)
(* [flag] is one of the single-bit constants of Generated (pinned in
   Properties/C14.v to 2^0, 2^1, 2^2, 2^3, 2^7 and 2^0..2^3 for sounds) *)
Definition flag_bit (flag t : Z) : bool := Z.testbit t (Z.log2 flag).

(* kind precedence circle > slider > spinner > hold: 0 1 2 3 *)
Definition kind_of_type (t : Z) : option Z :=
  if flag_bit hot_circle t then Some 0
  else if flag_bit hot_slider t then Some 1
  else if flag_bit hot_spinner t then Some 2
  else if flag_bit hot_hold t then Some 3
  else None.

(* the three combo-offset bits as a number 0..7 *)
Definition combo_bits (t : Z) : Z := (t / 16) mod 8.      (* hot_combo_offset = 7 * 16, pinned *)

(* what the state remembers of an accepted line's type: the type without the
   new-combo and combo-offset bits *)
Definition kept_type (t : Z) : Z := Z.ldiff t (hot_combo_offset + hot_new_combo).

(* ---------- sample list ---------- *)
(* additions in the documented order *)
Definition addition_table : list (Z * Z) :=
  [(hitsound_finish, nm_finish); (hitsound_whistle, nm_whistle); (hitsound_clap, nm_clap)].

Definition samples_spec (b : SampleBankInfo) (sound : Z) : list HitSampleInfo :=
  let primary :=
    match sbi_filename b with
    | Some (c :: f) =>                                     (* a file name replaces the normal sample *)
        mkHS (NFile (c :: f)) sb_normal None (sbi_volume b) 1 false false
    | _ =>
        mkHS (NDefault nm_normal) (odflt sb_normal (sbi_normal b))
             (if 2 <=? sbi_custom b then Some (sbi_custom b) else None)
             (sbi_volume b) (sbi_custom b)
             (match sbi_normal b with Some _ => true | None => false end)
             (* layered: some sound is set, but not the normal bit *)
             (negb (sound =? 0) && negb (flag_bit hitsound_normal sound))
    end in
  primary ::
  map (fun fn : Z * Z =>
         mkHS (NDefault (snd fn)) (odflt sb_normal (sbi_addition b))
              (if 2 <=? sbi_custom b then Some (sbi_custom b) else None)
              (sbi_volume b) (sbi_custom b)
              (match sbi_addition b with Some _ => true | None => false end) false)
      (filter (fun fn : Z * Z => flag_bit (fst fn) sound) addition_table).

(* ---------- bank fields  normal:addition[:custom[:volume[:file]]] ---------- *)
Definition bank_opt (n : Z) : option Z :=
  let b := bank_of_i32 n in if b =? sb_none then None else Some b.

Definition banks_spec (b : SampleBankInfo) (fields : list str) (banks_only : bool)
  : option SampleBankInfo :=
  match nth_error fields 0 with
  | None | Some [] => Some b                              (* nothing given *)
  | Some f0 =>
      match pn_i32 f0, obnd (nth_error fields 1) pn_i32 with
      | Some n, Some a =>
          let normal := bank_opt n in
          let addition := match bank_opt a with Some x => Some x | None => normal end in
          if banks_only then Some (mkSBI (sbi_filename b) normal addition (sbi_volume b) (sbi_custom b))
          else
            match (match nth_error fields 2 with Some s => pn_i32 s | None => Some (sbi_custom b) end),
                  (match nth_error fields 3 with Some s => omap (Z.max 0) (pn_i32 s)
                                               | None => Some (sbi_volume b) end) with
            | Some custom, Some volume => Some (mkSBI (nth_error fields 4) normal addition volume custom)
            | _, _ => None
            end
      | _, _ => None
      end
  end.

Definition extras_spec (o : option str) : option SampleBankInfo :=
  match o with
  | Some s => banks_spec sbi_default (split_on 58 s) false
  | None => Some sbi_default
  end.

(* ---------- path string ---------- *)
Fixpoint read_all (pts : list str) (offset : Pos) : option (list PCP) :=
  match pts with
  | [] => Some []
  | p :: r =>
      match read_point p offset, read_all r offset with
      | Some v, Some vs => Some (v :: vs)
      | _, _ => None
      end
  end.

(* a perfect curve needs exactly three points that are not collinear *)
Definition seg_type (letter : PathType) (all : list PCP) : PathType :=
  if pt_eqb letter pt_perfect then
    match all with
    | [a; b; c] => if is_linear (cp_pos a) (cp_pos b) (cp_pos c) then pt_linear else pt_perfect
    | _ => pt_bezier
    end
  else letter.

Fixpoint mark_last (ty : PathType) (seg : list PCP) : list PCP :=
  match seg with
  | [] => []
  | [p] => [pcp_with_type p ty]
  | p :: r => p :: mark_last ty r
  end.

Definition is_nil {A} (l : list A) : bool := match l with [] => true | _ => false end.

(* walk over the points of one segment: [prev] is the point before [rest],
   [i] its successor's index, [seg] the piece collected so far.  A point equal
   to its predecessor closes the piece (whose last point gets the type) and is
   dropped -- unless the path is Catmull and we are past the first pair, or the
   point is the last one of the segment. *)
Fixpoint split_dups (ty : PathType) (i : nat) (prev : PCP) (seg rest : list PCP) : list PCP :=
  match rest with
  | [] => seg
  | v :: rest' =>
      if pos_eqb (cp_pos v) (cp_pos prev)
         && negb (pt_eqb ty pt_catmull && (1 <? i)%nat)
         && negb (is_nil rest')
      then mark_last ty seg ++ split_dups ty (S i) v [] rest'
      else split_dups ty (S i) v (seg ++ [v]) rest'
  end.

(* one segment: its tokens (type token first), and the token that closes it
   (the first point of the next segment, if any) *)
Definition seg_spec (first : bool) (toks : list str) (closing : option str) (offset : Pos)
  : option (list PCP) :=
  match toks with
  | [] => None
  | letter :: pts =>
      match read_all pts offset,
            (match closing with
             | Some c => omap (fun p => [p]) (read_point c offset)
             | None => Some [] end) with
      | Some own, Some cl =>
          let own := (if first then [pcp_default] else []) ++ own in     (* first point at the origin *)
          let ty := seg_type (path_type_of_str letter) (own ++ cl) in
          match own with
          | [] => None                                                 (* a segment needs a point *)
          | v0 :: rest =>
              let v0' := pcp_with_type v0 ty in                          (* ... carrying the type *)
              Some (split_dups ty 1 v0' [v0'] rest)
          end
      | _, _ => None
      end
  end.

(* the whole token list: [cur] = tokens of the segment being collected.
   Result: the control points produced, and whether the path is well formed;
   for a malformed path the points are those of the segments before the
   malformed one. *)
Fixpoint path_segs (first : bool) (cur rest : list str) (offset : Pos) : list PCP * bool :=
  match rest with
  | [] => match seg_spec first cur None offset with Some a => (a, true) | None => ([], false) end
  | t :: rest' =>
      match t with
      | [] => ([], false)                                              (* empty token *)
      | c :: _ =>
          if is_ascii_alpha c then                                     (* next segment starts *)
            match seg_spec first cur (fst (next rest')) offset with
            | Some a => let '(b, ok) := path_segs false [t] rest' offset in (a ++ b, ok)
            | None => ([], false)
            end
          else path_segs first (cur ++ [t]) rest' offset
      end
  end.

Definition path_spec (point_str : str) (offset : Pos) : list PCP * bool :=
  match split_on 124 point_str with
  | [] => ([], false)
  | t0 :: rest => path_segs true [t0] rest offset
  end.

(* ---------- node samples of a slider ---------- *)
Definition node_bank_at (dflt : SampleBankInfo) (sets : list str) (i : nat) : option SampleBankInfo :=
  match nth_error sets i with
  | Some s => banks_spec dflt (split_on 58 s) false
  | None => Some dflt
  end.
Definition node_sound_at (dflt : Z) (toks : list str) (i : nat) : Z :=
  match nth_error toks i with
  | Some t => odflt 0 (parse_sound_type t)
  | None => dflt
  end.
Fixpoint all_some {A} (l : list (option A)) : option (list A) :=
  match l with
  | [] => Some []
  | Some x :: r => omap (cons x) (all_some r)
  | None :: _ => None
  end.
Definition pieces (o : option str) : list str :=
  match o with Some (c :: s) => split_on 124 (c :: s) | _ => [] end.
Definition node_samples_spec (n : nat) (bank : SampleBankInfo) (sound : Z)
           (edge_sets edge_sounds : option str) : option (list (list HitSampleInfo)) :=
  omap (fun banks =>
          map (fun ib : nat * SampleBankInfo =>
                 samples_spec (snd ib) (node_sound_at sound (pieces edge_sounds) (fst ib)))
              (combine (seq 0 n) banks))
       (all_some (map (node_bank_at bank (pieces edge_sets)) (seq 0 n))).

(* ---------- the line ---------- *)
Record Fields := mkFields {
  f_pos : Pos; f_start : F64; f_type : Z; f_sound : Z; f_rest : list str }.

Definition common_spec (line : str) : option Fields :=
  let f := split_on 44 (trim_comment line) in
  match nth_error f 0, nth_error f 1, nth_error f 2, nth_error f 3, nth_error f 4 with
  | Some x, Some y, Some t, Some ty, Some snd_ =>
      match pn_f32_lim coord_lim32 x, pn_f32_lim coord_lim32 y, pn_f64 t,
            parse_i32_raw ty, parse_i32_raw snd_ with
      | Some xv, Some yv, Some tv, Some tyv, Some sv =>
          Some (mkFields (mkPos (trunc32 xv) (trunc32 yv)) tv tyv (sv mod 256) (skipn 5 f))
      | _, _, _, _, _ => None
      end
  | _, _, _, _, _ => None
  end.

Definition accept (st : HOState) (f : Fields) (k : HitObjectKind) (bank : SampleBankInfo)
  : HOState * res :=
  (mkHO (Some (kept_type (f_type f))) (ho_curve st) (ho_vertices st)
        (ho_objects st ++ [mkHObj (f_start f) k (samples_spec bank (f_sound f))]) (ho_mode st),
   Ok).

(* "starts a new combo": flagged, or first object, or the previous accepted
   line was read as a spinner (kind precedence applied to its remembered type;
   Proofs/C14Clauses.v shows that this IS the kind of the last object pushed) *)
Definition type_is_spinner (k : Z) : bool :=
  match kind_of_type k with Some 2 => true | _ => false end.
Definition starts_combo (st : HOState) (t : Z) : bool :=
  flag_bit hot_new_combo t
  || match ho_last st with None => true | Some k => type_is_spinner k end.

Definition combo_offset_spec (t : Z) : Z := if flag_bit hot_new_combo t then combo_bits t else 0.

Definition length_spec (o : option str) : option (option F64) :=
  match o with
  | None => Some None
  | Some s => omap (fun v => if D.ge v D.eps then Some v else None) (pn_f64_lim coord_lim64 s)
  end.

(* the slider fields that precede any state change *)
Definition slider_fields_spec (sound : Z) (r : list str) : option SliderPre :=
  match nth_error r 0, obnd (nth_error r 1) pn_i32 with
  | Some path, Some repeats_raw =>
      if repeat_cap <? repeats_raw then None
      else
        let repeats := Z.max 0 (repeats_raw - 1) in
        match length_spec (nth_error r 2),
              (match nth_error r 5 with
               | Some s => banks_spec sbi_default (split_on 58 s) true
               | None => Some sbi_default end) with
        | Some len, Some bank =>
            omap (fun nodes => mkSliderPre path repeats len nodes bank)
                 (node_samples_spec (Z.to_nat (repeats + 2)) bank sound (nth_error r 4) (nth_error r 3))
        | _, _ => None
        end
  | _, _ => None
  end.

(* [vertices] and [curve_points] are scratch: [vertices] is left to the
   implementation (argument [scratch]); [curve_points] is cleared before a path
   is read, so what it held never reaches an object *)
Definition line_spec_with (st : HOState) (line : str) (scratch : list PCP) : HOState * res :=
  match common_spec line with
  | None => (st, Rejected)
  | Some f =>
      let t := f_type f in
      let r := f_rest f in
      match kind_of_type t with
      | Some 0 =>
          match extras_spec (nth_error r 0) with
          | Some bank => accept st f (KCircle (mkCircle (f_pos f) (starts_combo st t) (combo_offset_spec t))) bank
          | None => (st, Rejected)
          end
      | Some 1 =>
          match slider_fields_spec (f_sound f) r with
          | Some pre =>
              let '(cps, ok) := path_spec (spre_point_str pre) (f_pos f) in
              if ok then
                accept (mkHO (ho_last st) [] scratch (ho_objects st) (ho_mode st)) f
                       (KSlider (mkSlider (f_pos f) (starts_combo st t) (combo_offset_spec t)
                                          (ho_mode st) cps (spre_len pre)
                                          (spre_nodes pre) (spre_repeat pre) D.one))
                       (spre_bank pre)
              else
                (* the points of the well-formed leading segments stay in the scratch buffer
                   curve_points; the next slider line clears it before use *)
                (mkHO (ho_last st) cps scratch (ho_objects st) (ho_mode st), Rejected)
          | None => (st, Rejected)
          end
      | Some 2 =>
          match obnd (nth_error r 0) pn_f64, extras_spec (nth_error r 1) with
          | Some e, Some bank =>
              accept st f (KSpinner (mkSpinner spinner_pos (f64_max_lit (D.sub e (f_start f)) D.zero)
                                               (flag_bit hot_new_combo t))) bank
          | _, _ => (st, Rejected)
          end
      | Some 3 =>
          match nth_error r 0 with
          | None | Some [] =>
              accept st f (KHold (mkHold (px (f_pos f)) (D.sub (D.max (f_start f) (f_start f)) (f_start f)))) sbi_default
          | Some s =>
              let parts := split_on 58 s in
              match obnd (nth_error parts 0) pn_f64, banks_spec sbi_default (skipn 1 parts) false with
              | Some e, Some bank =>
                  accept st f (KHold (mkHold (px (f_pos f)) (D.sub (D.max (f_start f) e) (f_start f)))) bank
              | _, _ => (st, Rejected)
              end
          end
      | _ => (st, Rejected)
      end
  end.

(* Prelude: shared basic definitions for the rosu-map model.
   Only definitions live under Model/; proofs live under Proofs/. *)
From Coq Require Export String Ascii.
From Coq Require Export List ZArith Bool Lia.
Export ListNotations.
Open Scope Z_scope.

(* ---------- outcomes ---------- *)

(* What a Rust call can do, beyond returning: panic, or (in the model only)
   run out of the explicit fuel given to a loop without structural bound. *)
Inductive outcome (A : Type) : Type :=
| Done (a : A)
| Panic (why : Z)
| OutOfFuel.
Arguments Done {A} a.
Arguments Panic {A} why.
Arguments OutOfFuel {A}.

Definition obind {A B} (x : outcome A) (f : A -> outcome B) : outcome B :=
  match x with
  | Done a => f a
  | Panic w => Panic w
  | OutOfFuel => OutOfFuel
  end.

(* A section parser's Result<(), E>.  The error class is kept as a small code
   so that dumps can be compared; the model is not asked to reproduce the
   error *type*, only Ok / Err. *)
Inductive res : Type := Ok | Rejected.

Definition res_eqb (a b : res) : bool :=
  match a, b with Ok, Ok | Rejected, Rejected => true | _, _ => false end.

(* option helpers *)
Definition omap {A B} (f : A -> B) (x : option A) : option B :=
  match x with Some a => Some (f a) | None => None end.
Definition obnd {A B} (x : option A) (f : A -> option B) : option B :=
  match x with Some a => f a | None => None end.
Definition odflt {A} (d : A) (x : option A) : A :=
  match x with Some a => a | None => d end.

(* list helpers used across the model *)
Fixpoint last_opt {A} (l : list A) : option A :=
  match l with
  | [] => None
  | [x] => Some x
  | _ :: t => last_opt t
  end.

Fixpoint replace_nth {A} (n : nat) (x : A) (l : list A) : list A :=
  match l, n with
  | [], _ => []
  | _ :: t, O => x :: t
  | h :: t, S k => h :: replace_nth k x t
  end.

Fixpoint insert_nth {A} (n : nat) (x : A) (l : list A) : list A :=
  match n, l with
  | O, _ => x :: l
  | S k, [] => [x]
  | S k, h :: t => h :: insert_nth k x t
  end.

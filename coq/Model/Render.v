(* Render: turning the encoder's token lines into text, given the number
   formatting functions (Rust's `Display` for f64 / f32 / integers), which are
   an ORACLE: they are arguments here and Section variables with named
   hypotheses in Proofs/ (never axioms).  Also the boolean text predicates
   used by the encoder theorems and by [Representable] (C03), and a small
   reference decimal printer used only for `vm_compute` witnesses.
   Definitions only. *)
From RM Require Export Model.Edit.
From RM Require Import Gen.Generated.

Section Render.
  Variables (fmt_f64 : F64 -> str) (fmt_f32 : F32 -> str) (fmt_int : Z -> str).

  Definition render_tok (t : tok) : str :=
    match t with
    | TStr s => s
    | TF64 x => fmt_f64 x
    | TF32 x => fmt_f32 x
    | TInt n => fmt_int n
    end.
  Definition render (l : line) : str := flat_map render_tok l.
  (* every line is closed by a line feed *)
  Definition render_text (ls : list line) : str := flat_map (fun l => render l ++ [ch_lf]) ls.
End Render.

(* ---------- text predicates ---------- *)

Definition first_ws (s : str) : bool := match s with c :: _ => is_ws c | [] => false end.
Definition last_ws (s : str) : bool := first_ws (rev s).
(* no leading / trailing White_Space: exactly the strings that [trim] leaves alone *)
Definition tidyb (s : str) : bool := negb (first_ws s) && negb (last_ws s).

Definition memb (c : char) (s : str) : bool := existsb (Z.eqb c) s.
Definition slash : char := 47.
Definition first_is (c : char) (s : str) : bool := match s with x :: _ => x =? c | [] => false end.
(* contains "//" *)
Fixpoint has_ss (s : str) : bool :=
  match s with
  | c :: r => ((c =? slash) && first_is slash r) || has_ss r
  | [] => false
  end.

(* a character that is neither White_Space nor one of the format's separators *)
Definition plainc (c : char) : bool :=
  negb (is_ws c || (c =? 44) || (c =? 58) || (c =? 124) || (c =? 47) || (c =? 34) || (c =? 91) || (c =? 93) || (c =? 118)).
Definition int_char (c : char) : bool := is_digit c || (c =? 45).

(* ---------- reference decimal printer (witnesses only) ---------- *)

Fixpoint dec_digits (fuel : nat) (n : Z) (acc : str) : str :=
  match fuel with
  | O => acc
  | S k => if n <? 10 then (48 + n) :: acc else dec_digits k (n / 10) ((48 + n mod 10) :: acc)
  end.
Definition dec_int (n : Z) : str :=
  if n <? 0 then 45 :: dec_digits 40 (- n) [] else dec_digits 40 n [].
(* integer-valued floats print as their integer (true of Rust's Display);
   other values are outside what the witnesses use *)
Definition wit_f64 (x : F64) : str := dec_int (f64_as_i32 x).
Definition wit_f32 (x : F32) : str := dec_int (f32_as_i32 x).

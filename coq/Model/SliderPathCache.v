(* SliderPathCache: section/hit_objects/slider/path.rs -- SliderPath and its
   lazily computed, cached curve, as a state machine over its public
   accessors, next to a CurveBuffers value shared with other computations. *)
From RM Require Export Model.Curve.
Open Scope Z_scope.

Record SliderPath := mkSP {
  sp_mode : Z;
  sp_cps : list PathControlPoint;
  sp_expected : option F64;
  sp_curve : option Curve }.

(* SliderPath::new *)
Definition sp_new (mode : Z) (cps : list PathControlPoint) (e : option F64) : SliderPath :=
  mkSP mode cps e None.

Definition sp_clear (sp : SliderPath) : SliderPath :=
  mkSP (sp_mode sp) (sp_cps sp) (sp_expected sp) None.

Inductive sp_op :=
| OpCurve                                        (* sp.curve() *)
| OpCurveWithBufs                                (* sp.curve_with_bufs(&mut bufs) *)
| OpBorrowed                                     (* sp.borrowed_curve(&mut bufs) *)
| OpSetPoints (pts : list PathControlPoint)      (* *sp.control_points_mut() = pts *)
| OpSetDist (e : option F64)                     (* *sp.expected_dist_mut() = e *)
| OpTouchPoints                                  (* sp.control_points_mut() without a write *)
| OpTouchDist                                    (* sp.expected_dist_mut() without a write *)
| OpClear                                        (* sp.clear_curve() *)
(* other users of the same buffers *)
| OpOwnedOther (mode : Z) (pts : list PathControlPoint) (e : option F64)     (* Curve::new *)
| OpBorrowedOther (mode : Z) (pts : list PathControlPoint) (e : option F64). (* BorrowedCurve::new *)

Section WithLibm.
  Variable lm : Libm.
  Variable fuel : positive.

  (* state, and what the operation returned to the caller (a curve, for reads) *)
  Definition sp_step (sp : SliderPath) (bufs : CurveBuffers) (o : sp_op)
    : outcome (SliderPath * CurveBuffers * option Curve) :=
    match o with
    | OpCurve =>
        match sp_curve sp with
        | Some c => Done (sp, bufs, Some c)
        | None =>
            (* calculate_curve: a fresh CurveBuffers::default() *)
            obind (curve_new_L0 lm fuel (sp_mode sp) (sp_cps sp) (sp_expected sp) bufs_default)
                  (fun '(c, _) => Done (mkSP (sp_mode sp) (sp_cps sp) (sp_expected sp) (Some c), bufs, Some c))
        end
    | OpCurveWithBufs =>
        match sp_curve sp with
        | Some c => Done (sp, bufs, Some c)
        | None =>
            obind (curve_new_L0 lm fuel (sp_mode sp) (sp_cps sp) (sp_expected sp) bufs)
                  (fun '(c, bufs') => Done (mkSP (sp_mode sp) (sp_cps sp) (sp_expected sp) (Some c), bufs', Some c))
        end
    | OpBorrowed =>
        match sp_curve sp with
        | Some c => Done (sp, bufs, Some c)
        | None =>
            obind (borrowed_new_L0 lm fuel (sp_mode sp) (sp_cps sp) (sp_expected sp) bufs)
                  (fun '(c, bufs') => Done (sp, bufs', Some c))
        end
    | OpSetPoints pts => Done (mkSP (sp_mode sp) pts (sp_expected sp) None, bufs, None)
    | OpSetDist e => Done (mkSP (sp_mode sp) (sp_cps sp) e None, bufs, None)
    | OpTouchPoints | OpTouchDist | OpClear => Done (sp_clear sp, bufs, None)
    | OpOwnedOther mode pts e =>
        obind (curve_new_L0 lm fuel mode pts e bufs) (fun '(c, bufs') => Done (sp, bufs', Some c))
    | OpBorrowedOther mode pts e =>
        obind (borrowed_new_L0 lm fuel mode pts e bufs) (fun '(c, bufs') => Done (sp, bufs', Some c))
    end.

  (* a history; the results of the operations are collected in order *)
  Fixpoint sp_run (sp : SliderPath) (bufs : CurveBuffers) (ops : list sp_op)
    : outcome (SliderPath * CurveBuffers * list (option Curve)) :=
    match ops with
    | [] => Done (sp, bufs, [])
    | o :: r =>
        obind (sp_step sp bufs o) (fun '(sp', bufs', res) =>
        obind (sp_run sp' bufs' r) (fun '(sp'', bufs'', rs) =>
        Done (sp'', bufs'', res :: rs)))
    end.
End WithLibm.

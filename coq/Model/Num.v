(* Num: Rust's number grammars (core::num) and rosu-map's ParseNumber. *)
From RM Require Export Model.Text Model.Floats.
From RM Require Import Gen.Generated.
From Flocq Require Import Core.

(* ---------- integers: <iN/uN as FromStr>::from_str ---------- *)

Fixpoint digits_val (acc : Z) (s : str) : option Z :=
  match s with
  | [] => Some acc
  | c :: r => if is_digit c then digits_val (10 * acc + (c - 48)) r else None
  end.

(* [signed]: whether a leading '-' is accepted as a sign *)
Definition parse_int_raw (signed : bool) (lo hi : Z) (s : str) : option Z :=
  match s with
  | [] => None
  | c :: r =>
      let '(neg, ds) :=
        if (c =? 43) then (false, r)
        else if (c =? 45) && signed then (true, r)
        else (false, s) in
      match ds with
      | [] => None
      | _ => match digits_val 0 ds with
             | Some v => let n := if neg then - v else v in
                         if (lo <=? n) && (n <=? hi) then Some n else None
             | None => None
             end
      end
  end.

Definition parse_i32_raw : str -> option Z := parse_int_raw true i32_min i32_max.
Definition parse_u8_raw : str -> option Z := parse_int_raw false 0 255.

(* ---------- floats: core::num::dec2flt ---------- *)

Fixpoint take_digits (s : str) (acc : Z) (n : Z) : Z * Z * str :=
  match s with
  | c :: r => if is_digit c then take_digits r (10 * acc + (c - 48)) (n + 1) else (acc, n, s)
  | [] => (acc, n, s)
  end.

(* exponent digits with the saturation of parse_scientific *)
Fixpoint take_exp_digits (s : str) (acc : Z) (n : Z) : Z * Z * str :=
  match s with
  | c :: r => if is_digit c
              then take_exp_digits r (if acc <? 65536 then 10 * acc + (c - 48) else acc) (n + 1)
              else (acc, n, s)
  | [] => (acc, n, s)
  end.

Definition upper (c : char) : char := if (97 <=? c) && (c <=? 122) then c - 32 else c.

Inductive fnum := FInf | FNan | FDec (m e : Z).

(* number of decimal digits of a positive m, by fuel *)
Fixpoint ndigits_aux (fuel : nat) (m : Z) (acc : Z) : Z :=
  match fuel with
  | O => acc
  | S k => if m <=? 0 then acc else ndigits_aux k (m / 10) (acc + 1)
  end.

Definition parse_fnum (s : str) : option (bool * fnum) :=
  match s with
  | [] => None
  | c :: r =>
      let neg := c =? 45 in
      let body := if neg || (c =? 43) then r else s in
      match body with
      | [] => None
      | _ =>
          let '(m1, n1, s1) := take_digits body 0 0 in
          let '(m2, n2, s2) :=
            match s1 with
            | 46 :: s1' => take_digits s1' m1 0
            | _ => (m1, 0, s1)
            end in
          if (n1 + n2 =? 0) then
            (* not a decimal: inf / infinity / nan, case-insensitive *)
            let u := map upper body in
            if str_eqb u (lit "INF") || str_eqb u (lit "INFINITY") then Some (neg, FInf)
            else if str_eqb u (lit "NAN") then Some (neg, FNan)
            else None
          else
            match s2 with
            | [] => Some (neg, FDec m2 (- n2))
            | c2 :: s3 =>
                if (c2 =? 101) || (c2 =? 69) then
                  let '(eneg, s4) :=
                    match s3 with
                    | 45 :: t => (true, t)
                    | 43 :: t => (false, t)
                    | _ => (false, s3)
                    end in
                  let '(ev, en, s5) := take_exp_digits s4 0 0 in
                  if en =? 0 then None
                  else match s5 with
                       | [] => Some (neg, FDec m2 ((if eneg then - ev else ev) - n2))
                       | _ => None
                       end
                else None
            end
      end
  end.

Section ToFloat.
  Variables prec emax : Z.
  Context (Hp : Prec_gt_0 prec) (He : Prec_lt_emax prec emax).
  Definition fnum_to_float (neg : bool) (x : fnum) (len : nat) : binary_float prec emax :=
    match x with
    | FInf => B754_infinity neg
    | FNan => B754_nan
    | FDec m e =>
        if m =? 0 then B754_zero neg
        else
          let d := ndigits_aux (S len) m 0 in
          if 400 <? d + e then B754_infinity neg
          else if d + e <? -400 then B754_zero neg
          else of_decimal prec emax Hp He neg m e
    end.
End ToFloat.

Definition parse_f64_raw (s : str) : option F64 :=
  match parse_fnum s with
  | Some (neg, x) => Some (fnum_to_float 53 1024 Hp64 He64 neg x (length s))
  | None => None
  end.
Definition parse_f32_raw (s : str) : option F32 :=
  match parse_fnum s with
  | Some (neg, x) => Some (fnum_to_float 24 128 Hp32 He32 neg x (length s))
  | None => None
  end.

(* ---------- util::ParseNumber ---------- *)

Definition pn_i32_lim (limit : Z) (s : str) : option Z :=
  match parse_i32_raw (trim s) with
  | Some n => if n <? - limit then None else if limit <? n then None else Some n
  | None => None
  end.
Definition pn_i32 : str -> option Z := pn_i32_lim max_parse_value.

Definition pn_f64_lim (limit : F64) (s : str) : option F64 :=
  match parse_f64_raw (trim s) with
  | Some n => if D.lt n (D.neg limit) then None
              else if D.gt n limit then None
              else if D.is_nan n then None else Some n
  | None => None
  end.
Definition pn_f64 : str -> option F64 := pn_f64_lim (D.of_Z max_parse_value).

Definition pn_f32_lim (limit : F32) (s : str) : option F32 :=
  match parse_f32_raw (trim s) with
  | Some n => if S.lt n (S.neg limit) then None
              else if S.gt n limit then None
              else if S.is_nan n then None else Some n
  | None => None
  end.
(* MAX_PARSE_VALUE as f32 rounds to 2^31 *)
Definition pn_f32 : str -> option F32 := pn_f32_lim (S.of_Z max_parse_value).

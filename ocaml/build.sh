#!/bin/sh
# builds ./modelrun from the extracted model (coq/Extract/model.ml{,i})
set -e
cd "$(dirname "$0")"
rm -f modelrun
cp ../coq/Extract/model.ml ../coq/Extract/model.mli .
ocamlfind ocamlopt -O2 -w -a -package str model.mli model.ml entries.ml driver.ml -o modelrun 2>&1 | grep -v "options -O2 is only relevant" || true
test -x modelrun

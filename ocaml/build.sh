#!/bin/sh
# builds ./modelrun from the extracted model (coq/Extract/model.ml{,i})
set -e
cd "$(dirname "$0")"
rm -f modelrun
cp ../coq/Extract/model.ml ../coq/Extract/model.mli .
rm -f modelrun
EXTRA=""
[ -f libm.ml ] && EXTRA="libm.ml"
[ -f libm_stubs.c ] && EXTRA="libm_stubs.c $EXTRA"
ocamlfind ocamlopt -O2 -w -a -package str model.mli model.ml $EXTRA entries.ml driver.ml -o modelrun 2>build.err || { cat build.err; exit 1; }
test -x modelrun

#!/bin/sh
# builds ./modelrun from the extracted model (coq/Extract/model.ml{,i})
set -e
cd "$(dirname "$0")"
rm -f modelrun
cp ../coq/Extract/model.ml ../coq/Extract/model.mli .
rm -f modelrun
# libm.ml + libm_stubs.c: the libm oracle handed to entries marked "libm"
ocamlfind ocamlopt -O2 -w -a -package str libm_stubs.c model.mli model.ml libm.ml entries.ml driver.ml -cclib -lm -o modelrun 2>build.err || { cat build.err; exit 1; }
test -x modelrun

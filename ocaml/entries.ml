(* entry name -> extracted model function (registry; one line per entry) *)
open Model
let table : (string * (z list -> z list)) list = [
  ("c13", run_c13);
]

(* modelrun: runs the extracted Coq model on correspondence cases.
   Protocol (stdin, one case per line): "<entry> <hex> <hex> ..." where each
   <hex> is an optionally '-'-prefixed hexadecimal integer.  Output: one line
   per case, the model's result as space-separated hex integers.
   This file is trusted glue: integer <-> extracted [Model.z] conversion and
   dispatch only; all decoding of cases is done inside the Coq model. *)
(* [ostring]: OCaml's own string type; [open Model] may shadow [string] with the
   extracted Coq string type *)
type ostring = string
open Model

let rec pos_of_bits (s : ostring) (i : int) (acc : positive option) : positive option =
  (* s is a string of '0'/'1', most significant first *)
  if i >= String.length s then acc
  else
    let b = s.[i] = '1' in
    let acc' = match acc with
      | None -> if b then Some XH else None
      | Some p -> Some (if b then XI p else XO p) in
    pos_of_bits s (i + 1) acc'

let bits_of_hexdigit c =
  match c with
  | '0' -> "0000" | '1' -> "0001" | '2' -> "0010" | '3' -> "0011"
  | '4' -> "0100" | '5' -> "0101" | '6' -> "0110" | '7' -> "0111"
  | '8' -> "1000" | '9' -> "1001" | 'a' | 'A' -> "1010" | 'b' | 'B' -> "1011"
  | 'c' | 'C' -> "1100" | 'd' | 'D' -> "1101" | 'e' | 'E' -> "1110" | 'f' | 'F' -> "1111"
  | _ -> failwith ("bad hex digit " ^ String.make 1 c)

let z_of_hex (tok : ostring) : z =
  let neg = String.length tok > 0 && tok.[0] = '-' in
  let body = if neg then String.sub tok 1 (String.length tok - 1) else tok in
  let buf = Buffer.create (4 * String.length body) in
  String.iter (fun c -> Buffer.add_string buf (bits_of_hexdigit c)) body;
  match pos_of_bits (Buffer.contents buf) 0 None with
  | None -> Z0
  | Some p -> if neg then Zneg p else Zpos p

let hex_of_pos (p : positive) : ostring =
  (* collect bits least significant first *)
  let rec bits p acc = match p with
    | XH -> 1 :: acc
    | XO q -> bits q (0 :: acc)   (* builds most-significant-first when reversed below *)
    | XI q -> bits q (1 :: acc) in
  (* bits returns list with most significant first because we cons while descending
     from least significant: descending visits LSB first, so consing yields MSB last...
     do it explicitly: *)
  ignore bits;
  let rec lsb_first p = match p with
    | XH -> [1] | XO q -> 0 :: lsb_first q | XI q -> 1 :: lsb_first q in
  let l = Array.of_list (lsb_first p) in
  let n = Array.length l in
  let nd = (n + 3) / 4 in
  let b = Bytes.make nd '0' in
  for d = 0 to nd - 1 do
    let v = ref 0 in
    for k = 3 downto 0 do
      let idx = 4 * d + k in
      v := 2 * !v + (if idx < n then l.(idx) else 0)
    done;
    Bytes.set b (nd - 1 - d) "0123456789abcdef".[!v]
  done;
  Bytes.to_string b

let hex_of_z (x : z) : ostring =
  match x with
  | Z0 -> "0"
  | Zpos p -> hex_of_pos p
  | Zneg p -> "-" ^ hex_of_pos p

let entries : (ostring * (z list -> z list)) list = Entries.table

let () =
  let tbl = Hashtbl.create 64 in
  List.iter (fun (k, f) -> Hashtbl.replace tbl k f) entries;
  let out = Buffer.create 65536 in
  (try
     while true do
       let line = input_line stdin in
       let toks = List.filter (fun s -> s <> "") (String.split_on_char ' ' line) in
       (match toks with
        | [] -> Buffer.add_string out "\n"
        | e :: args ->
          let f = try Hashtbl.find tbl e with Not_found -> failwith ("unknown entry " ^ e) in
          let res = (try f (List.map z_of_hex args)
                     with Stack_overflow -> [Zneg XH; Zneg XH]) in
          Buffer.add_string out (String.concat " " (List.map hex_of_z res));
          Buffer.add_char out '\n');
       if Buffer.length out > 60000 then (print_string (Buffer.contents out); Buffer.clear out)
     done
   with End_of_file -> ());
  print_string (Buffer.contents out)

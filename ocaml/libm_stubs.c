/* acosf for the libm oracle: OCaml has no binary32 arithmetic.  The argument
   and the result travel as doubles (binary32 -> binary64 is exact). */
#include <math.h>
#include <caml/mlvalues.h>
#include <caml/alloc.h>

CAMLprim value rm_acosf(value v)
{
  float f = (float)Double_val(v);
  return caml_copy_double((double)acosf(f));
}

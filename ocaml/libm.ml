(* Libm.oracle: the libm functions the curve model takes as an argument
   (Model.libm record), implemented by the platform libm -- the same glibc
   that Rust's f64::sin / cos / atan2 and f32::acos call.  Trusted glue:
   only conversion between OCaml floats and the extracted Flocq values, always
   through the bit patterns (Model.D.bits / Model.D.of_bits). *)
open Model

external acosf_c : float -> float = "rm_acosf"

let rec pos_of_int64 (n : int64) : positive =
  (* n > 0, treated as unsigned *)
  if Int64.equal n 1L then XH
  else
    let q = Int64.shift_right_logical n 1 in
    if Int64.equal (Int64.logand n 1L) 0L then XO (pos_of_int64 q) else XI (pos_of_int64 q)

let z_of_bits64 (n : int64) : z = if Int64.equal n 0L then Z0 else Zpos (pos_of_int64 n)

let rec int64_of_pos (p : positive) : int64 =
  match p with
  | XH -> 1L
  | XO q -> Int64.shift_left (int64_of_pos q) 1
  | XI q -> Int64.logor (Int64.shift_left (int64_of_pos q) 1) 1L

let bits64_of_z (x : z) : int64 =
  match x with Z0 -> 0L | Zpos p -> int64_of_pos p | Zneg _ -> failwith "negative bit pattern"

let float_of_f64 (x : binary_float) : float = Int64.float_of_bits (bits64_of_z (D.bits x))
let f64_of_float (x : float) : binary_float = D.of_bits (z_of_bits64 (Int64.bits_of_float x))

let float_of_f32 (x : binary_float) : float =
  Int32.float_of_bits (Int64.to_int32 (bits64_of_z (S.bits x)))
let f32_of_float (x : float) : binary_float =
  (* x is exactly representable in binary32 (result of acosf), or NaN *)
  let b = Int64.logand (Int64.of_int32 (Int32.bits_of_float x)) 0xFFFFFFFFL in
  S.of_bits (z_of_bits64 b)

let oracle : libm = {
  l_sin = (fun x -> f64_of_float (Stdlib.sin (float_of_f64 x)));
  l_cos = (fun x -> f64_of_float (Stdlib.cos (float_of_f64 x)));
  l_atan2 = (fun y x -> f64_of_float (Float.atan2 (float_of_f64 y) (float_of_f64 x)));
  l_acosf = (fun x -> f32_of_float (acosf_c (float_of_f32 x)));
}

#!/bin/sh
# Builds the whole framework from files on disk, offline.
set -e
cd "$(dirname "$0")"
export CARGO_NET_OFFLINE=true
python3 translator/gen_constants.py
python3 regen.py
cd coq
coq_makefile -f _CoqProject -o Makefile >/dev/null
timeout 7000 make -j16 >/dev/null 2>make.err || { tail -40 make.err; exit 1; }
cd ../ocaml && ./build.sh
cd ../harness && cargo build --release --offline 2>&1 | tail -3
echo setup-ok

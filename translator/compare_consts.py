#!/usr/bin/env python3
"""Compare the constants kept in coq/Gen/Generated.v with the ones `rmh consts` derived by
running the compiled crate.

usage: compare_consts.py <consts.json> [Generated.v]

One line per Definition of Generated.v:
  SAME name                         the observed text is the kept text
  SAME name [by value]              the decimal text differs but the binary values (or the
                                    interval the constant was located in) agree
  SAME name [as a set]              a list the harness reports in canonical order has the kept rows
  SAME name [partial: ...]          only a function of the value is observable (a quotient, ...);
                                    the kept value gives the observed result
  DIFFERENT name kept=... observed=...
  UNOBSERVABLE name: why
Exit status 1 when a name is DIFFERENT or missing from the JSON file, else 0.
"""
import json
import os
import re
import struct
import sys
from fractions import Fraction

HERE = os.path.dirname(os.path.abspath(__file__))


def kept_definitions(path):
    out = []
    with open(path, encoding="utf-8") as f:
        for line in f:
            m = re.match(r"Definition (\w+)\b.*? := (.*)\.\s*$", line)
            if m:
                out.append((m.group(1), m.group(2)))
    return out


TRIPLE = re.compile(r"\((true|false), (\d+), \((-?\d+)\)\)")


def decimals(text):
    """the decimal triples of a kept value, as exact rationals"""
    out = []
    for neg, mant, exp in TRIPLE.findall(text):
        v = Fraction(int(mant)) * Fraction(10) ** int(exp)
        out.append(-v if neg == "true" else v)
    return out


def f64_of(fr):
    return float(fr)            # Fraction -> float is correctly rounded


def f64_bits(x):
    return struct.unpack("<Q", struct.pack("<d", x))[0]


def f64_from_bits(b):
    return struct.unpack("<d", struct.pack("<Q", b))[0]


def f32_from_bits(b):
    return struct.unpack("<f", struct.pack("<I", b))[0]


def f32_bits_of(fr):
    """bits of the f32 nearest to the rational (ties to even)"""
    try:
        guess = struct.unpack("<I", struct.pack("<f", float(fr)))[0]
    except OverflowError:
        return None
    best = None
    for b in (guess - 1, guess, guess + 1):
        if b < 0 or (b & 0x7F800000) == 0x7F800000:
            continue
        d = abs(Fraction(f32_from_bits(b)) - fr)
        if best is None or d < best[0] or (d == best[0] and b % 2 == 0):
            best = (d, b)
    return best[1] if best else None


def same_by_value(kept_text, entry):
    """None when no by-value comparison applies, else True/False"""
    ks = decimals(kept_text)
    if not ks:
        return None
    if "f64_interval" in entry and len(ks) == 1:
        lo, hi = (f64_from_bits(int(x, 16)) for x in entry["f64_interval"])
        if "f32_bits" in entry:
            b = f32_bits_of(ks[0])
            v = None if b is None else f32_from_bits(b)
        else:
            v = f64_of(ks[0])
        return v is not None and lo <= v < hi
    if "f64_bits" in entry:
        obs = [int(x, 16) for x in entry["f64_bits"]]
        return len(obs) == len(ks) and all(f64_bits(f64_of(k)) == o for k, o in zip(ks, obs))
    if "f32_bits" in entry:
        obs = [int(x, 16) for x in entry["f32_bits"]]
        return len(obs) == len(ks) and all(f32_bits_of(k) == o for k, o in zip(ks, obs))
    return None


def rows_of(text):
    """top-level elements of a Coq list `[a; b; ...]` (strings and nested brackets respected)"""
    text = text.strip()
    if not (text.startswith("[") and text.endswith("]")):
        return None
    rows, depth, cur, instr = [], 0, "", False
    for ch in text[1:-1]:
        if instr:
            cur += ch
            if ch == '"':
                instr = False
            continue
        if ch == '"':
            instr = True
        if ch in "([":
            depth += 1
        elif ch in ")]":
            depth -= 1
        if ch == ";" and depth == 0:
            rows.append(cur.strip())
            cur = ""
        else:
            cur += ch
    if cur.strip():
        rows.append(cur.strip())
    return rows


def partial_verdict(kept_text, part):
    """(same?, description) for an entry of which only a function is observable"""
    ks = decimals(kept_text)
    kind = part.get("kind")
    if not part.get("consistent", False):
        return False, f"{kind}: the observations are not consistent with each other"
    if kind == "pair_quotient_f64" and len(ks) == 2 and ks[1] != 0:
        got = [f64_bits(f64_of(ks[0]) / f64_of(ks[1]))]
        return got == [int(x, 16) for x in part["f64_bits"]], "quotient"
    if kind == "triple_over_third_f64" and len(ks) == 3 and ks[2] != 0:
        got = [f64_bits(f64_of(ks[0]) / f64_of(ks[2])), f64_bits(f64_of(ks[1]) / f64_of(ks[2]))]
        return got == [int(x, 16) for x in part["f64_bits"]], "bounds over the divisor"
    if kind == "quad_quotients_f32" and len(ks) == 4 and ks[1] != 0 and ks[3] != 0:
        # f32 constants divided in f32: both operands are rounded to f32 first
        def q(a, b):
            fa, fb = f32_from_bits(f32_bits_of(a)), f32_from_bits(f32_bits_of(b))
            return f32_bits_of(Fraction(fa) / Fraction(fb))
        got = [q(ks[0], ks[1]), q(ks[2], ks[3])]
        return got == [int(x, 16) for x in part["f32_bits"]], "two quotients"
    return False, f"unknown partial kind {kind!r} for this value"


def main():
    if len(sys.argv) < 2:
        print(__doc__)
        return 2
    with open(sys.argv[1], encoding="utf-8") as f:
        obs = json.load(f)
    gen = sys.argv[2] if len(sys.argv) > 2 else os.path.join(HERE, "..", "coq", "Gen", "Generated.v")
    counts = {"SAME": 0, "DIFFERENT": 0, "UNOBSERVABLE": 0}
    for name, kept in kept_definitions(gen):
        e = obs.get(name)
        if e is None:
            print(f"DIFFERENT {name} kept={kept} observed=<no entry in {sys.argv[1]}>")
            counts["DIFFERENT"] += 1
            continue
        v = e.get("value")
        if v is None:
            if "partial" in e:
                ok, what = partial_verdict(kept, e["partial"])
                if ok:
                    print(f"SAME {name} [partial: {what}]")
                    counts["SAME"] += 1
                else:
                    print(f"DIFFERENT {name} kept={kept} observed={json.dumps(e['partial'])} [partial: {what}]")
                    counts["DIFFERENT"] += 1
            else:
                print(f"UNOBSERVABLE {name}: {e.get('why', '')}")
                counts["UNOBSERVABLE"] += 1
            continue
        if v == kept:
            print(f"SAME {name}")
            counts["SAME"] += 1
            continue
        bv = same_by_value(kept, e)
        if bv:
            print(f"SAME {name} [by value]")
            counts["SAME"] += 1
            continue
        if e.get("unordered"):
            a, b = rows_of(kept), rows_of(v)
            if a is not None and b is not None and sorted(a) == sorted(b) and len(set(a)) == len(a):
                print(f"SAME {name} [as a set]")
                counts["SAME"] += 1
                continue
        print(f"DIFFERENT {name} kept={kept} observed={v}")
        counts["DIFFERENT"] += 1
    print(f"summary: {counts['SAME']} same, {counts['DIFFERENT']} different, {counts['UNOBSERVABLE']} unobservable")
    return 1 if counts["DIFFERENT"] else 0


if __name__ == "__main__":
    sys.exit(main())

#!/bin/sh
# translator/test_harmless.sh : runs only the translator on /repo's source with each kept
# behaviour-preserving change applied (scratch copies); prints the blocks it cannot read and any
# change of Generated.v (there must be none: the values did not change)
cd /verif
cp coq/Gen/Generated.v /tmp/Generated.keep.$$
for d in harmless/*/; do
  id=$(basename $d); S=/tmp/trh.$$; rm -rf $S; mkdir -p $S; cp -r /repo/src $S/src
  ( cd $S && git init -q . 2>/dev/null; git apply --unsafe-paths $OLDPWD/$d/patch.diff 2>/dev/null || patch -s -p1 < /verif/$d/patch.diff ) || { echo "$id: patch failed"; continue; }
  out=$(VERIF_REPO=$S python3 translator/gen_constants.py 2>&1); rc=$?
  ch=""; cmp -s coq/Gen/Generated.v /tmp/Generated.keep.$$ || ch=" GENERATED-CHANGED"
  echo "$id rc=$rc$ch $(echo "$out" | grep -c UNREADABLE) unreadable $(echo "$out" | grep UNREADABLE | cut -c1-160 | tr '\n' '|')"
  cp /tmp/Generated.keep.$$ coq/Gen/Generated.v
  rm -rf $S
done
python3 translator/gen_constants.py >/dev/null; rm -f /tmp/Generated.keep.$$

#!/usr/bin/env python3
"""Translator: regenerate coq/Gen/Generated.v from the current /repo sources.

Every table and constant the Coq model refers to is extracted from the Rust
source with an anchored pattern.  A pattern that no longer matches raises
TranslatorError (the check reports the tie as broken); a value that changed
shows up as a changed Generated.v, which breaks the `pin` lemmas in
coq/Properties/*.v and the proofs that depend on the value.

The file is only rewritten when its content changes, so an unchanged tree
costs no recompilation.
"""
import json
import os
import re
import sys

REPO = os.environ.get("VERIF_REPO", "/repo")
OUT = os.path.join(os.path.dirname(os.path.abspath(__file__)), "..", "coq", "Gen", "Generated.v")


class TranslatorError(Exception):
    pass


# ---- blocks -------------------------------------------------------------------------------
# The translation is cut into named blocks.  A block whose patterns no longer match the source
# (the code was re-shaped) does not stop the translation: its definitions are kept as they were
# read the last time the block could be translated (the text between its markers in the existing
# Generated.v), and the block is reported in translator_status.json together with the names it
# defines.  `check` then reports the tie as broken for exactly the properties whose proofs or
# model use one of those names (or that the block names explicitly), and for no other property.
L = []
FAILED = []
OLD_BLOCKS = {}


def load_old_blocks():
    OLD_BLOCKS.clear()
    try:
        with open(os.path.normpath(OUT), encoding="utf-8") as f:
            old = f.read()
    except OSError:
        return
    parts = re.split(r"^\(\* @block (\w+) \*\)\n", old, flags=re.M)
    for i in range(1, len(parts) - 1, 2):
        OLD_BLOCKS[parts[i]] = parts[i + 1]


class blk:
    def __init__(self, name, props=()):
        self.name, self.props = name, list(props)

    def __enter__(self):
        L.append(f"(* @block {self.name} *)")
        self.start = len(L)
        return self

    def __exit__(self, et, ev, tb):
        if et is None:
            return False
        if not issubclass(et, (TranslatorError, ValueError, KeyError, IndexError, AttributeError, NameError)):
            return False
        if self.name not in OLD_BLOCKS:
            return False           # nothing to fall back on: hard failure
        del L[self.start:]
        old = OLD_BLOCKS[self.name].rstrip("\n")
        if old:
            L.extend(old.split("\n"))
        names = re.findall(r"^Definition (\w+)", old, flags=re.M)
        FAILED.append({"block": self.name, "error": str(ev), "names": names, "props": self.props})
        return True


_CONSTS = None


def const_table():
    """every `const NAME: T = expr;` of the crate (associated consts included)"""
    global _CONSTS
    if _CONSTS is None:
        _CONSTS = {}
        for dp, _, fs in os.walk(os.path.join(REPO, "src")):
            for fn in fs:
                if fn.endswith(".rs"):
                    with open(os.path.join(dp, fn), encoding="utf-8") as f:
                        for m in re.finditer(r"\bconst\s+([A-Z][A-Z0-9_]*)\s*:\s*[^=;]+=\s*([^;]+);", f.read()):
                            _CONSTS.setdefault(m.group(1), set()).add(m.group(2).strip())
    return _CONSTS


def resolve(tok):
    """a literal written through a named constant (`LO`, `Self::LO`, `consts::LO`) -> its text"""
    tok = tok.strip()
    for _ in range(4):
        m = re.fullmatch(r"(-?)\s*(?:\w+::)*([A-Z][A-Z0-9_]*)", tok)
        if not m:
            break
        vals = const_table().get(m.group(2))
        if not vals or len(vals) != 1:
            break
        v = next(iter(vals))
        tok = ("-" + v if not v.startswith("-") else v[1:]) if m.group(1) else v
    return tok


def src(rel):
    with open(os.path.join(REPO, "src", rel), encoding="utf-8") as f:
        return f.read()


def must(pattern, text, what, flags=re.S):
    m = re.search(pattern, text, flags)
    if not m:
        # the same tokens laid out differently (line breaks, indentation, spaces around operators)
        m = re.search(pattern.replace(" ", r"\s*"), text, flags)
    if not m:
        # ... or with no layout at all: white space removed from the source and from the pattern
        # (rustfmt may break a method chain before any `.`)
        m = re.search(re.sub(r"\\s[*+]| ", "", pattern), re.sub(r"\s+", "", text), flags)
    if not m:
        raise TranslatorError(f"pattern for {what} not found")
    return m


def rust_int(tok):
    tok = resolve(tok)
    tok = re.sub(r"(?<=\d)_?(?:i32|u32|i64|u64|usize|u8|i8|u16|i16)$", "", tok.strip()).replace("_", "")
    if tok == "i32::MAX":
        return 2**31 - 1
    m = re.fullmatch(r"\(?\s*1\s*<<\s*(\d+)\s*\)?", tok)
    if m:
        return 1 << int(m.group(1))
    if re.fullmatch(r"-?\d+", tok):
        return int(tok)
    if re.fullmatch(r"0x[0-9A-Fa-f]+", tok):
        return int(tok, 16)
    raise TranslatorError(f"cannot read integer {tok!r}")


def rust_int_expr(tok):
    """ints joined by | """
    v = 0
    for part in tok.split("|"):
        v |= rust_int(part)
    return v


def dec(tok):
    """Rust float literal -> Coq term building the *decimal* (neg, m, e)."""
    tok = resolve(tok)
    tok = re.sub(r"(?<=[\d.])_?f(?:32|64)$", "", tok.strip()).replace("_", "")
    neg = tok.startswith("-")
    if neg:
        tok = tok[1:]
    m = re.fullmatch(r"(\d+)(?:\.(\d*))?", tok)
    if not m:
        raise TranslatorError(f"cannot read float literal {tok!r}")
    ip, fp = m.group(1), m.group(2) or ""
    mant = int(ip + fp)
    e = -len(fp)
    return f"({'true' if neg else 'false'}, {mant}, ({e}))"


def coq_str(s):
    return '"' + s.replace('"', '""') + '"'


def enum_variants(text, name):
    m = must(r"pub enum " + name + r"\s*\{(.*?)\}", text, f"enum {name}")
    out = []
    for line in m.group(1).splitlines():
        line = line.strip()
        if not line or line.startswith("//") or line.startswith("#"):
            continue
        out.append(line.rstrip(",").split("(")[0].strip())
    return out


def from_str_table(text, ty, what):
    """impl FromStr for ty { match s { "a" | "b" => Ok(Self::X), ... } }"""
    m = must(r"impl FromStr for " + ty + r"\s*\{.*?match \w+ \{(.*?)_ =>", text, what)
    rows = []
    for line in m.group(1).splitlines():
        line = line.strip()
        if not line:
            continue
        mm = re.fullmatch(r'((?:"[^"]*"\s*\|?\s*)+)=>\s*Ok\(Self::(\w+)\),', line)
        if not mm:
            raise TranslatorError(f"{what}: unrecognised arm {line!r}")
        for lit in re.findall(r'"([^"]*)"', mm.group(1)):
            rows.append((lit, mm.group(2)))
    return rows


def gen():
    del L[:]
    del FAILED[:]
    load_old_blocks()
    A = L.append
    A("(* GENERATED by translator/gen_constants.py from /repo/src -- do not edit. *)")
    A("From Coq Require Import ZArith String List.")
    A("Import ListNotations.")
    A("Local Open Scope Z_scope.")
    A("Local Open Scope string_scope.")
    A("")

    with blk("util_parse_number"):
        # ---- util/parse_number.rs
        t = src("util/parse_number.rs")
        m = must(r"pub const MAX_PARSE_VALUE: i32 = ([^;]+);", t, "MAX_PARSE_VALUE")
        A(f"Definition max_parse_value : Z := {rust_int(m.group(1))}.")

    with blk("format_version"):
        # ---- format_version.rs
        t = src("format_version.rs")
        m = must(r'const VERSION_PREFIX: &str = "([^"]*)";', t, "VERSION_PREFIX")
        A(f"Definition version_prefix : string := {coq_str(m.group(1))}.")
        m = must(r"pub const LATEST_FORMAT_VERSION: i32 = ([^;]+);", t, "LATEST_FORMAT_VERSION")
        A(f"Definition latest_format_version : Z := {rust_int(m.group(1))}.")

    with blk("mod"):
        # ---- section/mod.rs
        t = src("section/mod.rs")
        variants = enum_variants(t, "Section")
        m = must(r"let section = match section \{(.*?)_ => return None", t, "Section::try_from_line arms")
        rows = []
        for line in m.group(1).splitlines():
            line = line.strip()
            if not line:
                continue
            mm = re.fullmatch(r'"([^"]*)" => Self::(\w+),', line)
            if not mm:
                raise TranslatorError(f"Section arm {line!r}")
            rows.append((mm.group(1), variants.index(mm.group(2))))
        A("(* Section::try_from_line: header name -> index into the Section enum *)")
        A("Definition section_variants : list string := [" + "; ".join(coq_str(v) for v in variants) + "].")
        A("Definition section_table : list (string * Z) := [" + "; ".join(f"({coq_str(a)}, {b})" for a, b in rows) + "].")
        must(r"line\.strip_prefix\('\['\)\?\.strip_suffix\('\]'\)\?", t, "Section bracket stripping")

    with blk("key_enums"):
        # ---- key enums
        for rel, name, coqname in [
            ("section/general/decode.rs", "GeneralKey", "general_keys"),
            ("section/editor.rs", "EditorKey", "editor_keys"),
            ("section/metadata.rs", "MetadataKey", "metadata_keys"),
            ("section/difficulty.rs", "DifficultyKey", "difficulty_keys"),
        ]:
            vs = enum_variants(src(rel), name)
            A(f"Definition {coqname} : list string := [" + "; ".join(coq_str(v) for v in vs) + "].")

    with blk("general_mod"):
        # ---- from_str tables
        t = src("section/general/mod.rs")
        gm = enum_variants(t, "GameMode")
        rows = from_str_table(t, "GameMode", "GameMode::from_str")
        A("Definition game_mode_table : list (string * Z) := [" + "; ".join(f"({coq_str(a)}, {gm.index(b)})" for a, b in rows) + "].")
        cd = enum_variants(t, "CountdownType")
        rows = from_str_table(t, "CountdownType", "CountdownType::from_str")
        A("Definition countdown_table : list (string * Z) := [" + "; ".join(f"({coq_str(a)}, {cd.index(b)})" for a, b in rows) + "].")

    with blk("events_mod"):
        t = src("section/events/mod.rs")
        ev = enum_variants(t, "EventType")
        rows = from_str_table(t, "EventType", "EventType::from_str")
        A("Definition event_type_variants : list string := [" + "; ".join(coq_str(v) for v in ev) + "].")
        A("Definition event_type_table : list (string * Z) := [" + "; ".join(f"({coq_str(a)}, {ev.index(b)})" for a, b in rows) + "].")
        m = must(r"pub const MIN_BREAK_DURATION: f64 = ([^;]+);", t, "MIN_BREAK_DURATION")
        A(f"Definition min_break_duration_dec : bool * Z * Z := {dec(m.group(1))}.")

    with blk("events_decode"):
        t = src("section/events/decode.rs")
        m = must(r"const VIDEO_EXTENSIONS: &\[\[u8; 3\]\] = &\[(.*?)\];", t, "VIDEO_EXTENSIONS")
        exts = re.findall(r'\*b"(\w{3})"', m.group(1))
        if not exts:
            raise TranslatorError("VIDEO_EXTENSIONS empty")
        A("Definition video_extensions : list string := [" + "; ".join(coq_str(e) for e in exts) + "].")

    with blk("hit_objects_hit_samples"):
        t = src("section/hit_objects/hit_samples.rs")
        sb = enum_variants(t, "SampleBank")
        rows = from_str_table(t, "SampleBank", "SampleBank::from_str")
        A("Definition sample_bank_variants : list string := [" + "; ".join(coq_str(v) for v in sb) + "].")
        A("Definition sample_bank_table : list (string * Z) := [" + "; ".join(f"({coq_str(a)}, {sb.index(b)})" for a, b in rows) + "].")
        m = must(r"impl TryFrom<i32> for SampleBank \{.*?match bank \{(.*?)_ =>", t, "SampleBank::try_from")
        rows = []
        for line in m.group(1).splitlines():
            line = line.strip()
            if not line:
                continue
            mm = re.fullmatch(r"([\w:]+) => Ok\(Self::(\w+)\),", line)
            if not mm:
                raise TranslatorError(f"SampleBank::try_from arm {line!r}")
            rows.append((rust_int(mm.group(1)), sb.index(mm.group(2))))
        A("Definition sample_bank_of_int : list (Z * Z) := [" + "; ".join(f"({a}, {b})" for a, b in rows) + "].")
        for nm in ["NONE", "NORMAL", "WHISTLE", "FINISH", "CLAP"]:
            m = must(r"pub const " + nm + r": u8 = ([^;]+);", t, f"HitSoundType::{nm}")
            A(f"Definition hitsound_{nm.lower()} : Z := {rust_int(m.group(1))}.")

    with blk("hit_objects_mod"):
        t = src("section/hit_objects/mod.rs")
        for nm in ["CIRCLE", "SLIDER", "NEW_COMBO", "SPINNER", "COMBO_OFFSET", "HOLD"]:
            m = must(r"pub const " + nm + r": i32 = ([^;]+);", t, f"HitObjectType::{nm}")
            A(f"Definition hot_{nm.lower()} : Z := {rust_int_expr(m.group(1))}.")
        m = must(r"pub\(crate\) const BASE_SCORING_DIST: f32 = ([^;]+);", t, "BASE_SCORING_DIST")
        A(f"Definition base_scoring_dist_dec : bool * Z * Z := {dec(m.group(1))}.")

    with blk("timing_points_effect_flags"):
        t = src("section/timing_points/effect_flags.rs")
        for nm in ["NONE", "KIAI", "OMIT_FIRST_BAR_LINE"]:
            m = must(r"pub const " + nm + r": i32 = ([^;]+);", t, f"EffectFlags::{nm}")
            A(f"Definition effect_{nm.lower()} : Z := {rust_int(m.group(1))}.")

    with blk("hit_objects_decode"):
        t = src("section/hit_objects/decode.rs")
        m = must(r"const MAX_COORDINATE_VALUE: i32 = ([^;]+);", t, "MAX_COORDINATE_VALUE")
        A(f"Definition max_coordinate_value : Z := {rust_int(m.group(1))}.")
        m = must(r"if repeat_count > ([\w:]+) \{", t, "repeat cap")
        A(f"Definition repeat_cap : Z := {rust_int(m.group(1))}.")
        m = must(r"const CONTROL_POINT_LENIENCY: f64 = ([^;]+);", t, "CONTROL_POINT_LENIENCY")
        A(f"Definition control_point_leniency_dec : bool * Z * Z := {dec(m.group(1))}.")
        m = must(r"GameMode::Osu \| GameMode::Catch => \{\s*\(-slider_velocity_as_beat_len\)\.clamp\(([^,]+), ([^)]+)\) / (-?[\w.:]+)\s*\}", t, "bpm clamp osu/catch")
        A(f"Definition bpm_clamp_std : (bool*Z*Z) * (bool*Z*Z) * (bool*Z*Z) := ({dec(m.group(1))}, {dec(m.group(2))}, {dec(m.group(3))}).")
        m = must(r"GameMode::Taiko \| GameMode::Mania => \{\s*\(-slider_velocity_as_beat_len\)\.clamp\(([^,]+), ([^)]+)\) / (-?[\w.:]+)\s*\}", t, "bpm clamp taiko/mania")
        A(f"Definition bpm_clamp_tm : (bool*Z*Z) * (bool*Z*Z) * (bool*Z*Z) := ({dec(m.group(1))}, {dec(m.group(2))}, {dec(m.group(3))}).")
        m = must(r"Pos::new\((-?[\w.:]+) / (-?[\w.:]+), (-?[\w.:]+) / (-?[\w.:]+)\)", t, "spinner centre")
        A(f"Definition spinner_pos_dec : (bool*Z*Z) * (bool*Z*Z) * (bool*Z*Z) * (bool*Z*Z) := ({dec(m.group(1))}, {dec(m.group(2))}, {dec(m.group(3))}, {dec(m.group(4))}).")

    with blk("difficulty"):
        t = src("section/difficulty.rs")
        m = must(r"slider_multiplier = f64::parse\(value\)\?\.clamp\(([^,]+), ([^)]+)\);", t, "slider multiplier clamp")
        A(f"Definition slider_mult_clamp : (bool*Z*Z) * (bool*Z*Z) := ({dec(m.group(1))}, {dec(m.group(2))}).")
        m = must(r"slider_tick_rate = f64::parse\(value\)\?\.clamp\(([^,]+), ([^)]+)\);", t, "tick rate clamp")
        A(f"Definition tick_rate_clamp : (bool*Z*Z) * (bool*Z*Z) := ({dec(m.group(1))}, {dec(m.group(2))}).")
        m = must(r"impl Default for Difficulty \{.*?Self \{(.*?)\}", t, "Difficulty::default")
        dd = dict(re.findall(r"(\w+): (-?[\w.:]+),", m.group(1)))
        for k in ["hp_drain_rate", "circle_size", "overall_difficulty", "approach_rate", "slider_multiplier", "slider_tick_rate"]:
            if k not in dd:
                raise TranslatorError(f"Difficulty default {k}")
            A(f"Definition default_{k}_dec : bool * Z * Z := {dec(dd[k])}.")

    with blk("general_decode"):
        t = src("section/general/decode.rs")
        m = must(r"impl Default for General \{.*?Self \{(.*?)\n        \}", t, "General::default")
        body = m.group(1)
        mm = must(r"preview_time: (-?[\w:]+),", body, "General default preview_time")
        A(f"Definition default_preview_time : Z := {rust_int(mm.group(1))}.")
        mm = must(r"default_sample_volume: (-?[\w:]+),", body, "General default sample volume")
        A(f"Definition default_sample_volume : Z := {rust_int(mm.group(1))}.")
        mm = must(r"stack_leniency: (-?[\w.:]+),", body, "General default stack leniency")
        A(f"Definition default_stack_leniency_dec : bool * Z * Z := {dec(mm.group(1))}.")
        mm = must(r"countdown: CountdownType::(\w+),", body, "General default countdown")
        A(f"Definition default_countdown : Z := {cd.index(mm.group(1))}.")

    with blk("editor"):
        t = src("section/editor.rs")
        m = must(r"impl Default for Editor \{.*?Self \{(.*?)\n        \}", t, "Editor::default")
        body = m.group(1)
        mm = must(r"distance_spacing: (-?[\w.:]+),", body, "Editor default distance_spacing")
        A(f"Definition default_distance_spacing_dec : bool * Z * Z := {dec(mm.group(1))}.")
        mm = must(r"beat_divisor: (-?[\w:]+),", body, "Editor default beat_divisor")
        A(f"Definition default_beat_divisor : Z := {rust_int(mm.group(1))}.")
        mm = must(r"timeline_zoom: (-?[\w.:]+),", body, "Editor default timeline_zoom")
        A(f"Definition default_timeline_zoom_dec : bool * Z * Z := {dec(mm.group(1))}.")

    with blk("metadata"):
        t = src("section/metadata.rs")
        m = must(r"impl Default for Metadata \{.*?Self \{(.*?)\n        \}", t, "Metadata::default")
        mm = must(r"beatmap_id: (-?[\w:]+),", m.group(1), "Metadata default beatmap_id")
        A(f"Definition default_beatmap_id : Z := {rust_int(mm.group(1))}.")

    with blk("timing_points_control_points_timing"):
        # ---- control points
        t = src("section/timing_points/control_points/timing.rs")
        m = must(r"beat_len: beat_len\.clamp\(([^,]+), ([^)]+)\),", t, "beat_len clamp")
        A(f"Definition beat_len_clamp : (bool*Z*Z) * (bool*Z*Z) := ({dec(m.group(1))}, {dec(m.group(2))}).")
        m = must(r"pub const DEFAULT_BEAT_LEN: f64 = (-?[\w.:]+) / (-?[\w.:]+);", t, "DEFAULT_BEAT_LEN")
        A(f"Definition default_beat_len_dec : (bool*Z*Z) * (bool*Z*Z) := ({dec(m.group(1))}, {dec(m.group(2))}).")

    with blk("timing_points_control_points_difficulty"):
        t = src("section/timing_points/control_points/difficulty.rs")
        m = must(r"slider_velocity: speed_multiplier\.clamp\(([^,]+), ([^)]+)\),", t, "slider velocity clamp")
        A(f"Definition slider_velocity_clamp : (bool*Z*Z) * (bool*Z*Z) := ({dec(m.group(1))}, {dec(m.group(2))}).")

    with blk("timing_points_control_points_sample"):
        t = src("section/timing_points/control_points/sample.rs")
        m = must(r"sample_volume: sample_volume\.clamp\(([\w:]+), ([\w:]+)\),", t, "sample volume clamp")
        A(f"Definition sample_volume_clamp : Z * Z := ({rust_int(m.group(1))}, {rust_int(m.group(2))}).")

    with blk("timing_points_decode"):
        t = src("section/timing_points/decode.rs")
        m = must(r"effect\.scroll_speed = speed_multiplier\.clamp\(([^,]+), ([^)]+)\);", t, "scroll speed clamp")
        A(f"Definition scroll_speed_clamp : (bool*Z*Z) * (bool*Z*Z) := ({dec(m.group(1))}, {dec(m.group(2))}).")
        must(r"matches!\(state\.general\.mode, GameMode::Taiko \| GameMode::Mania\)", t, "scroll speed mode guard")

    with blk("timing_points_grammar"):
        # ---- [TimingPoints] line grammar (C12)
        t = src("section/timing_points/decode.rs")
        m = must(r"matches!\(state\.general\.mode, ((?:GameMode::\w+(?: \| )?)+)\) \{\s*effect\.scroll_speed =", t, "scroll speed modes")
        gm = enum_variants(src("section/general/mod.rs"), "GameMode")
        A("Definition tp_scroll_modes : list Z := [" + "; ".join(str(gm.index(v)) for v in re.findall(r"GameMode::(\w+)", m.group(1))) + "].")
        m = must(r"let speed_multiplier = if beat_len < 0\.0 \{\s*(-?[\w.:]+) / -beat_len\s*\} else \{\s*1\.0\s*\};", t, "speed multiplier")
        A(f"Definition tp_speed_num_dec : bool * Z * Z := {dec(m.group(1))}.")
        must(r"pending_control_points_time: 0\.0,", t, "initial pending time 0.0")
        must(r"if \(time - self\.pending_control_points_time\)\.abs\(\) >= f64::EPSILON \{", t, "flush condition")
        m = must(r"if !matches!\(next\.chars\(\)\.next\(\), Some\('(.)'\)\) \{\s*time_signature =", t, "time signature skip prefix")
        A(f"Definition tp_sig_skip_char : Z := {ord(m.group(1))}.")
        m = must(r"let timing_change = split\s*\.next\(\)\s*\.map_or\(true, \|next\| matches!\(next\.chars\(\)\.next\(\), Some\('(.)'\)\)\);", t, "timing_change prefix")
        A(f"Definition tp_timing_change_char : Z := {ord(m.group(1))}.")
        m = must(r"let custom_sample_bank = split\.next\(\)\.map\(i32::parse\)\.transpose\(\)\?\.unwrap_or\((-?[\w:]+)\);", t, "default custom sample bank")
        A(f"Definition tp_default_custom_bank : Z := {rust_int(m.group(1))}.")
        must(r"if sample_set == SampleBank::None \{\s*sample_set = SampleBank::Normal;", t, "bank None -> Normal")
        t2 = src("section/timing_points/control_points/timing.rs")
        m = must(r"pub const fn new_simple_quadruple\(\) -> Self \{[^}]*?NonZeroU32::new_unchecked\(([\w:]+)\)", t2, "TimeSignature::new_simple_quadruple")
        A(f"Definition tp_default_signature : Z := {rust_int(m.group(1))}.")

    with blk("hit_objects_slider_curve"):
        # ---- curves
        t = src("section/hit_objects/slider/curve.rs")
        m = must(r"const BEZIER_TOLERANCE: f32 = ([^;]+);", t, "BEZIER_TOLERANCE")
        A(f"Definition bezier_tolerance_dec : bool * Z * Z := {dec(m.group(1))}.")
        m = must(r"const CATMULL_DETAIL: usize = ([^;]+);", t, "CATMULL_DETAIL")
        A(f"Definition catmull_detail : Z := {rust_int(m.group(1))}.")
        m = must(r"const CIRCULAR_ARC_TOLERANCE: f32 = ([^;]+);", t, "CIRCULAR_ARC_TOLERANCE")
        A(f"Definition circular_arc_tolerance_dec : bool * Z * Z := {dec(m.group(1))}.")
        m = must(r"if sub_points >= ([\w:]+) \{", t, "arc sub-point cap")
        A(f"Definition arc_subpoint_cap : Z := {rust_int(m.group(1))}.")
        m = must(r"if dist_from_start > (-?[\w.:]+)", t, "catmull simplification distance")
        A(f"Definition catmull_simplify_dist_dec : bool * Z * Z := {dec(m.group(1))}.")
        # calculate_length: a requested length is dropped only when it does not differ from the
        # calculated one (exact comparison; the model's keeps_natural mirrors this text)
        m = must(r"if let Some\(expected_len\) =\s*expected_len\.filter\(\|&len\| \(calculated_len - len\)\.abs\(\) (\S+) ([^)\s]+)\)\s*\{",
                 t, "calculate_length filter on the requested length")
        if (m.group(1), m.group(2)) != (">", "0.0"):
            raise TranslatorError("calculate_length filter is not `(calculated_len - len).abs() > 0.0` "
                                  f"(found `{m.group(1)} {m.group(2)}`): the curve model (Model/Curve.v, calculate_length) "
                                  "compares exactly")

    with blk("hit_objects_slider_event"):
        # ---- slider events
        t = src("section/hit_objects/slider/event.rs")
        m = must(r"const MAX_LEN: f64 = ([^;]+);", t, "MAX_LEN")
        A(f"Definition slider_max_len_dec : bool * Z * Z := {dec(m.group(1))}.")
        m = must(r"const TAIL_LENIENCY: f64 = ([^;]+);", t, "TAIL_LENIENCY")
        A(f"Definition tail_leniency_dec : bool * Z * Z := {dec(m.group(1))}.")
        m = must(r"min_dist_from_end: velocity \* (-?[\w.:]+),", t, "min_dist_from_end factor")
        A(f"Definition min_dist_from_end_factor_dec : bool * Z * Z := {dec(m.group(1))}.")

    with blk("hit_objects_slider_path_type"):
        # ---- slider path type letters (PathType::new_from_str), for C14
        t = src("section/hit_objects/slider/path_type.rs")
        m = must(r"pub fn new_from_str\(input: &str\) -> Self \{(.*?)\n    \}", t, "PathType::new_from_str")
        body = m.group(1)
        mm = must(r"Some\('(.)'\) => \{.*?return Self::new_b_spline\(degree\);.*?Self::BEZIER\s*\}", body, "PathType letter for b-spline")
        A(f"Definition path_letter_bspline : Z := {ord(mm.group(1))}.")
        mm = must(r"Some\('(.)'\) => Self::LINEAR,", body, "PathType letter for linear")
        A(f"Definition path_letter_linear : Z := {ord(mm.group(1))}.")
        mm = must(r"Some\('(.)'\) => Self::PERFECT_CURVE,", body, "PathType letter for perfect curve")
        A(f"Definition path_letter_perfect : Z := {ord(mm.group(1))}.")
        must(r"_ => Self::CATMULL,", body, "PathType default catmull")

    with blk("reader_encoding"):
        # ---- reader
        t = src("reader/encoding.rs")
        m = must(r"pub const fn from_bom\(bom: &\[u8\]\) -> \(Self, usize\) \{\s*match bom \{(.*?)\n        \}", t, "Encoding::from_bom")
        encs = enum_variants(t, "Encoding")
        rows = []
        for line in m.group(1).splitlines():
            line = line.strip()
            if not line:
                continue
            mm = re.fullmatch(r"\[((?:0x[0-9A-Fa-f]{2}, )+)\.\.\] => \(Self::(\w+), ([\w:]+)\),", line)
            if mm:
                bs = [int(x, 16) for x in re.findall(r"0x[0-9A-Fa-f]{2}", mm.group(1))]
                rows.append((bs, encs.index(mm.group(2)), rust_int(mm.group(3))))
                continue
            mm = re.fullmatch(r"_ => \(Self::(\w+), ([\w:]+)\),", line)
            if mm:
                rows.append(([], encs.index(mm.group(1)), rust_int(mm.group(2))))
                continue
            raise TranslatorError(f"from_bom arm {line!r}")
        A("(* Encoding::from_bom: (prefix bytes, encoding index, bytes consumed), first match wins *)")
        A("Definition encoding_variants : list string := [" + "; ".join(coq_str(v) for v in encs) + "].")
        A("Definition bom_table : list (list Z * Z * Z) := [" + "; ".join("([" + "; ".join(map(str, b)) + f"], {e}, {n})" for b, e, n in rows) + "].")

    with blk("reader_decoder"):
        t = src("reader/decoder.rs")
        # read_bom: the repaired shape collects up to N bytes over several chunks
        # (`while head.len() < N`); the shape before the repair of D4 looked at one
        # chunk and dropped chunks shorter than N (`if len >= N || len == 0`).
        m = re.search(r"while head\.len\(\) < ([\w:]+) \{", t)
        if m:
            n = rust_int(m.group(1))
            m2 = must(r"let len = available\.len\(\)\.min\(([\w:]+) - head\.len\(\)\);", t, "read_bom bytes taken per chunk")
            m3 = must(r"let mut head = Vec::with_capacity\(([\w:]+)\);", t, "read_bom head buffer")
            if rust_int(m2.group(1)) != n or rust_int(m3.group(1)) != n:
                raise TranslatorError("read_bom: the three occurrences of the BOM length disagree")
            must(r"inner: Cursor::new\(head\)\.chain\(inner\),", t, "Decoder::new chains the collected head before the reader")
            A("(* read_bom collects up to this many bytes (over several chunks) before from_bom *)")
            A(f"Definition read_bom_min_len : Z := {n}.")
            A("Definition read_bom_accumulates : bool := true.")
        else:
            m = must(r"if len >= ([\w:]+) \|\| len == 0 \{", t, "read_bom minimum chunk")
            A(f"Definition read_bom_min_len : Z := {rust_int(m.group(1))}.")
            A("Definition read_bom_accumulates : bool := false.")
        # read_line: since the repair of D5 a byte 0x0A ends a UTF-16 line only as a code unit of its
        # own (the loop around read_until); before, the first byte 0x0A ended the line.
        if re.search(r"while self\.inner\.read_until\(b'\\n', &mut self\.read_buf\)\? > 0\s*&& self\.read_buf\.ends_with\(b\"\\n\"\)\s*\{", t):
            must(r"Encoding::Utf8 => break,", t, "read_line: UTF-8 arm")
            must(r"Encoding::Utf16BE => \{\s*if len % 2 == 0 && self\.read_buf\[len - 2\] == 0 \{\s*break;", t, "read_line: UTF-16BE arm")
            must(r"Encoding::Utf16LE if len % 2 == 0 => \{\}", t, "read_line: UTF-16LE arm, 0x0A as high byte")
            must(r"if matches!\(high, Some\(0\) \| None\) \{\s*break;", t, "read_line: UTF-16LE arm, high byte test")
            must(r"if self\.read_buf\.is_empty\(\) \{\s*return Ok\(None\);", t, "read_line: end of stream")
            A("(* Decoder::read_line ends a UTF-16 line at a code unit 0x000A only *)")
            A("Definition read_line_unit_aligned : bool := true.")
        else:
            must(r"if self\.inner\.read_until\(b'\\n', &mut self\.read_buf\)\? == 0 \{", t, "read_line (shape before the repair of D5)")
            A("Definition read_line_unit_aligned : bool := false.")

    with blk("colors_decode"):
        # ---- C11 additions: colours, flag value, positions the section parsers hard-wire
        t = src("section/colors/decode.rs")
        m = must(r'if s\.starts_with\("([^"]*)"\) \{\s*Ok\(Self::Combo\)', t, "ColorsKey combo prefix")
        A(f"Definition colors_combo_prefix : string := {coq_str(m.group(1))}.")

    with blk("colors_mod"):
        t = src("section/colors/mod.rs")
        m = must(r"Ok\(Self::new\(r\.parse\(\)\?, g\.parse\(\)\?, b\.parse\(\)\?, ([\w:]+)\)\)", t, "Color::from_str alpha")
        A(f"Definition color_default_alpha : Z := {rust_int(m.group(1))}.")

    with blk("general_decode_2"):
        t = src("section/general/decode.rs")
        flags = re.findall(r"state\.(\w+) = i32::parse\(value\)\? == ([\w:]+);?", t)
        if len(flags) != 5 or len({v for _, v in flags}) != 1:
            raise TranslatorError(f"General flag conversions not recognised: {flags!r}")
        A(f"Definition flag_true_value : Z := {rust_int(flags[0][1])}.")
        A("Definition general_flag_fields : list string := [" + "; ".join(coq_str(f) for f, _ in flags) + "].")

    return "\n".join(L) + "\n"


def main():
    out = os.path.normpath(OUT)
    status = os.path.join(os.path.dirname(out), "translator_status.json")
    try:
        text = gen()
    except (TranslatorError, OSError) as e:
        print(f"TRANSLATOR-ERROR: {e}")
        with open(status, "w") as f:
            json.dump({"hard_failure": str(e), "failed": []}, f, indent=1)
        return 2
    with open(status, "w") as f:
        json.dump({"failed": FAILED}, f, indent=1)
    old = None
    if os.path.exists(out):
        with open(out, encoding="utf-8") as f:
            old = f.read()
    if old != text:
        os.makedirs(os.path.dirname(out), exist_ok=True)
        with open(out, "w", encoding="utf-8") as f:
            f.write(text)
        print("Generated.v rewritten")
    else:
        print("Generated.v unchanged")
    for fb in FAILED:
        print(f"TRANSLATOR-BLOCK-UNREADABLE: {fb['block']}: {fb['error']} (kept: {', '.join(fb['names'])})")
    return 3 if FAILED else 0


if __name__ == "__main__":
    sys.exit(main())

#!/bin/sh
# seedtest_scratch.sh <patch.diff> <tier> <prop> [<prop>...]
# Like seedtest.sh but leaves /repo alone (safe while other jobs build against
# /repo): works on a scratch copy of /verif and a scratch worktree of /repo.
patch="$(realpath "$1")"; tier="$2"; shift 2
S=/tmp/st.$$
mkdir -p $S
rsync -a --exclude .git --exclude work --exclude replays /verif/ $S/verif/
git -C /repo worktree add -q --detach $S/repo HEAD || exit 2
cleanup() { git -C /repo worktree remove --force $S/repo 2>/dev/null; rm -rf $S; }
trap cleanup EXIT INT TERM
( cd $S/repo && git apply "$patch" ) || { echo "patch does not apply"; exit 2; }
sed -i "s|path = \"/repo\"|path = \"$S/repo\"|" $S/verif/harness/Cargo.toml
cd $S/verif
for p in "$@"; do
  out=$(VERIF_REPO=$S/repo ./check "$p" --tier "$tier" 2>&1); rc=$?
  if [ $rc -ne 0 ]; then
    echo "DETECTED $p: $(echo "$out" | grep '^VIOLATION' | head -1)"
    echo "$out" | grep -E "broken:|^$p " | head -4 | sed 's/^/    /' | cut -c1-400
    cat $S/verif/replays/$p-*.json 2>/dev/null | head -c 1200; echo
  else
    echo "MISSED $p"; echo "$out" | tail -2 | cut -c1-300
  fi
done

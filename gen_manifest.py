#!/usr/bin/env python3
"""Writes MANIFEST.json from the table below (one entry per claimed property)."""
import json
import os

ROOT = os.path.dirname(os.path.abspath(__file__))

NOTE = ("Trusted: Coq 8.16.1 kernel (+vm_compute), the four classical/real-number axioms Flocq's definitions "
        "depend on (named in evidence), Flocq as the meaning of f32/f64, the hand-written model tied to the code only "
        "by the translator (constants/tables) and the correspondence check (behaviour), extraction with "
        "ExtrOcamlBasic, ocaml/driver.ml, the Rust harness and Rust std.")
TECH = ("machine-checked proof in Coq over an executable Gallina model; model-vs-code correspondence check "
        "(extracted OCaml vs Rust, bit-exact) and independent implementation-side oracle for the failing input")

CLAIMS = {
    "C13": ("Unbounded theorems (coq/Properties/C13.v): every add history through the public API keeps all four lists "
            "strictly sorted and never panics (induction over the history; the transcribed std binary search is proved to "
            "meet its contract); exact characterisation of add (redundant => unchanged, else insert/replace at its own "
            "time, other lists untouched) and of the four lookups (latest point not after t; first point / nothing "
            "before the first). Tie to the code: bit-exact correspondence of the extracted model with "
            "ControlPoints::add/*_point_at on exhaustive small-alphabet and random histories, plus a linear-scan oracle.",
            "§6 C13"),
    "C10": ("Unbounded theorems (coq/Properties/C10.v, axiom-free): UTF-8 / UTF-16LE / UTF-16BE codec round trips for every "
            "scalar string; unpaired surrogates become U+FFFD; the hand-written lossy loop of encoding.rs equals a one-pass "
            "lossy_spec automaton for ALL byte lists (never out of fuel; the unchecked prefix always validates) and is "
            "local to the line (lossy (a++[LF]++b) = lossy a ++ [LF] ++ lossy b); the four encodings of a text give the "
            "same lines for every faultless schedule outside the recorded classes D4/D5/D6 (each refuted with a witness). "
            "Tie to the code: bit-exact correspondence of Encoding::decode, std from_utf8 error positions, decode_utf16, "
            "from_bom and the LineDecoder line stream; oracle: same Beatmap in all four encodings, per-line "
            "from_utf8_lossy / from_utf16_lossy, every scalar value as Title content (thorough).",
            "§6 C10"),
    "C08": ("Unbounded theorems (coq/Properties/C08.v, axiom-free): the BufRead contract as an explicit schedule of chunks, "
            "Interrupted and failures; read_until / read_exact / read_bom / read_line transcribed; for any two faultless "
            "schedules with a good start (first non-empty chunk >= 3 bytes or the whole stream) read_all_lines gives the "
            "same lines = decode_stream bytes; Interrupted is transparent for all schedules; never a panic, fuel "
            "sufficient. The unrestricted statement is refuted with a witness (D4: read_bom discards chunks shorter than "
            "3 bytes). Tie to the code: a schedule-driven BufRead under LineDecoder, fixed chunk sizes 1..64, random "
            "schedules, Interrupted placements; oracle: schedule reader / BufReader capacities 1..16 / from_str / "
            "from_path / dribbling Read all equal from_bytes.",
            "§6 C08"),
    "C09": ("Unbounded theorems (coq/Properties/C09.v, axiom-free): a hard failure reached by the reader schedule is returned "
            "(never Done), since the driver reads to EOF; Interrupted transparent; writer side for an arbitrary chunk list: "
            "any failure or Ok(0) before everything is accepted yields the error (WriteZero for Ok(0)), no write is issued "
            "after the first failure, the accepted bytes are a prefix, short writes and Interrupted are retried, flush "
            "failure returned, never a panic. Tie to the code: error of each of 5 kinds at every byte offset of bundled "
            "files under the schedule reader; Beatmap::encode into a schedule Write with failure / zero-length / short "
            "writes at every output offset, the recorded chunk sequence replayed through the model.",
            "§6 C09"),
    "C15": ("Unbounded theorems (coq/Properties/C15.v), for ANY curve-distance function: the processed object list carries the "
            "start times of the STABLE sort of the file-order list (permutation, ordered, equal keys keep file order), same "
            "length; break post-processing only sets new-combo flags (never on holds), consumes exactly the breaks that "
            "ended before the object, and with chronologically ordered breaks forces the first object after a break; "
            "sliders get velocity = 100*SM/(beat_len*clamp(100/sv)/100) literally, duration = spans*dist/velocity, node "
            "and object samples from the sample point 5 ms after each node / the end by the SamplePoint::apply rules; "
            "constants pinned. PARTIAL: shift invariance (T15d) is not proved, only tested by the oracle on integer times "
            "and shifts. Tie to the code: implementation-side oracle written from the property text (stable order incl. "
            ">20 ties, breaks, closed-form velocity/duration, sample defaults, shifts in [-1e6,1e6]); correspondence of the "
            "decoder models on the same files.",
            "§6 C15"),
    "C11": ("Unbounded theorems (coq/Properties/C11.v): each of the six section parsers equals a table-driven "
            "specification written from the property text, for every state and line (key table, conversion, field); "
            "rejected or unknown records leave the state untouched; last valid occurrence wins (generic fold lemma); "
            "exact acceptance sets of the i32/u8/f32/f64 number parsers (grammar incl. dec2flt exponent saturation, "
            "limits, NaN); clamp ranges for slider multiplier / tick rate; approach rate follows overall difficulty until "
            "set; breaks have start <= end; background precedence; all tables and constants pinned against the generated "
            "ones. Deviations are refuted with witnesses and recorded (D1 first-colon, D10 bookmarks, D14 f32 limit). Tie "
            "to the code: bit-exact correspondence through the public parse_* functions over every key x value class x "
            "decoration, numeric stress streams, plus an independent table-driven reference oracle.",
            "§6 C11"),
    "C14": ("Unbounded theorems (coq/Properties/C14.v): parse_hit_objects equals a declarative line_spec for all states and "
            "lines and never panics (index loops of convert_points/convert_path_str modelled with checked arithmetic); "
            "position truncation, kind precedence, combo offset, forced new combo, repeat cap 9000 and node count, length "
            "rule, non-negative spinner/hold durations (Flocq comparisons), convert_path_str = structural path_spec by "
            "induction over tokens, sample table; what a rejected line can leave behind (C06 facts). Recorded deviations: "
            "D3 (residue of a rejected multi-segment slider), D15 (spinner bit remembered from a circle/slider). Tie to the "
            "code: bit-exact correspondence through HitObjects::parse_hit_objects on field-wise generated line sequences "
            "(exhaustive 256x256 type/sound bytes in the thorough tier) plus an independent reference parser.",
            "§6 C14"),
    "C12": ("Unbounded theorems (coq/Properties/C12.v): the pending-option state machine of parse_timing_points "
            "(push_front/push_back, flush on time change and at the end) equals the run-based legacy_spec written from the "
            "property text, for every mode, defaults and line sequence (induction, invariant 'pending slots = winners of "
            "the open run'); runs partition the accepted lines; every list strictly sorted, never a panic, every stored "
            "value inside its clamp (beat length, slider velocity, scroll speed only in taiko/mania, volume), NaN beat "
            "length rejected on timing-change lines and switching ticks off on inherited lines, field defaults; numeric "
            "strictness outside the D8 signed-zero class. Tie to the code: bit-exact correspondence of the extracted "
            "model with TimingPoints::parse_timing_points + into() on exhaustive small-alphabet and random line "
            "sequences in all four modes, plus an independent legacy-rule oracle (BTreeMap reference).",
            "§6 C12"),
    "C05": ("Unbounded theorems (coq/Properties/C05.v): the real three-phase driver (parse_version / parse_first_section / "
            "section loop, incl. the UseCurrentLine flag and the nested loops) equals the one-pass frame_spec written from "
            "the property text, for ANY parser record; corollaries: blank lines irrelevant anywhere, comment lines "
            "irrelevant after the first non-blank line, unrecognised bracketed lines are data, most recent header wins, "
            "parser results never influence routing; LF/CRLF/trailing-whitespace/final-newline facts of the line "
            "splitting. Tie to the code: a harness-side Recorder decoder drives the crate's real decode(); logs compared "
            "with the extracted model exhaustively over line-kind alphabets and randomly, in all four encodings.",
            "§6 C05"),
}


def main():
    props = [json.loads(l) for l in open(os.path.join(ROOT, "properties.jsonl"))]
    na_reasons = {}
    p = os.path.join(ROOT, "not_applicable.json")
    if os.path.exists(p):
        na_reasons = json.load(open(p))
    checks = []
    for pr in props:
        pid = pr["id"]
        if pid in CLAIMS:
            text, ref = CLAIMS[pid]
            checks.append({
                "property_id": pid,
                "quick_cmd": f"./check {pid} --tier quick",
                "thorough_cmd": f"./check {pid} --tier thorough",
                "evidence_file": f"/verif/evidence/{pid}.json",
                "replay_cmd_template": "cat {path}",
                "engine": "coq-model+correspondence",
                "level_claimed": {"category": "proof", "text": text, "design_ref": ref},
                "level_note": NOTE,
                "technique": TECH,
            })
    m = {
        "version": 1,
        "setup_cmd": "./setup.sh",
        "hooks": {
            "guard": "cargo feature verif-hooks",
            "enable": "harness/Cargo.toml depends on rosu-map with features=[\"verif-hooks\"]",
            "baseline_off_cmd": "cd /repo && cargo test --workspace --no-fail-fast --offline",
            "source_commits": ["f0db42e"],
            "fix_commits": ["9215ca2", "26f4d98", "738fe2f", "4262585", "d78b06a"],
            "add_only": True,
        },
        "engines": [{
            "name": "coq-model+correspondence",
            "path": "/verif/check",
            "serves_properties": sorted(CLAIMS),
            "kind_free_text": "Coq 8.16 proofs over a hand-written executable model (Flocq floats), regenerated "
                              "constants, extracted-model vs implementation correspondence, implementation-side oracle",
        }],
        "checks": checks,
        "notes": "See DESIGN.md. known_findings.json lists recorded defects; replays/ is written at run time; "
                 "seeded/ holds independently seeded changes and RESULTS.md says which checks catch them.",
        "not_applicable": [
            {"property_id": pr["id"],
             "reason": na_reasons.get(pr["id"], "check not built yet (work in progress; planned in DESIGN.md §6)")}
            for pr in props if pr["id"] not in CLAIMS
        ],
    }
    json.dump(m, open(os.path.join(ROOT, "MANIFEST.json"), "w"), indent=1)


if __name__ == "__main__":
    main()

#!/usr/bin/env python3
"""Writes MANIFEST.json from the table below (one entry per claimed property)."""
import json
import os

ROOT = os.path.dirname(os.path.abspath(__file__))

NOTE = ("Trusted: Coq 8.16.1 kernel (+vm_compute), the four classical/real-number axioms Flocq's definitions "
        "depend on (named in evidence), Flocq as the meaning of f32/f64, the hand-written model tied to the code only "
        "by the translator (constants/tables) and the correspondence check (behaviour), extraction with "
        "ExtrOcamlBasic, ocaml/driver.ml, the Rust harness and Rust std.")
TECH = ("machine-checked proof in Coq over an executable Gallina model; model-vs-code correspondence check "
        "(extracted OCaml vs Rust, bit-exact) and independent implementation-side oracle for the failing input")

CLAIMS = {
    "C13": ("Unbounded theorems (coq/Properties/C13.v): every add history through the public API keeps all four lists "
            "strictly sorted and never panics (induction over the history; the transcribed std binary search is proved to "
            "meet its contract); exact characterisation of add (redundant => unchanged, else insert/replace at its own "
            "time, other lists untouched) and of the four lookups (latest point not after t; first point / nothing "
            "before the first). Tie to the code: bit-exact correspondence of the extracted model with "
            "ControlPoints::add/*_point_at on exhaustive small-alphabet and random histories, plus a linear-scan oracle.",
            "§6 C13"),
    "C02": ("PARTIAL. Proved (coq/Properties/C02.v, under the number-formatting hypotheses fmt_ok): T02a - for every decoded "
            "map the six simple sections read back from the rendered encoding as the carry of the map (general, editor, "
            "metadata incl. positive ids, difficulty, background/breaks, colours); model-level vm_compute witnesses for the "
            "recorded classes D12, D13, D17, D22 and a complete example round trip over all sections, control points and hit "
            "objects. T02c (full): every control-point list in the decoder's image (path_image, proved to hold of everything "
            "convert_path_str produces) and outside D13 / D17 / consecutive Catmull is written to a path string that "
            "convert_path_str reads back to the very same list (path_round_trip; f32 position arithmetic and the `as i32` "
            "casts by explicit lemmas; extra Display hypothesis fmt_f32_int). T02b per line: the object the decoder reads "
            "from the encoder's circle / spinner / hold line equals the written one up to what the format cannot carry "
            "(carry_object), in every parser state; the shape hypotheses are discharged for decoded maps "
            "(C02_decoded_objects_shape, C02_decoded_object_ok): circles need only not-D30; spinners and holds need not-D30, "
            "not-D26 and the time condition fl(fl(start + d) - start) = d, which is FALSE in general (C02_times_ok_refuted, "
            "new finding D33: start 2^-43, end 1024 + 2^-42 changes the duration by one ulp; confirmed on the crate) and "
            "PROVED whenever end - start is a binary64 number (C02_times_ok_exact_difference; binary grids "
            "C02_times_ok_grid / _grid21, whole milliseconds) or the written end is the end that was read "
            "(C02_times_ok_of_end). T02d: collect_samples changes only the sample points; control points of "
            "every decoded map are sorted, within their clamps and the parse limits (C02_decoded_timing_invariants); the "
            "velocity fixed point -100/sv -> 100/-x is PROVED on the decoder's image (C02_three_divisions over the reals: "
            "RN(100/RN(100/S)) = S for S = RN(100/x) in [2^-4, 2^4]; C02_decoded_svs_round_trip); "
            "C02_timing_round_trip_decoded: for every decoded map, decoding the rendered [TimingPoints] section gives back "
            "the timing points and the slider-velocity / kiai / scroll timelines agree at every time, with only the recorded "
            "classes as hypotheses (D8/D28, D27, D12, D26/D32 - each refuted by a decodable input). T02e per line "
            "(C02_slider_round_trip_partial): a decoded slider outside the classes is re-read with the same start, position, "
            "control points, repeat and node count, and THE SAME CURVE (the written length is the curve's distance and "
            "requesting the natural length keeps the natural curve, exact since the D9 repair); velocity is a function of "
            "data shown equal; C02_slider_round_trip_full gives every field of the re-read slider (mode, new combo, own "
            "samples, node samples); names and banks of a node without file name survive "
            "(C02_slider_node_samples_round_trip; a file name on a node is D31: C02_slider_node_file_name_lost). "
            "COMPOSED with the framing theorem (C05) and the decoder delegation (C07) into ONE statement about decoding "
            "the lines of an encoding, C02_round_trip_decoded_map / C02_round_trip_chronological: for every decoded map "
            "outside the recorded classes (D23; rt_classes = D8/D28, D27, D12, D26/D32; obj_classes = D30, D26, D33, "
            "D13/D17/consecutive Catmull, D21, D22) whose accepted hit-object lines are chronological, if the second "
            "decode succeeds its simple sections are those of read_back m (T02a), its timing points and the three "
            "timelines are those of m (C02_decode_of_encoding_timing), and its hit objects correspond one to one "
            "(final_rel_decoded: circles/spinners/holds up to carry_object; sliders with the same start, position, "
            "control points, repeat/node count, curve, mode, new combo, own-sample and node-sample names and banks); "
            "the map-level processing of the second decode is shown to reproduce the stored values (sort = identity "
            "on the sorted list, flags re-derived are set - C02_combo_chain_of_chronological_input -, SamplePoint::apply "
            "touches only what carry erases; node / own-sample image invariants C02_decoded_slider_nodes_image); "
            "slider velocities of the second decode equal (C02_round_trip_velocities); non-vacuity on a decoded map with "
            "all four object kinds (C02_round_trip_example). WITH ONLY RECORDED CLASSES AS OBJECT HYPOTHESES: "
            "C02_round_trip_decoded_map_classes / C02_round_trip_chronological_classes take the boolean "
            "objects_in_classes lm m = false (no object in D30, D26, D33 - spinner / hold -, D13, D17, consecutive "
            "Catmull, D21, D22 - slider) in place of the per-object Prop obj_classes, which is derived from it for the "
            "objects of a decoded map (C02_decoded_object_outside_classes): D33 is the decidable class d33_object on the "
            "STORED start and duration, the exact complement of the time condition "
            "(C02_d33_class_is_the_time_condition; inhabited by a decoded map: C02_d33_decoded_witness); the curve of "
            "every decoded slider is computable and a decoded slider carries a combo offset only next to the new-combo "
            "flag (C02_decoded_slider_invariants), so the combo offset is preserved unconditionally "
            "(final_rel_classes) - an offset without the bit is outside the decoder's image, not a finding; the "
            "conclusion includes the velocities. Remaining hypotheses of these two: Display hypotheses, no line feed "
            "inside a line, chronological hit-object lines, encoder and second decode return. The stored duration of "
            "every decoded spinner / hold has the decoder's form max(0, fl(e - start)) resp. fl(max(start, e) - start) "
            "for an end e within the parse limits (C02_decoded_durations_have_decoder_form - line parser, stable sort, "
            "break post-processing, per-object loop; generic skeleton Proofs/Enc4Inv.v), so the C02_times_ok_* theorems "
            "apply to decoded objects: an object in D33 had an end whose difference to the start is not a binary64 "
            "number (C02_decoded_d33_inexact); a decoded object whose stored start + duration is a binary64 number "
            "(whole milliseconds, common binary grids) is never in D33 (C02_decoded_exact_sum_not_d33, "
            "C02_decoded_grid_not_d33, C02_whole_milliseconds_not_d33). NOT mechanised: a closed arithmetic "
            "description of D33 (which pairs with a rounded difference lose the duration) - not needed by the theorems, "
            "which use the decidable class itself; encoder totality on decoded maps "
            "- covered by the `enc` correspondence (decoder, curve, slider-event and encoder models composed, rendered with Rust's Display, "
            "compared with encode_to_string byte for byte) and by the oracle. D2 and D16 were found by this package's "
            "checks and repaired (4262585, d78b06a). Oracle: field-by-field comparison of decode(x) and "
            "decode(encode(decode(x))) for exactly the items the property lists, timelines sampled at all control-point "
            "times, curves per slider, on chronological generator files and mutated bundled maps.",
            "§6 C02"),
    "C03": ("Unbounded theorems (coq/Properties/C03.v, under fmt_ok): a boolean `representable` per field of the six simple "
            "sections with an Example per field; a representable edit keeps the map in the encoder's domain; reading back "
            "the rendered encoding commutes with every edit (the edited field shows exactly the edited value, every other "
            "preserved field is unchanged; a mode edit modulo special style); edit lists by induction; breaks are representable "
            "under the plain order condition D.lt end start = false within the limits, so breaks between the two zeros in "
            "either sign order survive (Examples rep_break_zero_signs, break_zero_edit_survives). D24 (start.max(end)) was "
            "found here and repaired (d58847e); bookmarks: any list of values within +-(2^31-1) is representable and survives "
            "(D10 repaired, 846d631); the old behaviours are unlisted oracle failures. Recorded: D23 (file names "
            "that normalise to contain //). Tie to the code: `edit` "
            "correspondence (decode, edit, encode) and an oracle with per-field value generators (colons, //, commas, "
            "quotes, brackets, header-like and version-like text, non-ASCII, boundary numbers) on the real encode/decode.",
            "§6 C03"),
    "C04": ("Unbounded theorems (coq/Properties/C04.v, under fmt_ok): the token stream starts with the version line and "
            "contains the eight headers exactly once in canonical order; no body line of any section is a header or "
            "skipped; every body line of the six simple sections is accepted in every parser state and the section reads "
            "back as its record (decode_image_inv: every decoded map is in that domain, outside D23); circle, spinner and "
            "hold lines are accepted in every state and add exactly one object of the same kind, start and position; "
            "every [TimingPoints] body line parses to all ten fields (tp_line_parsed); slider lines: the whole encoded "
            "slider line is accepted in every parser state and adds one slider with the same control points, repeat count "
            "and node count (slider_line_accepted, under the boolean slider_ok); every decoded map's objects satisfy "
            "object_image (decoded_objects_image: invariant carried through the line parsers, the stable sort, break "
            "post-processing and the per-object loop); sample data is an invariant of decoded maps too "
            "(C04_decoded_samples_image: indices/volumes within i32, file names free of `,` `:` `//`, carried through "
            "read_custom_sample_banks, convert_sound_type, the sort, break processing and SamplePoint::apply), so every "
            "[HitObjects] line of every decoded map is accepted under the recorded classes ONLY "
            "(C04_decoded_hit_object_lines_accepted_classes: D30 trailing white space in a sample file name - new -, D13, "
            "D17, consecutive Catmull, D21, D26), each refuted in Coq by a decodable input; [TimingPoints] lines of decoded "
            "maps are accepted outside D26/D32 (C04_decoded_timing_lines_accepted; D32 new: a slider ending beyond "
            "2147483647 ms writes a timing line the decoder rejects, refuted with the real curve/event models). D2 was found here and repaired (4262585). Oracle: every non-blank line of the real encoding is fed to the public parse function of its "
            "section; headers, order, counts after re-decoding.",
            "§6 C04"),
    "C07": ("Unbounded theorems (coq/Properties/C07.v), for ANY curve-distance function: the nine decoder types are nine "
            "instantiations of the framing driver with their state nesting and delegation chains written out as in the "
            "code; for each specialised decoder, whenever the full Beatmap decode completes its projection on the shared "
            "fields IS the specialised decoder's result (simulation relation preserved by all eleven parse functions and "
            "the finishing conversions), HitObjects agrees exactly including failures, the parse never fails and the "
            "Beatmap decode can only fail inside the curve distance; all nine use the same skip rule. Tie to the code: "
            "bit-exact correspondence of all nine extracted decoders with from_bytes::<T> on whole generated files "
            "(curves and map-level processing included), plus the oracle T == projection of Beatmap on generated, "
            "mutated, noisy and bundled inputs.",
            "§6 C07"),
    "C06": ("Unbounded theorems (coq/Properties/C06.v): for every state of every section parser of every decoder a rejected "
            "line leaves the state equal up to the two scratch buffers of the hit-object state (T06a); that equivalence is "
            "a congruence for every parser and the finishing conversions ignore the scratch buffers (T06b); hence for all "
            "nine decoders decoding pre ++ l :: post equals decoding pre ++ post whenever l is routed to a parser and "
            "rejected there (T06c, via the framing deletion lemma). D3 (residue of a rejected multi-segment slider) was "
            "found by this machinery and repaired (fix 26f4d98). Tie to the code: full-decode correspondence on files with "
            "targeted corruptions; oracle: a probing decoder records the rejected routed lines, each is removed and the "
            "results must be equal.",
            "§6 C06"),
    "C01": ("Layered theorems (coq/Properties/C01.v), no hypotheses on libm or inputs: (1) bytes to lines - the reader never "
            "panics and has enough fuel for every stream and schedule (C08); an Err is always a failure event of the reader "
            "schedule (T01e: C01_T01e_error_only_from_reader) and a faultless reader never fails "
            "(C01_faultless_reader_never_fails; D6 was found by T01e and repaired, fe92d4b); from_bytes yields exactly the "
            "lines the bytes determine, also for buffers of 1-2 bytes (C01_from_bytes_lines; D4 repaired, af28242); the index "
            "read_buf[len-2] of the UTF-16BE arm is in bounds and the line loop never panics and its rounds suffice "
            "(C01_read_line_index_in_bounds, C01_read_line_loop_total; D5 repaired, b151c62); (2) lines to value - every parser of every decoder never panics, the seven simpler decoders "
            "and TimingPoints are total outright; (3) the curve NEVER panics for any libm record, fuel, control-point list "
            "(NaN/inf included) and length (stack invariant of the Bezier subdivision, slices, rotate/pop, calculate_length "
            "indices), at both buffer levels; hence decode_hit_objects / decode_beatmap and the byte-level from_bytes yield "
            "a value or OutOfFuel - never an Err, never a panic (C01_decode_never_panics, C01_decode_bytes_never_panics, "
            "C01_decode_bytes_no_error). Termination (T01g): the theta loop runs at most once for atan2 in [-pi,pi]; in "
            "exact arithmetic the Bezier subdivision finishes within 2^(d+1) iterations when the second differences are "
            "bounded by 4^d/2 (the 2^20 fuel covers 4^19/2); for IEEE arithmetic PROVED for n control points with finite "
            "coordinates within +-2^E and n*2^E <= 2^22 (C01_T01g_ieee_bounded, C01_T01g_curve_bounded: binary32 error "
            "analysis through Flocq; e.g. <= 1024 control points within +-4096, <= 32 within +-131072, <= 16 anywhere in the "
            "parser's range), and LIFTED TO WHOLE FILES: the parser stores only control points within +-2^18 of the slider head, for "
            "ALL line sequences (C01_parsed_control_points_bounded), the curve calls the Bezier routine per segment "
            "(C01_T01g_curve_bounded_segments), hence every file whose slider segments have <= 16 control points, or "
            "max_seg_len x 2^E <= 2^22 with the slider inside +-2^E of its head, decodes to a VALUE - never out of fuel, never a "
            "panic - from lines, from any reader state and from bytes, also as a decidable condition on the input lines that "
            "parses no number (C01_decode_terminates_segments[_graded|_lines], C01_decode_bytes_terminates_segments[_lines]; all "
            "2828 slider lines of the bundled maps meet the graded condition, largest product 58 x 2^10); every fuelled loop of "
            "the decode path is listed with the lemma that closes it, only the Bezier subdivision is left; composed with the "
            "encoder (C01_decode_encode_terminates_segments). PARTIAL beyond (a single segment of more than 16 "
            "control points far from the head: no failing segment found, probes/T01g_search); "
            "refuted without a coordinate bound (finding D25: an infinite or overflowing control point never becomes flat, "
            "and from 2^22 on there are finite segments that are their own child, C01_T01g_ieee_refuted_finite - "
            "public API only, the parser bounds coordinates to +-2^18 relative to the slider). Node count = repeats + 2 <= 9001; NonZeroU32::new_unchecked "
            "only sees values >= 2. (4) re-encoding: every decoded map has sorted control points and sliders with "
            "0 <= repeats < 9000, non-empty control points and an absent or positive length (C01_decoded_shape); the "
            "encoder can panic or run out of fuel ONLY inside the two SliderEventsIter collects "
            "(C01_encode_fails_only_in_slider_events); no OutOfFuel on any decoded map above an explicit fuel bound "
            "(tick distance >= 2^-25 or +inf, effective length <= 100000: C01_encode_never_out_of_fuel); the output is "
            "valid UTF-8 and decodes back to itself (C01_encode_output_is_utf8[_bytes], under the Display-yields-String "
            "oracle hypothesis); an Err requires a failing write or flush for every chunking "
            "(C01_encode_err_only_from_writer). PARTIAL: C01_encode_never_panics_partial excludes the decidable class "
            "neg_dist_class (osu!/catch slider with negative curve distance = the D18 clamp panic); it is proved empty "
            "outside osu!-mode Catmull sliders, when the Catmull surplus is outweighed by one segment, and - by a binary32 / "
            "binary64 rounding analysis of the simplification loop and the running sums - for every osu!-mode Catmull slider "
            "whose Catmull sub-path vertices are finite with |c| <= 2^20, at most 2^30 in number and pairwise equal or >= 2^-60 "
            "apart (C01_curve_dist_nonneg_bounded: -surplus <= 0.76 x the kept segment lengths, the chord of a group IS one of "
            "the kept segments bit for bit; C01_encode_never_panics_bounded for decoded maps, with a boolean test of the "
            "hypotheses proved sound and Examples of decoded sliders with a NEGATIVE surplus that pass it); the residue is the "
            "underflow range (steps strictly between 0 and 2^-60 - not reachable from decoded text as far as probed: decoded "
            "coordinates are integers) and that EVERY decoded slider meets the bounds (none found otherwise in 192M random + "
            "exhaustive small grids + 3.2e7 evaluations in the underflow regime, probes/C01_negdist/). OPEN: "
            "memory safety of the unsafe blocks (outside the model). Tie to the code: all nine decoders on "
            "noise, grammar files, mutations, truncations at every length, BOM/UTF-16 variants, UTF-16LE files cut after the low byte of every line feed, large and ill-conditioned "
            "sliders, clusters of objects within 8 ulps in time, byte-level composed model correspondence, in release, debug (overflow checks) and tracing-feature "
            "builds with a formatting subscriber; 15 s watchdog per input.",
            "§6 C01"),
    "C10": ("Unbounded theorems (coq/Properties/C10.v, axiom-free): UTF-8 / UTF-16LE / UTF-16BE codec round trips for every "
            "scalar string; unpaired surrogates become U+FFFD; the hand-written lossy loop of encoding.rs equals a one-pass "
            "lossy_spec automaton for ALL byte lists (never out of fuel; the unchecked prefix always validates) and is "
            "local to the line (lossy (a++[LF]++b) = lossy a ++ [LF] ++ lossy b); FULL strength - for EVERY scalar-value text "
            "(U+4E0A, U+0A41, U+010A, U+1040A ... included), every faultless schedule and each of the four encodings "
            "read_all_lines = lines_of_text s, the BOM-less form under hd s <> U+FEFF only (C10_transparency, "
            "C10_four_encodings_agree); the cut of an encoded text is the encoding of the cut of the text "
            "(C10_utf16_cut_is_text_cut); only the code unit 000A ends a UTF-16 line; the lines of ARBITRARY UTF-16 byte "
            "streams - odd length, misaligned 0x0A, lone surrogates - are stated explicitly (C10_utf16le/be_stream_lines); "
            "a clean stream never fails in any encoding (C10_clean_stream_never_fails). D4, D5 and D6 were found here "
            "and repaired (af28242, b151c62, fe92d4b); no recorded class is left and the formerly failing texts are Examples. "
            "Tie to the code: texts with 0x0A-byte code units in every field, UTF-16 texts truncated at every byte, UTF-16 noise "
            "against a unit-pairing reference; bit-exact correspondence of Encoding::decode, std from_utf8 error positions, decode_utf16, "
            "from_bom and the LineDecoder line stream; oracle: same Beatmap in all four encodings, per-line "
            "from_utf8_lossy / from_utf16_lossy, every scalar value as Title content (thorough).",
            "§6 C10"),
    "C08": ("Unbounded theorems (coq/Properties/C08.v, axiom-free): the BufRead contract as an explicit schedule of chunks, "
            "Interrupted and failures; read_until / read_bom / read_line and std's Chain (fill_buf / consume / read_until) "
            "transcribed; for ANY two faultless schedules of the same bytes (every chunking down to single bytes, first "
            "chunks of 1-2 bytes, a BOM split over several chunks, every BufReader capacity) and every reader state "
            "read_all_lines gives the same lines = decode_stream bytes (C08_schedule_independent, "
            "C08_function_of_bytes[_any_state], C08_bufreader_any_capacity); read_bom collects the first three bytes "
            "however they are chunked; read_line assembles a UTF-16 line from several read_until calls (loop transcribed, fuel "
            "per round) and stays a function of the bytes for all streams incl. malformed UTF-16; Interrupted is transparent for all schedules; a faultless delivery never "
            "yields an Err for any chunking, and an Err is a Fail event of the schedule "
            "(C08_faultless_never_fails, C08_error_only_from_schedule); never a panic, fuel sufficient. D4 (read_bom discarded chunks shorter than 3 bytes) was found by this check "
            "and repaired (af28242); the formerly failing deliveries are Examples. Tie to the code: a schedule-driven BufRead under LineDecoder, fixed chunk sizes 1..64, random "
            "schedules, Interrupted placements, every stream of 0..3 bytes byte by byte, a BOM split at every position, "
            "line-level comparison with the one-chunk delivery, UTF-16LE streams cut inside a line feed at every chunk size; oracle: schedule "
            "reader / BufReader capacities 1..16 / from_str / from_path on a regular file and on a pipe / dribbling Read "
            "all equal from_bytes.",
            "§6 C08"),
    "C09": ("Unbounded theorems (coq/Properties/C09.v, axiom-free): a hard failure reached by the reader schedule is returned "
            "(never Done), since the driver reads to EOF; no error is made up (C09_error_only_from_reader); the extra-byte "
            "read after a UTF-16LE line feed returns a failure, retries Interrupted and treats EOF as end of line "
            "(C09_extra_byte_*); a failure while read_bom is still collecting its bytes is returned and Interrupted there is "
            "retried (C09_bom_*), likewise inside the line-assembling loop of read_line (C09_line_loop_*); Interrupted transparent; writer side for an arbitrary chunk list: "
            "any failure or Ok(0) before everything is accepted yields the error (WriteZero for Ok(0)), no write is issued "
            "after the first failure, the accepted bytes are a prefix, short writes and Interrupted are retried, flush "
            "failure returned, never a panic. Tie to the code: error of each of 5 kinds at every byte offset of bundled "
            "files under the schedule reader, the reader failing / interrupted / ending exactly at the byte after 0x0A; "
            "Beatmap::encode (bundled, generated and a compact all-kinds map in four modes) into a schedule Write with failure / zero-length / short "
            "writes at every output offset, the recorded chunk sequence replayed through the model.",
            "§6 C09"),
    "C15": ("Unbounded theorems (coq/Properties/C15.v), for ANY curve-distance function: the processed object list carries the "
            "start times of the STABLE sort of the file-order list (permutation, ordered, equal keys keep file order), same "
            "length; break post-processing only sets new-combo flags (never on holds), consumes exactly the breaks that "
            "ended before the object, and with chronologically ordered breaks forces the first object after a break; "
            "sliders get velocity = 100*SM/(beat_len*clamp(100/sv)/100) literally, duration = spans*dist/velocity, node "
            "and object samples from the sample point 5 ms after each node / the end by the SamplePoint::apply rules; "
            "constants pinned. Shift invariance (T15d): proved for whole-millisecond times (|t|, |t+k| < 2^52, `-0` excluded): "
            "the shift is exact, all comparisons, the number parser on whole literals in any spelling, the four look-ups "
            "and ControlPoints::add commute with it; C15_shift_invariance_integer_times: processing of circles, spinners "
            "and holds commutes with the shift for any break order and mode, error outcomes included, and changes nothing "
            "but times (C15_shift_changes_only_times). Sliders: proved when no look-up time start + o + 5 lies within 2^-g "
            "ms below a sample point (C15_shift_invariance_sliders_partial); REFUTED otherwise with a witness confirmed on "
            "the crate (new finding D29: duration 2399.9999999999995 - inherent to binary floating point), likewise for "
            "fractional times (D20) and the time `-0` (relative of D8). Not covered: non-finite slider durations (D11 "
            "class), the text-level glue composed into one theorem. Tie to the code: implementation-side oracle written from the property text (stable order incl. "
            ">20 ties, breaks, closed-form velocity/duration, sample defaults, shifts in [-1e6,1e6]); correspondence of the "
            "decoder models on the same files.",
            "§6 C15"),
    "C16": ("PARTIAL. Proved (coq/Properties/C16.v, all inputs, IEEE arithmetic): complete case analysis of calculate_length "
            "- no requested length => natural cumulative lengths; requested L: the filter compares exactly (|calc - L| > 0.0), "
            "so the natural curve is kept only when L IS the natural length or the difference is NaN; for every L > 0 (+inf "
            "included) with a non-NaN calculated length the last cumulative length IS L (the very same value, no epsilon "
            "window: C16_distance_is_L, C16_distance_is_L_zero_seed, C16_curve_distance_is_L) with only the structural "
            "exceptions: last two points equal and L longer => natural plus one repeated entry, single vertex => [0] (D9, "
            "the 2.2e-16 window, was found here and repaired, 0477e58; the formerly failing inputs are Examples); sizes agree, first length 0, the path is a "
            "prefix of the natural path plus the adjusted end point, cut index characterised; over the reals the osu!-mode "
            "Catmull simplification keeps kept-length + surplus = full polyline length with a non-negative surplus (T16c, "
            "on the same loop as the model). T16d in IEEE arithmetic with seed 0 (every mode but osu!-Catmull): cumulative "
            "lengths start at +0, are non-decreasing (overflow to +inf included), non-negative, and finite under the "
            "stated bound (|coord| <= 2^60, <= 2^53 vertices, finite L) for EVERY requested length "
            "(C16_lengths_nondecreasing[_and_finite], C16_curve_lengths_nondecreasing_partial). T16b in exact arithmetic "
            "on the model's own formula (adjust_point_g instance): the adjusted end lies on the ray / inside the segment / "
            "beyond its end, at distance L - lp, and the adjusted polyline has length exactly L "
            "(C16_adjusted_path_has_length_L); pp = pe excluded (D11 class). T16b in IEEE arithmetic (binary32 end point, "
            "binary64 lengths; coordinates finite with |c| <= 2^20, 0 <= L - lp <= 2^20, exact segment length >= 2^-10, which "
            "follows from a computed f32 length >= 2^-9): the computed end point is finite and within E16 = 2^-24 (|prev.c| + "
            "9.05 (L - lp)) + 2^-127 <= 0.63 px per coordinate of the exact point (C16_adjusted_end_ieee_bound); the f32 segment "
            "length is exact up to 3.01 x 2^-24 relative; with zero seed and <= 2^50 vertices every cumulative length is the "
            "exact one up to 3.01 x 2^-24 + 2n x 2^-53 relative (C16_cumulative_lengths_ieee_bound), hence the exact length of "
            "the adjusted polyline is within an explicit bound of L (C16_adjusted_length_ieee_bound_full, "
            "C16_calculate_length_ieee_bound, stated on a calculate_length outcome); Examples on a concrete cut. NOT proved: "
            "monotonicity and accumulated error with a non-zero "
            "osu!-mode Catmull seed (surplus may round negative), inputs outside the magnitude hypotheses - measured "
            "by the oracle (dist == L bitwise with the stated exceptions, cut geometry in f64, lengths start at 0 / monotone "
            "within 1e-5 / finite; the same request through a SliderPath first read without a length). Tie to the code: bit-exact correspondence of Curve::new "
            "(path and lengths) incl. arcs through real libm on grids and random control-point lists, all modes and length classes.",
            "§6 C16"),
    "C17": ("PARTIAL. Proved (coq/Properties/C17.v): structure for all inputs in IEEE arithmetic - linear segments copy their "
            "vertices, a Bezier segment starts at its first and ends at its last control point (both buffer levels), perfect "
            "curves that are not three points / collinear / need >= 1000 sub-points fall back to Bezier, arc and Catmull "
            "vertex counts, the joint-vertex skip characterised exactly; over the reals the Catmull formulas are the "
            "Catmull-Rom polynomial interpolating v2 and v3; de Casteljau: the left/right control polygons evaluate to the "
            "parent curve at t/2 and (1+t)/2 (T17b, reals, on the model's subdivision); the arc centre is equidistant from "
            "the three points, every emitted point lies on the circle and the end points are the first and last vertices "
            "under the stated libm hypotheses (T17d); tolerances pinned. T17e, the two-sided Hausdorff bounds, proved over the "
            "reals on definitions shared with the model (model = IEEE instance by reflexivity): arc 4 x 0.1 = 0.4 "
            "(C17_arc_hausdorff; the nominal 0.1 is REFUTED, C17_arc_tolerance_0_1_refuted: the code emits one chord fewer "
            "than its tolerance requires - the property only says `derived from the tolerances`); Bezier n(2n-1)/8 x 0.5 for "
            "the WHOLE subdivision loop (C17_bezier_hausdorff, via the convex-hull property and a discrete maximum "
            "principle on a flat piece); Catmull vertices exactly on the curve, chords within |P''|/8/2500 <= 3L/10000 "
            "(second derivative by Coquelicot); osu! simplification within 6 px both ways; linear 0. T17e in BINARY32 (finite "
            "coordinates with |c| <= 2^E): linear vertices are exact; every computed Catmull vertex coordinate is within E_cat = "
            "72 x 2^(E-24) of the exact polynomial, the rounding of t = fl(c/50) included (C17_catmull_vertex_ieee), so the "
            "computed polyline is within the real bound + 3/2 E_cat of the spline (C17_catmull_hausdorff_ieee), the phantom "
            "point and the osu! simplification as computed included (within 6 + 2^-19 both ways); Bezier, for n x 2^E <= 2^22: "
            "every emitted vertex is within Kbez(n-1) + E_bez of the exact curve of the original control points and the "
            "two-sided Hausdorff bound holds for the WHOLE subdivision loop as computed (C17_bezier_hausdorff_ieee[_tight]; "
            "cubics: E_bez_t <= 2^-19 + 161 x 2^(E-25)); arcs, with the libm accuracy el as a hypothesis of the theorem: the "
            "binary64 angle within 2^-47, every emitted vertex within E_arc = 2^E (el + 2^-47) + 2^(E-23) of the exact arc "
            "vertex with the same computed centre, radius and angles, two-sided bound sag_n + 3/2 E_arc for the computed number "
            "of points (C17_arc_hausdorff_ieee_partial). NOT proved: for arcs that sag_n <= 4 x tolerance for the COMPUTED "
            "count (acosf, binary32 division, ceil), the error of the computed centre / radius / angles against the circle "
            "through the three control points, that libm meets the accuracy hypothesis (measured by the "
            "oracle with explicit slack on top of each proved bound), the direction choice of perfect curves. Recorded deviation D19 (ill-conditioned "
            "three-point arcs). Tie to the code: bit-exact correspondence of computed paths.",
            "§6 C17"),
    "C18": ("Unbounded theorems (coq/Properties/C18.v): the buffer-reusing computation (explicit CurveBuffers, in-place Bezier "
            "subdivision, mem::take) equals the pure curve for any prior buffer contents; owned and borrowed constructors "
            "agree; for every history over the SliderPath accessors and foreign computations on the same buffers each read "
            "equals the cache-free, buffer-free specification and the cache invariant holds; every mutable accessor "
            "invalidates - all for EVERY control-point list including the empty one and with no side condition (D7, the "
            "empty-list case, was found by this check and repaired: fix 738fe2f). Tie to the code: "
            "bit-exact correspondence on histories over pools of control-point lists sharing one buffer set.",
            "§6 C18"),
    "C19": ("PARTIAL. Proved (coq/Properties/C19.v, IEEE): progress is clamped below 0 and above 1 (NaN kept), progress_to_dist "
            "= progress x dist inside [0,1], all end cases of interpolate_vertices, the transcribed std search stays in "
            "bounds for any comparator, no panic on any computed curve, every position is the origin, a vertex or on the "
            "selected segment, progress 0 is exactly the first vertex under finiteness/positivity; at a vertex's own "
            "cumulative length and at progress 1 (last length strictly largest) the interpolation weight is exactly 1, so "
            "the position is that vertex up to one rounding; progress 1 with a repeated last length "
            "(C19_progress_one_repeated_last_length: the search lands on an entry equal to L, weight exactly 1). Whole "
            "curve in exact arithmetic on the model's own formula (position_at_g instance) with the transcribed std binary "
            "search proved to meet its contract on every non-decreasing list: progress <= 0 gives the first vertex, >= 1 "
            "the last, lj/total gives vertex j, and the GLOBAL Lipschitz bound |pos a - pos b| <= |a-b| * total across "
            "segments (C19_exact_whole_curve; with the real EPSILON guard the bound needs + 2 eps, shown). IEEE bounds for the "
            "interpolation (coordinates finite with |c| <= 2^20, 0 <= d0 <= d <= d1 finite, the code's own guard false; the guard "
            "constant is pinned): per coordinate the computed position is within E19 = 2^-24 (max|c0||c1| + 3.01 |c1-c0|) + 2^-125 "
            "of the exact convex combination (C19_interpolation_ieee_bound), hence near the segment, a vertex hit at d = d1 "
            "within E19 of p1 (C19_vertex_hit_ieee_bound) and the LOCAL Lipschitz bound slope |a-b| / (d1-d0) + 2 E19 inside a "
            "segment (C19_local_lipschitz_ieee_bound); fl(fl(l_j/dist) dist) is within 2.001 x 2^-53 l_j + 2^-1075 (2 dist + 1) "
            "of l_j (C19_vertex_fraction_distance_ieee) and for an interior vertex whose length is separated from both "
            "neighbours the position at progress l_j/dist is vertex j up to an explicit bound "
            "(C19_vertex_fraction_position_partial). ACROSS SEGMENTS, for the natural lengths of the path (zero seed, |c| <= 2^20, "
            "segments degenerate or >= 2^-10 long, <= 2^50 vertices): chord <= arc for the IEEE lengths, |p_k+1 - p_k| <= "
            "(1 + 3.02 x 2^-24)(l_k+1 - l_k) + 1.002 x 2^-53 l_k+1 (C19_chord_le_length_increment_ieee; a purely relative bound is "
            "false), hence the GLOBAL Lipschitz bound in IEEE arithmetic, through the transcribed search: |pos a - pos b| <= "
            "(1 + delta)|b - a| + n eta dist + 2 E19max per coordinate, for distances and for progress values "
            "(C19_global_lipschitz_ieee, _search_ieee, _position_at, _progress), the search lands on the right segment "
            "(C19_search_locates_ieee), and position_at(l_j / dist) is vertex j up to an explicit bound for EVERY j, clusters of "
            "nearly equal lengths, zero-length segments and the last vertex included (C19_vertex_fraction_position_full_ieee). "
            "NOT proved: the across-segment IEEE bounds for a curve cut or extended to a requested length or seeded with the "
            "osu! Catmull surplus, inputs outside the magnitude hypotheses, dist = 0 - measured by the oracle within rounding "
            "slack. Tie "
            "to the code: bit-exact position_at / progress_to_dist / idx_of_dist / interpolate_vertices.",
            "§6 C19"),
    "C20": ("Unbounded theorems (coq/Properties/C20.v): the lazy iterator state machine with its reversed tick stack equals "
            "the eager event list written from the property text, for every parameter set, ANY initial buffer contents "
            "(buffer independence, abandoned iterators), both integer-overflow modes and any fuel; structure, span indices, "
            "closed forms of head / repeats / legacy last tick / tail; zero tick distance => no ticks, every repeat; exact "
            "characterisation of when the constructor panics (recorded finding D18: total_dist < 0); in exact arithmetic "
            "ticks lie at multiples of the tick distance, stop before len - 10*velocity, are chronological. Binary64 "
            "(T20c): tick j is the j-fold running sum, finite, in (0, len], within j*ulp(len)/2 of (j+1)*tick_dist; its "
            "progress within j*ulp(len)/(2len)+2^-53 and its time (forward and mirrored) within an explicit bound of the "
            "closed form; the loop guards read as real inequalities and the loop is maximal; each span incl. its repeat is "
            "weakly chronological (strict order is false under rounding); span start / repeat / tail / last tick within "
            "explicit ulp bounds of start+k*dur and max(start+n*dur/2, start+n*dur-36); ticks of every span carry the "
            "progress values of span 0 bit for bit. Time bounds assume the span end does not overflow and the span duration "
            "is finite and >= 0. The oracle tolerances equal the proved bounds. Tie to the code: "
            "bit-exact event streams for grids, random sliders and multi-iterator histories sharing one buffer.",
            "§6 C20"),
    "C11": ("Unbounded theorems (coq/Properties/C11.v): each of the six section parsers equals a table-driven "
            "specification written from the property text, for every state and line (key table, conversion, field); "
            "rejected or unknown records leave the state untouched; last valid occurrence wins (generic fold lemma); "
            "exact acceptance sets of the i32/u8/f32/f64 number parsers (grammar incl. dec2flt exponent saturation, "
            "limits, NaN); the decimal -> binary conversion is the correctly rounded (nearest-even) value of the decimal "
            "for binary64 and binary32, never NaN, zero keeps its sign, the magnitude shortcuts never change the result "
            "(T11d, via Flocq's division and normalisation theorems); clamp ranges for slider multiplier / tick rate; approach rate follows overall difficulty until "
            "set; a break never ends before it starts: for every break of every decoded Events, HitObjects and Beatmap value, on "
            "any file, D.le start end = true and D.lt end start = false (C11_decoded_*_breaks); a record with end >= start "
            "keeps its end time bit for bit, zeros included, and a record written backwards ends where it starts "
            "(C11_break_end_kept / _reversed); background precedence; all tables and constants pinned against the generated "
            "ones; the elements of a Bookmarks value are numbers like any other (trimmed integer literal within +-(2^31-1): "
            "C11_bookmarks_elements) and every stored bookmark of every decoded Editor / Beatmap lies within the limit "
            "(C11_decoded_*_bookmarks). D1 (first colon), D24 (break end as start.max(end) lost the sign of a zero end) and "
            "D10 (bookmark elements through plain str::parse) were found here and repaired (9215ca2, d58847e, 846d631); the "
            "formerly failing inputs are Examples and the old behaviour is an unlisted oracle failure. One deviation is "
            "refuted with a witness and recorded: D14 (f32 limit, same as the reference client). Tie "
            "to the code: bit-exact correspondence through the public parse_* functions over every key x value class x "
            "decoration, numeric stress streams, plus an independent table-driven reference oracle.",
            "§6 C11"),
    "C14": ("Unbounded theorems (coq/Properties/C14.v): parse_hit_objects equals a declarative line_spec for all states and "
            "lines and never panics (index loops of convert_points/convert_path_str modelled with checked arithmetic); "
            "position truncation, kind precedence, combo offset, forced new combo by the KIND of the previously accepted "
            "object (a circle or slider has new_combo iff its own flag is set, or it is the first accepted object, or the "
            "object accepted right before it decoded as a spinner - for every line sequence, rejected lines not counting: "
            "C14_new_combo_by_kind, C14_new_combo_in_sequence, C14_follows_spinner with no exception), repeat cap 9000 and node count, length "
            "rule, non-negative spinner/hold durations (Flocq comparisons), convert_path_str = structural path_spec by "
            "induction over tokens, sample table; what a rejected line can leave behind (C06 facts). D3 (residue of a "
            "rejected multi-segment slider) and D15 (spinner bit remembered from a circle/slider: `0,0,0,9,0` then a circle) "
            "were found here and repaired (26f4d98, 9dbef29); the formerly failing inputs are Examples and the old "
            "behaviour is an unlisted oracle failure. Tie to the "
            "code: bit-exact correspondence through HitObjects::parse_hit_objects on field-wise generated line sequences "
            "(exhaustive 256x256 type/sound bytes in the thorough tier) plus an independent reference parser.",
            "§6 C14"),
    "C12": ("Unbounded theorems (coq/Properties/C12.v): the pending-option state machine of parse_timing_points "
            "(push_front/push_back, flush on time change and at the end) equals the run-based legacy_spec written from the "
            "property text, for every mode, defaults and line sequence (induction, invariant 'pending slots = winners of "
            "the open run'); runs partition the accepted lines; every list strictly sorted, never a panic, every stored "
            "value inside its clamp (beat length, slider velocity, scroll speed only in taiko/mania, volume), NaN beat "
            "length rejected on timing-change lines and switching ticks off on inherited lines, field defaults; numeric "
            "strictness outside the D8 signed-zero class. Tie to the code: bit-exact correspondence of the extracted "
            "model with TimingPoints::parse_timing_points + into() on exhaustive small-alphabet and random line "
            "sequences in all four modes, plus an independent legacy-rule oracle (BTreeMap reference).",
            "§6 C12"),
    "C05": ("Unbounded theorems (coq/Properties/C05.v): the real three-phase driver (parse_version / parse_first_section / "
            "section loop, incl. the UseCurrentLine flag and the nested loops) equals the one-pass frame_spec written from "
            "the property text, for ANY parser record; corollaries: blank lines irrelevant anywhere, comment lines "
            "irrelevant after the first non-blank line, unrecognised bracketed lines are data, most recent header wins, "
            "parser results never influence routing; LF/CRLF/trailing-whitespace/final-newline facts of the line "
            "splitting. Tie to the code: a harness-side Recorder decoder drives the crate's real decode(); logs compared "
            "with the extracted model exhaustively over line-kind alphabets and randomly, in all four encodings.",
            "§6 C05"),
}


def main():
    props = [json.loads(l) for l in open(os.path.join(ROOT, "properties.jsonl"))]
    na_reasons = {}
    p = os.path.join(ROOT, "not_applicable.json")
    if os.path.exists(p):
        na_reasons = json.load(open(p))
    checks = []
    for pr in props:
        pid = pr["id"]
        if pid in CLAIMS:
            text, ref = CLAIMS[pid]
            checks.append({
                "property_id": pid,
                "quick_cmd": f"./check {pid} --tier quick",
                "thorough_cmd": f"./check {pid} --tier thorough",
                "evidence_file": f"/verif/evidence/{pid}.json",
                "replay_cmd_template": "cat {path}",
                "engine": "coq-model+correspondence",
                "level_claimed": {"category": "proof", "text": text, "design_ref": ref},
                "level_note": NOTE,
                "technique": TECH,
            })
    m = {
        "version": 1,
        "setup_cmd": "./setup.sh",
        "hooks": {
            "guard": "cargo feature verif-hooks",
            "enable": "harness/Cargo.toml depends on rosu-map with features=[\"verif-hooks\"]",
            "baseline_off_cmd": "cd /repo && cargo test --workspace --no-fail-fast --offline",
            "source_commits": ["f0db42e"],
            "fix_commits": ["9215ca2", "26f4d98", "738fe2f", "4262585", "d78b06a", "fe92d4b", "0477e58", "af28242", "9dbef29", "b151c62", "d58847e", "846d631"],
            "add_only": True,
        },
        "engines": [{
            "name": "coq-model+correspondence",
            "path": "/verif/check",
            "serves_properties": sorted(CLAIMS),
            "kind_free_text": "Coq 8.16 proofs over a hand-written executable model (Flocq floats), regenerated "
                              "constants, extracted-model vs implementation correspondence, implementation-side oracle",
        }],
        "checks": checks,
        "notes": "See DESIGN.md. known_findings.json lists recorded defects; replays/ is written at run time; "
                 "seeded/ holds independently seeded changes and RESULTS.md says which checks catch them.",
        "not_applicable": [
            {"property_id": pr["id"],
             "reason": na_reasons.get(pr["id"], "check not built yet (work in progress; planned in DESIGN.md §6)")}
            for pr in props if pr["id"] not in CLAIMS
        ],
    }
    json.dump(m, open(os.path.join(ROOT, "MANIFEST.json"), "w"), indent=1)


if __name__ == "__main__":
    main()

//! C20: slider event stream — histories over one shared tick buffer,
//! implementation run, dump, and the oracle written from the property text.
use crate::out::Out;
use crate::proto::Line;
use crate::rng::Rng;
use crate::util::guarded;
use rosu_map::section::hit_objects::{SliderEvent, SliderEventType, SliderEventsIter};

#[derive(Clone, Copy, Debug, PartialEq)]
pub struct P {
    pub start: f64,
    pub dur: f64,
    pub vel: f64,
    pub td: f64,
    pub total: f64,
    pub n: i32,
}

#[derive(Clone, Debug)]
pub enum Cmd {
    New(P),
    Next(u32),
    Drain,
    Junk(u32),
}

fn kind_code(k: SliderEventType) -> i128 {
    match k {
        SliderEventType::Head => 0,
        SliderEventType::Tick => 1,
        SliderEventType::Repeat => 2,
        SliderEventType::LastTick => 3,
        SliderEventType::Tail => 4,
    }
}

fn dump_ev(l: &mut Line, e: &SliderEvent) {
    l.i(kind_code(e.kind)).i(e.span_idx as i128).f64(e.span_start_time).f64(e.time).f64(e.path_progress);
}

fn junk(i: u32) -> SliderEvent {
    SliderEvent { kind: SliderEventType::Tick, span_idx: i as i32, span_start_time: 7.0, time: i as f64, path_progress: 1.0 }
}

fn new_iter<'a>(p: &P, buf: &'a mut Vec<SliderEvent>) -> Result<SliderEventsIter<'a>, String> {
    guarded(move || SliderEventsIter::new(p.start, p.dur, p.vel, p.td, p.total, p.n, buf))
}

/// Upper bound on the iterations of the `while d <= len` loop for one span
/// (None: the loop does not run).  Used only to keep generated cases inside
/// the budget; the model uses fuel.
fn loop_budget(p: &P) -> f64 {
    let len = 100_000.0f64.min(p.total);
    if !(len >= 0.0) {
        return 0.0; // new() panics
    }
    let td = if p.td < 0.0 { 0.0 } else if p.td > len { len } else { p.td };
    if !(td > 0.0) {
        return 0.0;
    }
    len / td
}

/// The extracted model costs about 1 ms per event (Flocq arithmetic on
/// inductive integers), so ordinary cases stay small and only the dedicated
/// "loop_budget" cases run long tick loops.
pub const MAX_LOOP: f64 = 2_500.0;
pub const MAX_EVENTS: f64 = 600.0;
pub const BIG_LOOP: f64 = 120_000.0;

/// Is a full `collect()` of this slider safe to run (terminates quickly)?
fn collectable(p: &P) -> bool {
    let b = loop_budget(p);
    p.n >= 0 && p.n <= 64 && b <= MAX_LOOP && b * (p.n as f64) <= MAX_EVENTS
}
fn collectable_big(p: &P) -> bool {
    let b = loop_budget(p);
    p.n >= 0 && p.n <= 64 && b <= BIG_LOOP && b * (p.n as f64) <= 2.0 * BIG_LOOP
}
/// shrink the span count until the whole stream fits the event budget
fn fit(mut p: P) -> P {
    let b = loop_budget(&p);
    if p.n > 1 && b * (p.n as f64) > MAX_EVENTS {
        p.n = ((MAX_EVENTS / b.max(1.0)) as i32).max(1);
    }
    p
}

fn bits_eq(a: f64, b: f64) -> bool {
    (a.is_nan() && b.is_nan()) || a.to_bits() == b.to_bits()
}
fn ev_eq(a: &SliderEvent, b: &SliderEvent) -> bool {
    a.kind == b.kind
        && a.span_idx == b.span_idx
        && bits_eq(a.span_start_time, b.span_start_time)
        && bits_eq(a.time, b.time)
        && bits_eq(a.path_progress, b.path_progress)
}

fn close(a: f64, b: f64, scale: f64) -> bool {
    // overflowing parameters make both the closed form and the stream NaN
    a == b || (a.is_nan() && b.is_nan()) || (a - b).abs() <= 1e-9 * scale.max(1.0)
}

/// The property's domain: span count >= 1, finite parameters, playable signs.
fn in_domain(p: &P) -> bool {
    p.n >= 1
        && p.start.is_finite()
        && p.dur.is_finite()
        && p.dur >= 0.0
        && p.vel.is_finite()
        && p.vel >= 0.0
        && p.total.is_finite()
        && p.total >= 0.0
        && (p.td >= 0.0)  // finite or +inf ("no ticks")
}

/// Oracle from the property text on one complete stream (fresh buffer).
fn check_stream(p: &P, evs: &[SliderEvent], out: &mut Out, desc: &str) {
    out.oracle_checks += 1;
    let mut bad = |out: &mut Out, what: String| out.fail("", desc, &what);
    let n = p.n;
    // paths longer than MAX_LEN are capped: ticks, their progress and the 10 ms rule refer to the capped length
    let len = p.total.min(100_000.0);
    let scale = p.start.abs().max((n as f64 * p.dur).abs());
    if evs.len() < 3 {
        bad(out, format!("only {} events", evs.len()));
        return;
    }
    // exactly one head, first
    let h = &evs[0];
    if h.kind != SliderEventType::Head || h.span_idx != 0 || !bits_eq(h.time, p.start) || !bits_eq(h.span_start_time, p.start) || h.path_progress != 0.0 {
        bad(out, format!("head event wrong: {h:?}"));
    }
    if evs.iter().filter(|e| e.kind == SliderEventType::Head).count() != 1 {
        bad(out, "not exactly one head".into());
    }
    // last tick then tail, last
    let lt = &evs[evs.len() - 2];
    let tl = &evs[evs.len() - 1];
    if lt.kind != SliderEventType::LastTick || tl.kind != SliderEventType::Tail {
        bad(out, format!("stream does not end with last tick, tail: {lt:?} {tl:?}"));
        return;
    }
    if evs.iter().filter(|e| e.kind == SliderEventType::LastTick).count() != 1 || evs.iter().filter(|e| e.kind == SliderEventType::Tail).count() != 1 {
        bad(out, "not exactly one last tick / tail".into());
    }
    let fsst = p.start + f64::from(n - 1) * p.dur;
    let end = p.start + f64::from(n) * p.dur;
    // tail: at the end, progress = n % 2
    if tl.span_idx != n - 1 || !close(tl.time, end, scale) || tl.path_progress != f64::from(n % 2) || !close(tl.span_start_time, fsst, scale) {
        bad(out, format!("tail wrong: {tl:?}, expected time {end}, span start {fsst}"));
    }
    // legacy last tick: max(half-way, 36 ms before the end)
    let half = p.start + f64::from(n) * p.dur / 2.0;
    let want_lt = half.max(end - 36.0);
    if lt.span_idx != n - 1 || !close(lt.time, want_lt, scale) || !close(lt.span_start_time, fsst, scale) {
        bad(out, format!("last tick wrong: {lt:?}, expected time {want_lt}"));
    }
    if p.dur > 1e-6 {
        let mut prog = (want_lt - fsst) / p.dur;
        if n % 2 == 0 {
            prog = 1.0 - prog;
        }
        if !close(lt.path_progress, prog, scale / p.dur) {
            bad(out, format!("last tick progress {} expected {}", lt.path_progress, prog));
        }
    }
    // body: per span ticks (chronological) then a repeat, except after the last span
    let body = &evs[1..evs.len() - 2];
    let mut i = 0usize;
    let mut first_prog: Option<Vec<f64>> = None;
    let min_from_end = 10.0 * p.vel;
    for s in 0..n {
        let sst = p.start + f64::from(s) * p.dur;
        let mut ticks: Vec<&SliderEvent> = vec![];
        while i < body.len() && body[i].kind == SliderEventType::Tick && body[i].span_idx == s {
            ticks.push(&body[i]);
            i += 1;
        }
        // chronological order
        if !ticks.windows(2).all(|w| w[0].time <= w[1].time) {
            bad(out, format!("ticks of span {s} not in chronological order"));
        }
        // travel order = chronological on even spans, reversed on odd spans
        let mut prog: Vec<f64> = ticks.iter().map(|e| e.path_progress).collect();
        if s % 2 == 1 {
            prog.reverse();
        }
        for (e, _) in ticks.iter().zip(0..) {
            if !close(e.span_start_time, sst, scale) {
                bad(out, format!("tick span start {} expected {}", e.span_start_time, sst));
            }
            let tp = if s % 2 == 1 { 1.0 - e.path_progress } else { e.path_progress };
            if !close(e.time, sst + tp * p.dur, scale) {
                bad(out, format!("tick time {} expected {} (span {s}, progress {})", e.time, sst + tp * p.dur, e.path_progress));
            }
        }
        // multiples of the tick distance; never within 10 ms of travel of the end
        for (j, pr) in prog.iter().enumerate() {
            let d = (j as f64 + 1.0) * p.td;
            let tol = 1e-9 * len * (j as f64 + 1.0) + 1e-300;
            if !((pr * len - d).abs() <= tol) {
                bad(out, format!("tick {j} of span {s} at distance {} is not {}x tick distance {}", pr * len, j + 1, p.td));
            }
            if !(d < len - min_from_end + tol) || !(d <= len + tol) {
                bad(out, format!("tick {j} of span {s} at {d} lies within {min_from_end} of the end {len}"));
            }
        }
        // ... and no tick is missing: the next multiple is beyond the limit
        {
            let d = (prog.len() as f64 + 1.0) * p.td;
            let tol = 1e-9 * len * (prog.len() as f64 + 1.0) + 1e-300;
            let fits = p.td > 0.0 && d <= len - tol && d < len - min_from_end - tol;
            if fits {
                bad(out, format!("span {s}: tick {} at {d} is missing (len {len}, min dist from end {min_from_end})", prog.len()));
            }
            if !(p.td > 0.0) && !prog.is_empty() {
                bad(out, format!("zero tick distance but {} ticks", prog.len()));
            }
        }
        // identically placed on every span
        match &first_prog {
            None => first_prog = Some(prog),
            Some(f) => {
                if f.len() != prog.len() || !f.iter().zip(prog.iter()).all(|(a, b)| bits_eq(*a, *b)) {
                    bad(out, format!("tick placement of span {s} differs from span 0"));
                }
            }
        }
        if s < n - 1 {
            match body.get(i) {
                Some(r) if r.kind == SliderEventType::Repeat && r.span_idx == s => {
                    if !close(r.time, sst + p.dur, scale) || r.path_progress != f64::from((s + 1) % 2) || !close(r.span_start_time, sst, scale) {
                        bad(out, format!("repeat of span {s} wrong: {r:?}"));
                    }
                    i += 1;
                }
                other => {
                    bad(out, format!("repeat of span {s} missing, found {other:?}"));
                    return;
                }
            }
        }
    }
    if i != body.len() {
        bad(out, format!("unexpected event {:?} at position {}", body[i], i + 1));
    }
}

fn describe(cmds: &[Cmd]) -> String {
    format!("{:?}", cmds)
}

/// Runs one history on the implementation; every `New` in the property's
/// domain is also collected with a fresh buffer and checked by the oracle,
/// and the events pulled in the history must be a prefix of that stream.
pub fn run_case(cmds: &[Cmd], out: &mut Out, tag: &str) {
    let desc = describe(cmds);
    let mut case = Line::entry("c20");
    let mut res = Line::new();
    let mut buf: Vec<SliderEvent> = Vec::new();
    let mut n_events = 0u64;
    let mut n_ticks = 0u64;
    let mut n_new = 0u64;
    let mut n_abandoned = 0u64;
    let mut i = 0usize;
    while i < cmds.len() {
        match &cmds[i] {
            Cmd::Junk(k) => {
                case.i(3).i(*k as i128);
                for j in 0..*k {
                    buf.push(junk(j));
                }
                i += 1;
            }
            Cmd::Next(_) | Cmd::Drain => {
                // no live iterator (never generated)
                match &cmds[i] {
                    Cmd::Next(k) => {
                        case.i(1).i(*k as i128);
                    }
                    _ => {
                        case.i(2);
                    }
                }
                res.i(97);
                i += 1;
            }
            Cmd::New(p) => {
                let p = *p;
                case.i(0).f64(p.start).f64(p.dur).f64(p.vel).f64(p.td).f64(p.total).i(p.n as i128);
                n_new += 1;
                // reference stream with a fresh buffer
                let reference: Option<Result<Vec<SliderEvent>, String>> = if collectable_big(&p) {
                    Some(guarded(|| {
                        let mut fresh = Vec::new();
                        SliderEventsIter::new(p.start, p.dur, p.vel, p.td, p.total, p.n, &mut fresh).collect::<Vec<_>>()
                    }))
                } else {
                    None
                };
                if p.n >= 1 && p.total < 0.0 && p.total.is_finite() && p.start.is_finite() && p.dur.is_finite() && p.vel.is_finite() && !p.td.is_nan() {
                    // finite parameters, span count >= 1, but a negative length
                    if let Some(Err(msg)) = &reference {
                        out.oracle_checks += 1;
                        out.fail(NEGLEN, &format!("{p:?}"), &format!("SliderEventsIter::new panics: {msg}"));
                    }
                }
                if in_domain(&p) {
                    match &reference {
                        Some(Ok(evs)) => check_stream(&p, evs, out, &format!("{p:?}")),
                        Some(Err(msg)) => {
                            out.oracle_checks += 1;
                            out.fail("", &format!("{p:?}"), &format!("panic: {msg}"));
                        }
                        None => {}
                    }
                }
                let mut pulled: Vec<SliderEvent> = vec![];
                let mut finished = false;
                let junk_before = buf.len();
                let mut j = i + 1;
                match new_iter(&p, &mut buf) {
                    Err(msg) => {
                        res.i(1).i(if msg.contains("min > max") { 1 } else { 9 });
                        out.count("new.panic");
                        // the following Next/Drain have no iterator
                        while j < cmds.len() && matches!(cmds[j], Cmd::Next(_) | Cmd::Drain) {
                            match &cmds[j] {
                                Cmd::Next(k) => {
                                    case.i(1).i(*k as i128);
                                }
                                _ => {
                                    case.i(2);
                                }
                            }
                            res.i(97);
                            j += 1;
                        }
                    }
                    Ok(mut it) => {
                        res.i(0);
                        while j < cmds.len() && matches!(cmds[j], Cmd::Next(_) | Cmd::Drain) {
                            match &cmds[j] {
                                Cmd::Next(k) => {
                                    case.i(1).i(*k as i128);
                                    for _ in 0..*k {
                                        match it.next() {
                                            Some(e) => {
                                                res.i(1);
                                                dump_ev(&mut res, &e);
                                                pulled.push(e);
                                            }
                                            None => {
                                                res.i(0);
                                                finished = true;
                                            }
                                        }
                                    }
                                }
                                _ => {
                                    case.i(2);
                                    loop {
                                        match it.next() {
                                            Some(e) => {
                                                res.i(1);
                                                dump_ev(&mut res, &e);
                                                pulled.push(e);
                                            }
                                            None => {
                                                res.i(0);
                                                finished = true;
                                                break;
                                            }
                                        }
                                    }
                                }
                            }
                            j += 1;
                        }
                        drop(it);
                        if !finished {
                            n_abandoned += 1;
                        }
                    }
                }
                n_events += pulled.len() as u64;
                n_ticks += pulled.iter().filter(|e| e.kind == SliderEventType::Tick).count() as u64;
                // buffer independence: what was pulled through the shared
                // (junk-filled / left-over) buffer is the stream of a fresh buffer
                if let Some(Ok(evs)) = &reference {
                    out.oracle_checks += 1;
                    let ok = pulled.len() <= evs.len() && pulled.iter().zip(evs.iter()).all(|(a, b)| ev_eq(a, b)) && (!finished || pulled.len() == evs.len());
                    if !ok {
                        out.fail("", &desc, &format!("stream through the shared buffer ({junk_before} left-over events) differs from the stream with a fresh buffer for {p:?}"));
                    }
                }
                i = j;
            }
        }
    }
    res.i(buf.len() as i128);
    out.count(&format!("stream.{tag}"));
    out.count_n("iterators", n_new);
    out.count_n("iterators.abandoned_half_way", n_abandoned);
    out.count_n("events.pulled", n_events);
    out.count_n("events.ticks", n_ticks);
    out.case(case.0, res.0, desc, n_ticks >= 1 && n_events >= 4);
}

fn full(p: P) -> Vec<Cmd> {
    vec![Cmd::New(p), Cmd::Drain]
}

const RATIOS: [f64; 8] = [0.0, 1.0 / 7.0, 0.25, 1.0 / 3.0, 0.5, 1.0, 2.0, f64::INFINITY];

fn rand_playable(r: &mut Rng) -> P {
    let n = match r.below(10) {
        0..=4 => 1,
        5..=6 => 2,
        7 => 3,
        8 => r.range(4, 8) as i32,
        _ => r.range(9, 40) as i32,
    };
    let vel = match r.below(4) {
        0 => *r.pick(&[0.1, 0.35, 0.7, 1.4, 2.8, 3.6]),
        _ => 0.05 + r.unit() * 4.0,
    };
    let total = match r.below(6) {
        0 => r.range(1, 600) as f64,
        1 => r.unit() * 30.0,
        _ => 10.0 + r.unit() * 900.0,
    };
    let dur = total / vel;
    let td = match r.below(8) {
        0 => f64::INFINITY,
        1 => 0.0,
        2 => total * *r.pick(&RATIOS[1..6]),
        3 => 100.0 * vel.max(0.3) / *r.pick(&[1.0, 2.0, 3.0, 4.0, 8.0]),
        _ => total * (0.01 + r.unit()),
    };
    let start = match r.below(5) {
        0 => 0.0,
        1 => r.range(-2000, 400000) as f64,
        _ => (r.unit() * 300000.0 * 8.0).round() / 8.0,
    };
    fit(P { start, dur, vel, td, total, n })
}

fn rand_bits(r: &mut Rng) -> f64 {
    f64::from_bits(r.next())
}

fn rand_extreme(r: &mut Rng) -> P {
    let mut p = rand_playable(r);
    for _ in 0..(1 + r.below(2)) {
        match r.below(12) {
            0 => p.total = *r.pick(&[0.0, -0.0, -1.0, -1e-300, f64::NEG_INFINITY, f64::NAN, f64::INFINITY, 1e300, 100_000.0, 100_000.00000000001, 99_999.99999999999, 5e-324]),
            1 => p.vel = *r.pick(&[0.0, -0.0, -1.0, f64::NAN, f64::INFINITY, f64::NEG_INFINITY, 1e300, 5e-324, -50.0]),
            2 => p.td = *r.pick(&[-0.0, -1.0, f64::NAN, f64::NEG_INFINITY, f64::INFINITY, 1e300]),
            3 => p.dur = *r.pick(&[0.0, -0.0, -100.0, f64::NAN, f64::INFINITY, 1e300, 5e-324, f64::NEG_INFINITY]),
            4 => p.start = *r.pick(&[-0.0, f64::NAN, f64::INFINITY, f64::NEG_INFINITY, 1e300, -1e300, 9007199254740992.0, 1e15]),
            5 => {
                // subnormal / tiny length with a tick distance inside the loop budget
                let k = r.range(1, 300) as u64;
                let unit = f64::from_bits(r.range(1, 1 << 20) as u64);
                p.td = unit;
                p.total = f64::from_bits(unit.to_bits() * k + r.below(3) as u64);
                p.vel = *r.pick(&[0.0, 5e-324, 1e-320, 1e-310]);
            }
            6 => {
                // huge length (capped at MAX_LEN) with a coarse tick distance
                p.total = *r.pick(&[1e5, 1e6, 1e9, 1e300, f64::INFINITY, 123456.789]);
                p.td = 1.0 + r.unit() * 5000.0;
            }
            7 => {
                // tick distance at the loop budget
                p.td = p.total / (50.0 + r.unit() * 440.0);
            }
            8 => p.n = *r.pick(&[1, 2, 3, 7, 50, 64]),
            9 => {
                p.start = rand_bits(r);
                p.dur = rand_bits(r);
            }
            10 => p.vel = rand_bits(r),
            _ => {
                p.total = rand_bits(r).abs();
                p.td = p.total * r.unit();
            }
        }
    }
    // keep the tick loop inside the budget
    if !(loop_budget(&p) <= 500.0) {
        p.td = f64::INFINITY;
    }
    if p.n > 64 {
        p.n = 64;
    }
    fit(p)
}

/// A history over one buffer: several iterators, some abandoned half-way,
/// junk pushed in between.
fn rand_history(r: &mut Rng, extreme: bool) -> Vec<Cmd> {
    let mut cmds = vec![];
    if r.chance(1, 2) {
        cmds.push(Cmd::Junk(r.range(1, 9) as u32));
    }
    let k = r.range(2, 5);
    for _ in 0..k {
        let p = if extreme && r.chance(1, 2) { rand_extreme(r) } else { rand_playable(r) };
        let ok = collectable(&p);
        cmds.push(Cmd::New(p));
        if !ok {
            // cannot drain safely: pull a few events only if the loop is bounded
            if loop_budget(&p) <= MAX_LOOP && p.n >= 0 {
                cmds.push(Cmd::Next(r.range(1, 6) as u32));
            }
            continue;
        }
        match r.below(5) {
            0 => {} // abandoned immediately
            1 | 2 => {
                cmds.push(Cmd::Next(r.range(1, 7) as u32)); // abandoned half-way
                if r.chance(1, 3) {
                    cmds.push(Cmd::Next(r.range(1, 4) as u32));
                }
            }
            3 => {
                cmds.push(Cmd::Next(r.range(1, 4) as u32));
                cmds.push(Cmd::Drain);
            }
            _ => {
                cmds.push(Cmd::Drain);
                if r.chance(1, 4) {
                    cmds.push(Cmd::Next(2)); // fused: None again
                }
            }
        }
        if r.chance(1, 4) {
            cmds.push(Cmd::Junk(r.range(1, 5) as u32));
        }
    }
    cmds
}

/// known finding: `new` panics (f64::clamp precondition) on a negative length
pub const NEGLEN: &str = "D18";

pub const RULE: &str = "histories New/Next/Drain/Junk over ONE shared Vec<SliderEvent>: exhaustive grid span counts 1..6 x tick/length ratios {0,1/7,1/4,1/3,1/2,1,2,inf} x velocities x durations (each drained, each also abandoned half-way before the next slider), random playable sliders, extremes (zero/negative/huge/NaN/inf/subnormal parameters inside the loop budget), and a separate malformed stream (span count 0, negative, i32::MIN/MAX; only finitely many events pulled); non-trivial = at least one tick and at least 4 events pulled; distinct = distinct case lines";

pub fn generate(tier: &str, seed: u64, out: &mut Out) {
    let mut r = Rng::new(seed ^ 0xC20);
    let thorough = tier == "thorough";
    // the crate's own unit-test shapes first
    for (td, n, vel) in [(500.0, 1, 1.0), (500.0, 2, 1.0), (300.0, 2, 1.0), (5.0, 2, 5.0)] {
        run_case(&full(P { start: 0.0, dur: 1000.0, vel, td, total: 1000.0, n }), out, "unit_test_shapes");
    }
    // exhaustive grid of the quantifier
    let vels: &[f64] = if thorough { &[0.1, 0.5, 1.0, 1.4, 2.25, 3.6] } else { &[0.5, 1.4, 3.6] };
    let durs: &[f64] = if thorough { &[1.0, 50.0, 333.3333333333333, 1000.0, 12345.678] } else { &[50.0, 333.3333333333333, 1000.0] };
    let lens: &[f64] = if thorough { &[30.0, 140.0, 525.0] } else { &[140.0] };
    let starts: &[f64] = if thorough { &[0.0, 1234.5, 250_000.0] } else { &[1234.5] };
    let mut prev: Option<P> = None;
    for n in 1..=6 {
        for ratio in RATIOS {
            for &vel in vels {
                for &dur in durs {
                    for &total in lens {
                        for &start in starts {
                            let td = if ratio.is_infinite() { f64::INFINITY } else { total * ratio };
                            let p = P { start, dur, vel, td, total, n };
                            run_case(&full(p), out, "grid");
                            // the same slider after an abandoned one, with junk
                            if let Some(q) = prev {
                                let cut = 1 + r.below(6) as u32;
                                run_case(&[Cmd::Junk(3), Cmd::New(q), Cmd::Next(cut), Cmd::New(p), Cmd::Drain], out, "grid.after_abandoned");
                            }
                            prev = Some(p);
                        }
                    }
                }
            }
        }
    }
    // random playable parameters
    let n_play = if thorough { 30000 } else { 2500 };
    for _ in 0..n_play {
        let p = rand_playable(&mut r);
        if collectable(&p) {
            run_case(&full(p), out, "playable");
        }
    }
    // histories sharing one buffer
    let n_hist = if thorough { 20000 } else { 1500 };
    for _ in 0..n_hist {
        let h = rand_history(&mut r, false);
        run_case(&h, out, "history");
    }
    // extremes
    let n_ext = if thorough { 20000 } else { 1500 };
    for k in 0..n_ext {
        if k % 3 == 0 {
            let h = rand_history(&mut r, true);
            run_case(&h, out, "extreme.history");
        } else {
            let p = rand_extreme(&mut r);
            if collectable(&p) {
                run_case(&full(p), out, "extreme");
            } else if loop_budget(&p) <= MAX_LOOP {
                run_case(&[Cmd::New(p), Cmd::Next(7)], out, "extreme");
            }
        }
    }
    // a few sliders at the loop budget (10^5 ticks per span)
    for k in 0..(if thorough { 6 } else { 2 }) {
        let total = 1000.0 + k as f64;
        let steps = if thorough { 100_000.0 } else { 8_000.0 };
        run_case(&full(P { start: 0.0, dur: 2000.0, vel: 0.001, td: total / steps, total, n: 1 + (k % 2) }), out, "loop_budget");
    }
    // malformed stream: span count 0, negative, extreme; never drained when
    // the real iterator would not terminate
    let n_mal = if thorough { 3000 } else { 300 };
    for k in 0..n_mal {
        let mut p = rand_playable(&mut r);
        p.n = match k % 6 {
            0 => 0,
            1 => -1,
            2 => -(r.range(2, 1000) as i32),
            3 => i32::MIN,
            4 => i32::MAX,
            _ => i32::MIN + 1,
        };
        if p.n == 0 {
            run_case(&[Cmd::Junk(2), Cmd::New(p), Cmd::Drain], out, "malformed.zero_spans");
            continue;
        }
        // every span needs at least one tick, else next() spins through the spans
        p.td = p.total / *r.pick(&[2.0, 3.0, 4.5]);
        p.vel = 0.01;
        if !(p.total > 1.0) {
            p.total = 100.0;
            p.td = 30.0;
        }
        let pulls = r.range(1, 12) as u32;
        run_case(&[Cmd::New(p), Cmd::Next(pulls), Cmd::New(rand_playable(&mut r)), Cmd::Next(3)], out, "malformed.bad_span_count");
    }
}

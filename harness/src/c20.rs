//! C20: slider event stream — histories over one shared tick buffer,
//! implementation run, dump, and the oracle written from the property text.
use crate::out::Out;
use crate::proto::Line;
use crate::rng::Rng;
use crate::util::guarded;
use rosu_map::section::hit_objects::{SliderEvent, SliderEventType, SliderEventsIter};

#[derive(Clone, Copy, Debug, PartialEq)]
pub struct P {
    pub start: f64,
    pub dur: f64,
    pub vel: f64,
    pub td: f64,
    pub total: f64,
    pub n: i32,
}

#[derive(Clone, Debug)]
pub enum Cmd {
    New(P),
    Next(u32),
    Drain,
    Junk(u32),
}

fn kind_code(k: SliderEventType) -> i128 {
    match k {
        SliderEventType::Head => 0,
        SliderEventType::Tick => 1,
        SliderEventType::Repeat => 2,
        SliderEventType::LastTick => 3,
        SliderEventType::Tail => 4,
    }
}

fn dump_ev(l: &mut Line, e: &SliderEvent) {
    l.i(kind_code(e.kind)).i(e.span_idx as i128).f64(e.span_start_time).f64(e.time).f64(e.path_progress);
}

fn junk(i: u32) -> SliderEvent {
    SliderEvent { kind: SliderEventType::Tick, span_idx: i as i32, span_start_time: 7.0, time: i as f64, path_progress: 1.0 }
}

fn new_iter<'a>(p: &P, buf: &'a mut Vec<SliderEvent>) -> Result<SliderEventsIter<'a>, String> {
    guarded(move || SliderEventsIter::new(p.start, p.dur, p.vel, p.td, p.total, p.n, buf))
}

/// Upper bound on the iterations of the `while d <= len` loop for one span
/// (None: the loop does not run).  Used only to keep generated cases inside
/// the budget; the model uses fuel.
fn loop_budget(p: &P) -> f64 {
    let len = 100_000.0f64.min(p.total);
    if !(len >= 0.0) {
        return 0.0; // new() panics
    }
    let td = if p.td < 0.0 { 0.0 } else if p.td > len { len } else { p.td };
    if !(td > 0.0) {
        return 0.0;
    }
    len / td
}

/// The extracted model costs about 1 ms per event (Flocq arithmetic on
/// inductive integers), so ordinary cases stay small and only the dedicated
/// "loop_budget" cases run long tick loops.
pub const MAX_LOOP: f64 = 2_500.0;
pub const MAX_EVENTS: f64 = 600.0;
pub const BIG_LOOP: f64 = 120_000.0;

/// Is a full `collect()` of this slider safe to run (terminates quickly)?
fn collectable(p: &P) -> bool {
    let b = loop_budget(p);
    p.n >= 0 && p.n <= 64 && b <= MAX_LOOP && b * (p.n as f64) <= MAX_EVENTS
}
fn collectable_big(p: &P) -> bool {
    let b = loop_budget(p);
    p.n >= 0 && p.n <= 64 && b <= BIG_LOOP && b * (p.n as f64) <= 2.0 * BIG_LOOP
}
/// shrink the span count until the whole stream fits the event budget
fn fit(mut p: P) -> P {
    let b = loop_budget(&p);
    if p.n > 1 && b * (p.n as f64) > MAX_EVENTS {
        p.n = ((MAX_EVENTS / b.max(1.0)) as i32).max(1);
    }
    p
}

fn bits_eq(a: f64, b: f64) -> bool {
    (a.is_nan() && b.is_nan()) || a.to_bits() == b.to_bits()
}
fn ev_eq(a: &SliderEvent, b: &SliderEvent) -> bool {
    a.kind == b.kind
        && a.span_idx == b.span_idx
        && bits_eq(a.span_start_time, b.span_start_time)
        && bits_eq(a.time, b.time)
        && bits_eq(a.path_progress, b.path_progress)
}

fn close(a: f64, b: f64, scale: f64) -> bool {
    // overflowing parameters make both the closed form and the stream NaN
    a == b || (a.is_nan() && b.is_nan()) || (a - b).abs() <= 1e-9 * scale.max(1.0)
}

/// Same value (the oracle's expression is the float expression tree that the
/// closed-form examples of Properties/C20.v state by reflexivity: tolerance 0).
fn same(a: f64, b: f64) -> bool {
    a == b || (a.is_nan() && b.is_nan())
}

/// Unit in the last place of |x| in binary64 (Flocq's `ulp`, `ulp64` in
/// Properties/C20.v): 2^(e-53) for 2^(e-1) <= |x| < 2^e, 2^-1074 below 2^-1022.
/// The difference to the next float is exact.  Non-finite for non-finite x.
fn ulp(x: f64) -> f64 {
    let a = x.abs();
    if !a.is_finite() {
        return f64::NAN;
    }
    f64::from_bits(a.to_bits() + 1) - a
}

/// |a - b| <= tol with a PROVED tolerance; when the tolerance is not finite
/// (an intermediate value overflowed: the theorems' no-overflow hypotheses
/// fail) fall back to the loose relative check.
fn within(a: f64, b: f64, tol: f64, scale: f64) -> bool {
    if tol.is_finite() {
        same(a, b) || (a - b).abs() <= tol
    } else {
        close(a, b, scale)
    }
}

/// Relative head-room for evaluating a tolerance itself in binary64 (a handful
/// of roundings, each 2^-53 relative).
const TOL_EVAL: f64 = 1.0 + 1e-9;

/// The property's domain: span count >= 1, finite parameters, playable signs.
fn in_domain(p: &P) -> bool {
    p.n >= 1
        && p.start.is_finite()
        && p.dur.is_finite()
        && p.dur >= 0.0
        && p.vel.is_finite()
        && p.vel >= 0.0
        && p.total.is_finite()
        && p.total >= 0.0
        && (p.td >= 0.0)  // finite or +inf ("no ticks")
}

/// Half of a sum of ulps (exact unless the sum is subnormal, where halving could
/// round down: there the sum itself is used).
fn half(sum_of_ulps: f64) -> f64 {
    if sum_of_ulps < 1e-300 { sum_of_ulps } else { 0.5 * sum_of_ulps }
}

/// Oracle from the property text on one complete stream (fresh buffer).
///
/// Tolerances.  Where the oracle's expression is the float expression with
/// which Properties/C20.v states a closed form by reflexivity (span start
/// `start + s*dur`, repeat `span_start + dur`, tail `start + n*dur`, tick time
/// `span_start + time_progress*dur` from the tick's own progress:
/// C20_span_start/repeat/tail_closed_form, C20_ieee_same_ticks_every_span) the
/// comparison is exact.  Where the property speaks about real numbers
/// ("multiples of the tick distance", "36 ms before the end") the tolerance is
/// the bound PROVED in Properties/C20.v, section "T20c, continued", plus the
/// roundings of the oracle's own binary64 evaluation of the reference value,
/// spelled out at each use.  U = ulp(len)/2 is half a unit in the last place
/// of the (capped) length.
fn check_stream(p: &P, evs: &[SliderEvent], out: &mut Out, desc: &str) {
    out.oracle_checks += 1;
    let mut bad = |out: &mut Out, what: String| out.fail("", desc, &what);
    let n = p.n;
    // paths longer than MAX_LEN are capped: ticks, their progress and the 10 ms rule refer to the capped length
    let len = p.total.min(100_000.0);
    let scale = p.start.abs().max((n as f64 * p.dur).abs());
    if evs.len() < 3 {
        bad(out, format!("only {} events", evs.len()));
        return;
    }
    // exactly one head, first
    let h = &evs[0];
    if h.kind != SliderEventType::Head || h.span_idx != 0 || !bits_eq(h.time, p.start) || !bits_eq(h.span_start_time, p.start) || h.path_progress != 0.0 {
        bad(out, format!("head event wrong: {h:?}"));
    }
    if evs.iter().filter(|e| e.kind == SliderEventType::Head).count() != 1 {
        bad(out, "not exactly one head".into());
    }
    // last tick then tail, last
    let lt = &evs[evs.len() - 2];
    let tl = &evs[evs.len() - 1];
    if lt.kind != SliderEventType::LastTick || tl.kind != SliderEventType::Tail {
        bad(out, format!("stream does not end with last tick, tail: {lt:?} {tl:?}"));
        return;
    }
    if evs.iter().filter(|e| e.kind == SliderEventType::LastTick).count() != 1 || evs.iter().filter(|e| e.kind == SliderEventType::Tail).count() != 1 {
        bad(out, "not exactly one last tick / tail".into());
    }
    let fsst = p.start + f64::from(n - 1) * p.dur;
    let total = f64::from(n) * p.dur;
    let end = p.start + total;
    // tail: at the end, progress = n % 2 (C20_tail_closed_form: exact)
    if tl.span_idx != n - 1 || !same(tl.time, end) || tl.path_progress != f64::from(n % 2) || !same(tl.span_start_time, fsst) {
        bad(out, format!("tail wrong: {tl:?}, expected time {end}, span start {fsst}"));
    }
    // legacy last tick: max(half-way, 36 ms before the end).
    // C20_ieee_last_tick_time_error: the implementation's second branch
    // ((start + (n-1)*dur) + dur) + (-36) is within eb of start + n*dur - 36;
    // the oracle's reading `end - 36.0` is within eb_o of it (one product, two
    // additions); the first branch `start + (n*dur)/2` is the implementation's
    // own expression (within ea of start + n*dur/2 on both sides, difference
    // 0); max is 1-Lipschitz in the sup norm.
    let half_off = total / 2.0;
    let half_way = p.start + half_off;
    let before_end = end - 36.0;
    let want_lt = half_way.max(before_end);
    let send_last = fsst + p.dur;
    let b_impl = send_last + (-36.0);
    let efs = half(ulp(f64::from(n - 1) * p.dur) + ulp(fsst));
    let ea = half(ulp(total) + ulp(half_off) + ulp(half_way));
    let eb = half(ulp(f64::from(n - 1) * p.dur) + ulp(fsst) + ulp(send_last) + ulp(b_impl));
    let eb_o = half(ulp(total) + ulp(end) + ulp(before_end));
    let tol_lt = (eb + eb_o) * TOL_EVAL;
    if lt.span_idx != n - 1 || !within(lt.time, want_lt, tol_lt, scale) || !same(lt.span_start_time, fsst) {
        bad(out, format!("last tick wrong: {lt:?}, expected time {want_lt} (tolerance {tol_lt:e})"));
    }
    if p.dur > 0.0 {
        // C20_ieee_last_tick_progress_error for the implementation's value,
        // and the same three roundings (difference, quotient, mirror) for the
        // oracle's own evaluation from `want_lt`
        let diff_i = lt.time - fsst;
        let q_i = diff_i / p.dur;
        let diff_o = want_lt - fsst;
        let q_o = diff_o / p.dur;
        let mut prog = q_o;
        if n % 2 == 0 {
            prog = 1.0 - prog;
        }
        let tol_i = (ea.max(eb) + efs + half(ulp(diff_i))) / p.dur + half(ulp(q_i)) + half(ulp(lt.path_progress));
        let tol_o = (ea.max(eb_o) + efs + half(ulp(diff_o))) / p.dur + half(ulp(q_o)) + half(ulp(prog));
        let tol_p = (tol_i + tol_o) * TOL_EVAL;
        let ok = if tol_p.is_finite() {
            same(lt.path_progress, prog) || (lt.path_progress - prog).abs() <= tol_p
        } else {
            !(p.dur > 1e-6) || close(lt.path_progress, prog, scale / p.dur)
        };
        if !ok {
            bad(out, format!("last tick progress {} expected {} (tolerance {tol_p:e})", lt.path_progress, prog));
        }
    }
    // body: per span ticks (chronological) then a repeat, except after the last span
    let body = &evs[1..evs.len() - 2];
    let mut i = 0usize;
    let mut first_prog: Option<Vec<f64>> = None;
    let min_from_end = 10.0 * p.vel;
    // the implementation's `len - min_dist_from_end` (same float expression)
    let lm = len - min_from_end;
    let len_u = ulp(len); // = 2U
    for s in 0..n {
        let sst = p.start + f64::from(s) * p.dur;
        let send = sst + p.dur;
        let mag = sst.abs().max(send.abs());
        let mut ticks: Vec<&SliderEvent> = vec![];
        while i < body.len() && body[i].kind == SliderEventType::Tick && body[i].span_idx == s {
            ticks.push(&body[i]);
            i += 1;
        }
        // chronological order
        if !ticks.windows(2).all(|w| w[0].time <= w[1].time) {
            bad(out, format!("ticks of span {s} not in chronological order"));
        }
        // travel order = chronological on even spans, reversed on odd spans
        let mut travel: Vec<&SliderEvent> = ticks.clone();
        if s % 2 == 1 {
            travel.reverse();
        }
        let prog: Vec<f64> = travel.iter().map(|e| e.path_progress).collect();
        for e in ticks.iter() {
            if !same(e.span_start_time, sst) {
                bad(out, format!("tick span start {} expected {}", e.span_start_time, sst));
            }
            // mirrored in time on reversed spans: time = span start + time progress * duration (exact)
            let tp = if s % 2 == 1 { 1.0 - e.path_progress } else { e.path_progress };
            if !same(e.time, sst + tp * p.dur) {
                bad(out, format!("tick time {} expected {} (span {s}, progress {})", e.time, sst + tp * p.dur, e.path_progress));
            }
            // C20_ieee_span_weakly_chronological: no tick before the span start or after the span end
            if send.is_finite() && !(sst <= e.time && e.time <= send) {
                bad(out, format!("tick time {} outside its span [{sst}, {send}]", e.time));
            }
        }
        // multiples of the tick distance; never within 10 ms of travel of the end
        for (j, pr) in prog.iter().enumerate() {
            // y = (j+1)*td evaluated in binary64: |y - (j+1)*td| <= ulp(y)/2 <= 2U
            let y = (j as f64 + 1.0) * p.td;
            // C20_ieee_stream_tick_progress: |pr - (j+1)*td/len| <= j*U/len + 2^-53, i.e.
            // |pr*len - (j+1)*td| <= j*U + 2^-53*len < (j+2)*U; the product pr*len rounds
            // by <= U, y by <= 2U, the difference by 2^-53 relative: (j+5)*U*(1+2^-52) <=
            // (j+6)*U <= ceil((j+6)/2) * ulp(len), an exact binary64 number.
            let tol = (((j + 7) / 2) as f64) * len_u;
            if !((pr * len - y).abs() <= tol) {
                bad(out, format!("tick {j} of span {s} at distance {} is not {}x tick distance {} (tolerance {tol:e})", pr * len, j + 1, p.td));
            }
            // C20_ieee_tick_before_end: (j+1)*td < (len - mdfe) + j*U and <= len + j*U, so
            // y - lm < (j+2)*U and y - len <= (j+2)*U; the subtraction rounds by 2^-53 relative
            if !(y - lm <= tol) || !(y - len <= tol) {
                bad(out, format!("tick {j} of span {s} at {y} lies within {min_from_end} of the end {len}"));
            }
            // C20_ieee_stream_tick_time: the tick's time against the exact closed form
            // span_start + TP*dur, TP = (j+1)*td/len or 1 - (j+1)*td/len, whenever the span
            // end does not overflow:  time_err = (j*U/len + 2^-53 [+ 2^-53 mirrored])*dur +
            // ulp(dur)/2 + ulp(mag)/2 (2^-53 = EPSILON/2).  The oracle's own evaluation adds (2U/len + 2^-52 +
            // 2^-53)*dur (product y, quotient, mirror) + ulp(dur) (product) + ulp(mag) (sum).
            if send.is_finite() && p.dur.is_finite() {
                let q = y / len;
                let tp = if s % 2 == 1 { 1.0 - q } else { q };
                let want = sst + tp * p.dur;
                let tol_t = (((j as f64 + 2.0) * (len_u / len) * 0.5 + 4.0 * f64::EPSILON) * p.dur + 2.0 * ulp(p.dur) + 2.0 * ulp(mag)) * TOL_EVAL;
                if !within(travel[j].time, want, tol_t, scale) {
                    bad(out, format!("tick {j} of span {s} at time {} expected {want} (tolerance {tol_t:e})", travel[j].time));
                }
            }
        }
        // ... and no tick is missing: the next multiple is beyond the limit.
        // C20_ieee_first_rejected_sum(_step): with k ticks the running sum d_k fails the
        // guard (d_k > len or d_k >= len - mdfe) and |d_k - (k+1)*td| <= (k-1)*U + ulp(d_k)/2.
        // If y = fl((k+1)*td) had len - y >= (k+4)*U and lm - y > (k+4)*U then the exact
        // sum d_(k-1) + td <= y + k*U < len, so d_k <= len, ulp(d_k)/2 <= U, d_k <= y +
        // (k+1)*U: inside both guards, a contradiction.  One more U for the two subtractions.
        {
            let k = prog.len();
            let y = (k as f64 + 1.0) * p.td;
            let tolm = (((k + 6) / 2) as f64) * len_u;
            let fits = p.td > 0.0 && len - y >= tolm && lm - y > tolm;
            if fits {
                bad(out, format!("span {s}: tick {} at {y} is missing (len {len}, min dist from end {min_from_end})", prog.len()));
            }
            if !(p.td > 0.0) && !prog.is_empty() {
                bad(out, format!("zero tick distance but {} ticks", prog.len()));
            }
        }
        // identically placed on every span
        match &first_prog {
            None => first_prog = Some(prog),
            Some(f) => {
                if f.len() != prog.len() || !f.iter().zip(prog.iter()).all(|(a, b)| bits_eq(*a, *b)) {
                    bad(out, format!("tick placement of span {s} differs from span 0"));
                }
            }
        }
        if s < n - 1 {
            match body.get(i) {
                Some(r) if r.kind == SliderEventType::Repeat && r.span_idx == s => {
                    // C20_repeat_closed_form: exact
                    if !same(r.time, send) || r.path_progress != f64::from((s + 1) % 2) || !same(r.span_start_time, sst) {
                        bad(out, format!("repeat of span {s} wrong: {r:?}"));
                    }
                    // C20_ieee_span_weakly_chronological: the repeat is not before any tick of its span
                    if send.is_finite() && !ticks.iter().all(|e| e.time <= r.time) {
                        bad(out, format!("repeat of span {s} at {} before one of its ticks", r.time));
                    }
                    // C20_ieee_repeat_time_error: against the closed form start + (s+1)*dur
                    // evaluated by the oracle (one product, one addition)
                    let prod_o = f64::from(s + 1) * p.dur;
                    let want_r = p.start + prod_o;
                    let tol_r = (half(ulp(f64::from(s) * p.dur) + ulp(sst) + ulp(send)) + half(ulp(prod_o) + ulp(want_r))) * TOL_EVAL;
                    if !within(r.time, want_r, tol_r, scale) {
                        bad(out, format!("repeat of span {s} at {} expected {want_r} (tolerance {tol_r:e})", r.time));
                    }
                    i += 1;
                }
                other => {
                    bad(out, format!("repeat of span {s} missing, found {other:?}"));
                    return;
                }
            }
        }
    }
    if i != body.len() {
        bad(out, format!("unexpected event {:?} at position {}", body[i], i + 1));
    }
}

fn describe(cmds: &[Cmd]) -> String {
    format!("{:?}", cmds)
}

/// Runs one history on the implementation; every `New` in the property's
/// domain is also collected with a fresh buffer and checked by the oracle,
/// and the events pulled in the history must be a prefix of that stream.
pub fn run_case(cmds: &[Cmd], out: &mut Out, tag: &str) {
    let desc = describe(cmds);
    let mut case = Line::entry("c20");
    let mut res = Line::new();
    let mut buf: Vec<SliderEvent> = Vec::new();
    let mut n_events = 0u64;
    let mut n_ticks = 0u64;
    let mut n_new = 0u64;
    let mut n_abandoned = 0u64;
    let mut i = 0usize;
    while i < cmds.len() {
        match &cmds[i] {
            Cmd::Junk(k) => {
                case.i(3).i(*k as i128);
                for j in 0..*k {
                    buf.push(junk(j));
                }
                i += 1;
            }
            Cmd::Next(_) | Cmd::Drain => {
                // no live iterator (never generated)
                match &cmds[i] {
                    Cmd::Next(k) => {
                        case.i(1).i(*k as i128);
                    }
                    _ => {
                        case.i(2);
                    }
                }
                res.i(97);
                i += 1;
            }
            Cmd::New(p) => {
                let p = *p;
                case.i(0).f64(p.start).f64(p.dur).f64(p.vel).f64(p.td).f64(p.total).i(p.n as i128);
                n_new += 1;
                // reference stream with a fresh buffer
                let reference: Option<Result<Vec<SliderEvent>, String>> = if collectable_big(&p) {
                    Some(guarded(|| {
                        let mut fresh = Vec::new();
                        SliderEventsIter::new(p.start, p.dur, p.vel, p.td, p.total, p.n, &mut fresh).collect::<Vec<_>>()
                    }))
                } else {
                    None
                };
                if p.n >= 1 && p.total < 0.0 && p.total.is_finite() && p.start.is_finite() && p.dur.is_finite() && p.vel.is_finite() && !p.td.is_nan() {
                    // finite parameters, span count >= 1, but a negative length
                    if let Some(Err(msg)) = &reference {
                        out.oracle_checks += 1;
                        out.fail(NEGLEN, &format!("{p:?}"), &format!("SliderEventsIter::new panics: {msg}"));
                    }
                }
                if in_domain(&p) {
                    match &reference {
                        Some(Ok(evs)) => check_stream(&p, evs, out, &format!("{p:?}")),
                        Some(Err(msg)) => {
                            out.oracle_checks += 1;
                            out.fail("", &format!("{p:?}"), &format!("panic: {msg}"));
                        }
                        None => {}
                    }
                }
                let mut pulled: Vec<SliderEvent> = vec![];
                let mut finished = false;
                let junk_before = buf.len();
                let mut j = i + 1;
                match new_iter(&p, &mut buf) {
                    Err(msg) => {
                        res.i(1).i(if msg.contains("min > max") { 1 } else { 9 });
                        out.count("new.panic");
                        // the following Next/Drain have no iterator
                        while j < cmds.len() && matches!(cmds[j], Cmd::Next(_) | Cmd::Drain) {
                            match &cmds[j] {
                                Cmd::Next(k) => {
                                    case.i(1).i(*k as i128);
                                }
                                _ => {
                                    case.i(2);
                                }
                            }
                            res.i(97);
                            j += 1;
                        }
                    }
                    Ok(mut it) => {
                        res.i(0);
                        while j < cmds.len() && matches!(cmds[j], Cmd::Next(_) | Cmd::Drain) {
                            match &cmds[j] {
                                Cmd::Next(k) => {
                                    case.i(1).i(*k as i128);
                                    for _ in 0..*k {
                                        match it.next() {
                                            Some(e) => {
                                                res.i(1);
                                                dump_ev(&mut res, &e);
                                                pulled.push(e);
                                            }
                                            None => {
                                                res.i(0);
                                                finished = true;
                                            }
                                        }
                                    }
                                }
                                _ => {
                                    case.i(2);
                                    loop {
                                        match it.next() {
                                            Some(e) => {
                                                res.i(1);
                                                dump_ev(&mut res, &e);
                                                pulled.push(e);
                                            }
                                            None => {
                                                res.i(0);
                                                finished = true;
                                                break;
                                            }
                                        }
                                    }
                                }
                            }
                            j += 1;
                        }
                        drop(it);
                        if !finished {
                            n_abandoned += 1;
                        }
                    }
                }
                n_events += pulled.len() as u64;
                n_ticks += pulled.iter().filter(|e| e.kind == SliderEventType::Tick).count() as u64;
                // buffer independence: what was pulled through the shared
                // (junk-filled / left-over) buffer is the stream of a fresh buffer
                if let Some(Ok(evs)) = &reference {
                    out.oracle_checks += 1;
                    let ok = pulled.len() <= evs.len() && pulled.iter().zip(evs.iter()).all(|(a, b)| ev_eq(a, b)) && (!finished || pulled.len() == evs.len());
                    if !ok {
                        out.fail("", &desc, &format!("stream through the shared buffer ({junk_before} left-over events) differs from the stream with a fresh buffer for {p:?}"));
                    }
                }
                i = j;
            }
        }
    }
    res.i(buf.len() as i128);
    out.count(&format!("stream.{tag}"));
    out.count_n("iterators", n_new);
    out.count_n("iterators.abandoned_half_way", n_abandoned);
    out.count_n("events.pulled", n_events);
    out.count_n("events.ticks", n_ticks);
    out.case(case.0, res.0, desc, n_ticks >= 1 && n_events >= 4);
}

fn full(p: P) -> Vec<Cmd> {
    vec![Cmd::New(p), Cmd::Drain]
}

const RATIOS: [f64; 8] = [0.0, 1.0 / 7.0, 0.25, 1.0 / 3.0, 0.5, 1.0, 2.0, f64::INFINITY];

fn rand_playable(r: &mut Rng) -> P {
    let n = match r.below(10) {
        0..=4 => 1,
        5..=6 => 2,
        7 => 3,
        8 => r.range(4, 8) as i32,
        _ => r.range(9, 40) as i32,
    };
    let vel = match r.below(4) {
        0 => *r.pick(&[0.1, 0.35, 0.7, 1.4, 2.8, 3.6]),
        _ => 0.05 + r.unit() * 4.0,
    };
    let total = match r.below(6) {
        0 => r.range(1, 600) as f64,
        1 => r.unit() * 30.0,
        _ => 10.0 + r.unit() * 900.0,
    };
    let dur = total / vel;
    let td = match r.below(8) {
        0 => f64::INFINITY,
        1 => 0.0,
        2 => total * *r.pick(&RATIOS[1..6]),
        3 => 100.0 * vel.max(0.3) / *r.pick(&[1.0, 2.0, 3.0, 4.0, 8.0]),
        _ => total * (0.01 + r.unit()),
    };
    let start = match r.below(5) {
        0 => 0.0,
        1 => r.range(-2000, 400000) as f64,
        _ => (r.unit() * 300000.0 * 8.0).round() / 8.0,
    };
    fit(P { start, dur, vel, td, total, n })
}

fn rand_bits(r: &mut Rng) -> f64 {
    f64::from_bits(r.next())
}

fn rand_extreme(r: &mut Rng) -> P {
    let mut p = rand_playable(r);
    for _ in 0..(1 + r.below(2)) {
        match r.below(12) {
            0 => p.total = *r.pick(&[0.0, -0.0, -1.0, -1e-300, f64::NEG_INFINITY, f64::NAN, f64::INFINITY, 1e300, 100_000.0, 100_000.00000000001, 99_999.99999999999, 5e-324]),
            1 => p.vel = *r.pick(&[0.0, -0.0, -1.0, f64::NAN, f64::INFINITY, f64::NEG_INFINITY, 1e300, 5e-324, -50.0]),
            2 => p.td = *r.pick(&[-0.0, -1.0, f64::NAN, f64::NEG_INFINITY, f64::INFINITY, 1e300]),
            3 => p.dur = *r.pick(&[0.0, -0.0, -100.0, f64::NAN, f64::INFINITY, 1e300, 5e-324, f64::NEG_INFINITY]),
            4 => p.start = *r.pick(&[-0.0, f64::NAN, f64::INFINITY, f64::NEG_INFINITY, 1e300, -1e300, 9007199254740992.0, 1e15]),
            5 => {
                // subnormal / tiny length with a tick distance inside the loop budget
                let k = r.range(1, 300) as u64;
                let unit = f64::from_bits(r.range(1, 1 << 20) as u64);
                p.td = unit;
                p.total = f64::from_bits(unit.to_bits() * k + r.below(3) as u64);
                p.vel = *r.pick(&[0.0, 5e-324, 1e-320, 1e-310]);
            }
            6 => {
                // huge length (capped at MAX_LEN) with a coarse tick distance
                p.total = *r.pick(&[1e5, 1e6, 1e9, 1e300, f64::INFINITY, 123456.789]);
                p.td = 1.0 + r.unit() * 5000.0;
            }
            7 => {
                // tick distance at the loop budget
                p.td = p.total / (50.0 + r.unit() * 440.0);
            }
            8 => p.n = *r.pick(&[1, 2, 3, 7, 50, 64]),
            9 => {
                p.start = rand_bits(r);
                p.dur = rand_bits(r);
            }
            10 => p.vel = rand_bits(r),
            _ => {
                p.total = rand_bits(r).abs();
                p.td = p.total * r.unit();
            }
        }
    }
    // keep the tick loop inside the budget
    if !(loop_budget(&p) <= 500.0) {
        p.td = f64::INFINITY;
    }
    if p.n > 64 {
        p.n = 64;
    }
    fit(p)
}

/// A history over one buffer: several iterators, some abandoned half-way,
/// junk pushed in between.
fn rand_history(r: &mut Rng, extreme: bool) -> Vec<Cmd> {
    let mut cmds = vec![];
    if r.chance(1, 2) {
        cmds.push(Cmd::Junk(r.range(1, 9) as u32));
    }
    let k = r.range(2, 5);
    for _ in 0..k {
        let p = if extreme && r.chance(1, 2) { rand_extreme(r) } else { rand_playable(r) };
        let ok = collectable(&p);
        cmds.push(Cmd::New(p));
        if !ok {
            // cannot drain safely: pull a few events only if the loop is bounded
            if loop_budget(&p) <= MAX_LOOP && p.n >= 0 {
                cmds.push(Cmd::Next(r.range(1, 6) as u32));
            }
            continue;
        }
        match r.below(5) {
            0 => {} // abandoned immediately
            1 | 2 => {
                cmds.push(Cmd::Next(r.range(1, 7) as u32)); // abandoned half-way
                if r.chance(1, 3) {
                    cmds.push(Cmd::Next(r.range(1, 4) as u32));
                }
            }
            3 => {
                cmds.push(Cmd::Next(r.range(1, 4) as u32));
                cmds.push(Cmd::Drain);
            }
            _ => {
                cmds.push(Cmd::Drain);
                if r.chance(1, 4) {
                    cmds.push(Cmd::Next(2)); // fused: None again
                }
            }
        }
        if r.chance(1, 4) {
            cmds.push(Cmd::Junk(r.range(1, 5) as u32));
        }
    }
    cmds
}

/// known finding: `new` panics (f64::clamp precondition) on a negative length
pub const NEGLEN: &str = "D18";

pub const RULE: &str = "histories New/Next/Drain/Junk over ONE shared Vec<SliderEvent>: exhaustive grid span counts 1..6 x tick/length ratios {0,1/7,1/4,1/3,1/2,1,2,inf} x velocities x durations (each drained, each also abandoned half-way before the next slider), random playable sliders, extremes (zero/negative/huge/NaN/inf/subnormal parameters inside the loop budget), and a separate malformed stream (span count 0, negative, i32::MIN/MAX; only finitely many events pulled); non-trivial = at least one tick and at least 4 events pulled; distinct = distinct case lines";

pub fn generate(tier: &str, seed: u64, out: &mut Out) {
    let mut r = Rng::new(seed ^ 0xC20);
    let thorough = tier == "thorough";
    // the crate's own unit-test shapes first
    for (td, n, vel) in [(500.0, 1, 1.0), (500.0, 2, 1.0), (300.0, 2, 1.0), (5.0, 2, 5.0)] {
        run_case(&full(P { start: 0.0, dur: 1000.0, vel, td, total: 1000.0, n }), out, "unit_test_shapes");
    }
    // exhaustive grid of the quantifier
    let vels: &[f64] = if thorough { &[0.1, 0.5, 1.0, 1.4, 2.25, 3.6] } else { &[0.5, 1.4, 3.6] };
    let durs: &[f64] = if thorough { &[1.0, 50.0, 333.3333333333333, 1000.0, 12345.678] } else { &[50.0, 333.3333333333333, 1000.0] };
    let lens: &[f64] = if thorough { &[30.0, 140.0, 525.0] } else { &[140.0] };
    let starts: &[f64] = if thorough { &[0.0, 1234.5, 250_000.0] } else { &[1234.5] };
    let mut prev: Option<P> = None;
    for n in 1..=6 {
        for ratio in RATIOS {
            for &vel in vels {
                for &dur in durs {
                    for &total in lens {
                        for &start in starts {
                            let td = if ratio.is_infinite() { f64::INFINITY } else { total * ratio };
                            let p = P { start, dur, vel, td, total, n };
                            run_case(&full(p), out, "grid");
                            // the same slider after an abandoned one, with junk
                            if let Some(q) = prev {
                                let cut = 1 + r.below(6) as u32;
                                run_case(&[Cmd::Junk(3), Cmd::New(q), Cmd::Next(cut), Cmd::New(p), Cmd::Drain], out, "grid.after_abandoned");
                            }
                            prev = Some(p);
                        }
                    }
                }
            }
        }
    }
    // a multiple of the tick distance landing EXACTLY on the cut-off len - 10 * velocity (all
    // quantities exact in binary64), for lengths of every shape - the boundary of the tick rule
    for &vel in &[0.5, 1.0, 2.0, 3.0, 0.25, 1.5] {
        for &td in &[40.0, 30.0, 25.0, 12.5, 7.0, 10.0, 33.0, 0.75] {
            for k in 1..=(if thorough { 12 } else { 7 }) {
                for extra in [0.0, td / 2.0, td] {
                    let total = f64::from(k) * td + 10.0 * vel + extra;
                    for n in [1, 2, 3] {
                        let p = P { start: 1000.0, dur: total / vel, vel, td, total, n };
                        if collectable(&p) {
                            run_case(&full(p), out, "tick_on_cutoff");
                        }
                    }
                }
            }
        }
    }
    // random playable parameters
    let n_play = if thorough { 30000 } else { 2500 };
    for _ in 0..n_play {
        let p = rand_playable(&mut r);
        if collectable(&p) {
            run_case(&full(p), out, "playable");
        }
    }
    // histories sharing one buffer
    let n_hist = if thorough { 20000 } else { 1500 };
    for _ in 0..n_hist {
        let h = rand_history(&mut r, false);
        run_case(&h, out, "history");
    }
    // extremes
    let n_ext = if thorough { 20000 } else { 1500 };
    for k in 0..n_ext {
        if k % 3 == 0 {
            let h = rand_history(&mut r, true);
            run_case(&h, out, "extreme.history");
        } else {
            let p = rand_extreme(&mut r);
            if collectable(&p) {
                run_case(&full(p), out, "extreme");
            } else if loop_budget(&p) <= MAX_LOOP {
                run_case(&[Cmd::New(p), Cmd::Next(7)], out, "extreme");
            }
        }
    }
    // a few sliders at the loop budget (10^5 ticks per span)
    for k in 0..(if thorough { 6 } else { 2 }) {
        let total = 1000.0 + k as f64;
        let steps = if thorough { 100_000.0 } else { 8_000.0 };
        run_case(&full(P { start: 0.0, dur: 2000.0, vel: 0.001, td: total / steps, total, n: 1 + (k % 2) }), out, "loop_budget");
    }
    // malformed stream: span count 0, negative, extreme; never drained when
    // the real iterator would not terminate
    let n_mal = if thorough { 3000 } else { 300 };
    for k in 0..n_mal {
        let mut p = rand_playable(&mut r);
        p.n = match k % 6 {
            0 => 0,
            1 => -1,
            2 => -(r.range(2, 1000) as i32),
            3 => i32::MIN,
            4 => i32::MAX,
            _ => i32::MIN + 1,
        };
        if p.n == 0 {
            run_case(&[Cmd::Junk(2), Cmd::New(p), Cmd::Drain], out, "malformed.zero_spans");
            continue;
        }
        // every span needs at least one tick, else next() spins through the spans
        p.td = p.total / *r.pick(&[2.0, 3.0, 4.5]);
        p.vel = 0.01;
        if !(p.total > 1.0) {
            p.total = 100.0;
            p.td = 30.0;
        }
        let pulls = r.range(1, 12) as u32;
        run_case(&[Cmd::New(p), Cmd::Next(pulls), Cmd::New(rand_playable(&mut r)), Cmd::Next(3)], out, "malformed.bad_span_count");
    }
}

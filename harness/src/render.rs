//! Rendering of model token streams with Rust's own `Display` (the number
//! formatting oracle of DESIGN.md 3.4).  A model result line whose first
//! integer is the marker 0x7e57 is a token stream:
//!   0 n c1..cn   literal text (code points)
//!   1 bits       f64 via Display        2 bits   f32 via Display
//!   3 z          integer via Display
//! and is rewritten as the code points of the rendered text (length-prefixed),
//! which is what the harness records for the implementation's output.
use crate::proto::Line;
use std::fmt::Write;

pub const MARK: i128 = 0x7e57;

fn parse(tok: &str) -> i128 {
    let (neg, body) = match tok.strip_prefix('-') {
        Some(b) => (true, b),
        None => (false, tok),
    };
    let v = i128::from_str_radix(body, 16).unwrap_or(0);
    if neg {
        -v
    } else {
        v
    }
}

pub fn render_tokens(toks: &[i128]) -> Option<String> {
    let mut s = String::new();
    let mut i = 0;
    while i < toks.len() {
        match toks[i] {
            0 => {
                let n = *toks.get(i + 1)? as usize;
                for k in 0..n {
                    s.push(char::from_u32(*toks.get(i + 2 + k)? as u32)?);
                }
                i += 2 + n;
            }
            1 => {
                write!(s, "{}", f64::from_bits(*toks.get(i + 1)? as u64)).ok()?;
                i += 2;
            }
            2 => {
                write!(s, "{}", f32::from_bits(*toks.get(i + 1)? as u32)).ok()?;
                i += 2;
            }
            3 => {
                write!(s, "{}", *toks.get(i + 1)?).ok()?;
                i += 2;
            }
            _ => return None,
        }
    }
    Some(s)
}

pub fn render_file(inp: &str, outp: &str) {
    let text = std::fs::read_to_string(inp).expect("read model output");
    let mut out = String::with_capacity(text.len());
    for line in text.lines() {
        let toks: Vec<i128> = line.split(' ').filter(|t| !t.is_empty()).map(parse).collect();
        if toks.first() == Some(&MARK) {
            match render_tokens(&toks[1..]) {
                Some(s) => {
                    let mut l = Line::new();
                    l.i(MARK);
                    l.s(&s);
                    out.push_str(&l.0);
                }
                None => out.push_str("<unrenderable token stream>"),
            }
        } else {
            out.push_str(line);
        }
        out.push('\n');
    }
    std::fs::write(outp, out).expect("write rendered output");
}

//! C03: edits to a decoded map survive encode -> decode.
//!
//! Oracle, from the property text: for a decoded map M and an edit that sets
//! one field to a value the format can represent, M2 = decode(encode(edit M))
//! shows exactly the edited value, and every other preserved field equals the
//! one of B = decode(encode(M)).  `representable` below is written from the
//! property text and the documented .osu format, not from the model.
//!
//! Correspondence: model entry `edit` (decode, apply the edit, encode; token
//! stream rendered with Rust's Display) vs the same steps on the real crate,
//! for representable AND non-representable values.
use crate::out::Out;
use crate::proto::Line;
use crate::registry::{c02, c04};
use crate::render::MARK;
use crate::rng::Rng;
use rosu_map::section::colors::{Color, CustomColor};
use rosu_map::section::events::BreakPeriod;
use rosu_map::section::general::{CountdownType, GameMode};
use rosu_map::section::hit_objects::HitObjectKind;
use rosu_map::Beatmap;

pub const RULE: &str = "decoded maps (structured generator levels 0-2, object-centred generator, all four modes; bundled maps) x single-field edits of every field of the six simple sections with per-field value generators (text with `:` `//` `,` quotes, brackets, header-like and version-like and key-like text, non-ASCII, padding and line breaks for the non-representable stream; boundary numbers +-2147483647, subnormals, clamp bounds; flags, mode, countdown; bookmark / colour / break lists); oracle on representable edits only: edited value read back exactly, every other preserved field as in the unedited round trip; correspondence: model entry `edit` vs decode+edit+encode_to_string on slider-free files; non-trivial = the edit changes the field; distinct = distinct (text, edit)";

#[derive(Clone, Debug)]
pub enum Val {
    Int(i64),
    F64(f64),
    F32(f32),
    Bool(bool),
    Str(String),
    Ints(Vec<i32>),
    Breaks(Vec<(f64, f64)>),
    Combo(Vec<[u8; 4]>),
    Custom(Vec<(String, [u8; 4])>),
}

/// field ids: the order of `c02::simple_fields` without the two default-sample fields
pub const FIELDS: [&str; 38] = [
    "format_version",
    "audio_file",
    "audio_lead_in",
    "preview_time",
    "stack_leniency",
    "mode",
    "letterbox_in_breaks",
    "special_style",
    "widescreen_storyboard",
    "epilepsy_warning",
    "samples_match_playback_rate",
    "countdown",
    "countdown_offset",
    "bookmarks",
    "distance_spacing",
    "beat_divisor",
    "grid_size",
    "timeline_zoom",
    "title",
    "title_unicode",
    "artist",
    "artist_unicode",
    "creator",
    "version",
    "source",
    "tags",
    "beatmap_id",
    "beatmap_set_id",
    "hp_drain_rate",
    "circle_size",
    "overall_difficulty",
    "approach_rate",
    "slider_multiplier",
    "slider_tick_rate",
    "background_file",
    "breaks",
    "custom_combo_colors",
    "custom_colors",
];

fn mode_of(n: i64) -> GameMode {
    match n {
        1 => GameMode::Taiko,
        2 => GameMode::Catch,
        3 => GameMode::Mania,
        _ => GameMode::Osu,
    }
}
fn countdown_of(n: i64) -> CountdownType {
    match n {
        1 => CountdownType::Normal,
        2 => CountdownType::HalfSpeed,
        3 => CountdownType::DoubleSpeed,
        _ => CountdownType::None,
    }
}

/// the value field `id` has in `Beatmap::default()` (and, for the colour lists, the crate's public
/// default palette): an edit that sets a field back to a default is an edit like any other
pub fn default_value(id: usize) -> Val {
    let d = Beatmap::default();
    match id {
        0 => Val::Int(i64::from(d.format_version)),
        1 => Val::Str(d.audio_file),
        2 => Val::F64(d.audio_lead_in),
        3 => Val::Int(i64::from(d.preview_time)),
        4 => Val::F32(d.stack_leniency),
        5 => Val::Int(d.mode as i64),
        6 => Val::Bool(d.letterbox_in_breaks),
        7 => Val::Bool(d.special_style),
        8 => Val::Bool(d.widescreen_storyboard),
        9 => Val::Bool(d.epilepsy_warning),
        10 => Val::Bool(d.samples_match_playback_rate),
        11 => Val::Int(d.countdown as i64),
        12 => Val::Int(i64::from(d.countdown_offset)),
        13 => Val::Ints(d.bookmarks),
        14 => Val::F64(d.distance_spacing),
        15 => Val::Int(i64::from(d.beat_divisor)),
        16 => Val::Int(i64::from(d.grid_size)),
        17 => Val::F64(d.timeline_zoom),
        18 => Val::Str(d.title),
        19 => Val::Str(d.title_unicode),
        20 => Val::Str(d.artist),
        21 => Val::Str(d.artist_unicode),
        22 => Val::Str(d.creator),
        23 => Val::Str(d.version),
        24 => Val::Str(d.source),
        25 => Val::Str(d.tags),
        26 => Val::Int(i64::from(d.beatmap_id)),
        27 => Val::Int(i64::from(d.beatmap_set_id)),
        28 => Val::F32(d.hp_drain_rate),
        29 => Val::F32(d.circle_size),
        30 => Val::F32(d.overall_difficulty),
        31 => Val::F32(d.approach_rate),
        32 => Val::F64(d.slider_multiplier),
        33 => Val::F64(d.slider_tick_rate),
        34 => Val::Str(d.background_file),
        35 => Val::Breaks(vec![]),
        36 => Val::Combo(
            rosu_map::section::colors::Colors::DEFAULT_COMBO_COLORS.iter().map(|c| [c.red(), c.green(), c.blue(), c.alpha()]).collect(),
        ),
        _ => Val::Custom(vec![]),
    }
}

pub fn apply(m: &mut Beatmap, id: usize, v: &Val) {
    match (id, v) {
        (0, Val::Int(n)) => m.format_version = *n as i32,
        (1, Val::Str(s)) => m.audio_file = s.clone(),
        (2, Val::F64(x)) => m.audio_lead_in = *x,
        (3, Val::Int(n)) => m.preview_time = *n as i32,
        (4, Val::F32(x)) => m.stack_leniency = *x,
        (5, Val::Int(n)) => m.mode = mode_of(*n),
        (6, Val::Bool(b)) => m.letterbox_in_breaks = *b,
        (7, Val::Bool(b)) => m.special_style = *b,
        (8, Val::Bool(b)) => m.widescreen_storyboard = *b,
        (9, Val::Bool(b)) => m.epilepsy_warning = *b,
        (10, Val::Bool(b)) => m.samples_match_playback_rate = *b,
        (11, Val::Int(n)) => m.countdown = countdown_of(*n),
        (12, Val::Int(n)) => m.countdown_offset = *n as i32,
        (13, Val::Ints(l)) => m.bookmarks = l.clone(),
        (14, Val::F64(x)) => m.distance_spacing = *x,
        (15, Val::Int(n)) => m.beat_divisor = *n as i32,
        (16, Val::Int(n)) => m.grid_size = *n as i32,
        (17, Val::F64(x)) => m.timeline_zoom = *x,
        (18, Val::Str(s)) => m.title = s.clone(),
        (19, Val::Str(s)) => m.title_unicode = s.clone(),
        (20, Val::Str(s)) => m.artist = s.clone(),
        (21, Val::Str(s)) => m.artist_unicode = s.clone(),
        (22, Val::Str(s)) => m.creator = s.clone(),
        (23, Val::Str(s)) => m.version = s.clone(),
        (24, Val::Str(s)) => m.source = s.clone(),
        (25, Val::Str(s)) => m.tags = s.clone(),
        (26, Val::Int(n)) => m.beatmap_id = *n as i32,
        (27, Val::Int(n)) => m.beatmap_set_id = *n as i32,
        (28, Val::F32(x)) => m.hp_drain_rate = *x,
        (29, Val::F32(x)) => m.circle_size = *x,
        (30, Val::F32(x)) => m.overall_difficulty = *x,
        (31, Val::F32(x)) => m.approach_rate = *x,
        (32, Val::F64(x)) => m.slider_multiplier = *x,
        (33, Val::F64(x)) => m.slider_tick_rate = *x,
        (34, Val::Str(s)) => m.background_file = s.clone(),
        (35, Val::Breaks(l)) => m.breaks = l.iter().map(|(s, e)| BreakPeriod { start_time: *s, end_time: *e }).collect(),
        (36, Val::Combo(l)) => m.custom_combo_colors = l.iter().map(|c| Color::new(c[0], c[1], c[2], c[3])).collect(),
        (37, Val::Custom(l)) => {
            m.custom_colors = l.iter().map(|(n, c)| CustomColor { name: n.clone(), color: Color::new(c[0], c[1], c[2], c[3]) }).collect()
        }
        _ => panic!("edit/value mismatch"),
    }
}

// ---------------------------------------------------------------------------
// what the format can represent (from the property text)
// ---------------------------------------------------------------------------

const LIMIT: f64 = 2147483647.0;

fn plain_text(s: &str) -> bool {
    !s.contains('\n') && !s.contains('\r') && s.trim() == s
}
fn f64_ok(x: f64) -> bool {
    x.is_finite() && x.abs() <= LIMIT
}
fn f32_ok(x: f32) -> bool {
    x.is_finite() && (x.abs() as f64) < 2147483648.0
}
fn i32_ok(n: i64) -> bool {
    n.abs() <= 2147483647
}

pub fn representable(id: usize, v: &Val, m: &Beatmap) -> bool {
    match (id, v) {
        // a file name: plain text; the record is comment-stripped and `\` is the path separator of the format
        (1, Val::Str(s)) => plain_text(s) && !s.contains("//") && !s.contains('\\'),
        // lead-in is an integer number of milliseconds in the format
        (2, Val::F64(x)) => f64_ok(*x) && x.fract() == 0.0 && !(*x == 0.0 && x.is_sign_negative()),
        (5, Val::Int(n)) | (11, Val::Int(n)) => (0..=3).contains(n),
        // special style exists in mania only
        (7, Val::Bool(_)) => m.mode == GameMode::Mania,
        (6 | 8 | 9 | 10, Val::Bool(_)) => true,
        // the format carries a countdown offset only when positive (0 is the default)
        (12, Val::Int(n)) => *n >= 0 && i32_ok(*n),
        (13, Val::Ints(l)) => l.iter().all(|b| i32_ok(*b as i64)),
        (18..=25, Val::Str(s)) => plain_text(s),
        // ids: positive (the property's wording)
        (26 | 27, Val::Int(n)) => *n > 0 && i32_ok(*n),
        (0 | 3 | 15 | 16, Val::Int(n)) => i32_ok(*n),
        (4 | 28..=31, Val::F32(x)) => f32_ok(*x),
        (14 | 17, Val::F64(x)) => f64_ok(*x),
        (32, Val::F64(x)) => *x >= 0.4 && *x <= 3.6,
        (33, Val::F64(x)) => *x >= 0.5 && *x <= 8.0,
        // background: a quoted, comma-separated, comment-stripped field
        (34, Val::Str(s)) => {
            plain_text(s) && !s.contains("//") && !s.contains('\\') && !s.contains(',') && !s.starts_with('"') && !s.ends_with('"')
        }
        (35, Val::Breaks(l)) => l.iter().all(|(s, e)| f64_ok(*s) && f64_ok(*e) && s <= e),
        // the format has no alpha channel
        (36, Val::Combo(l)) => l.iter().all(|c| c[3] == 255),
        (37, Val::Custom(l)) => {
            l.iter().all(|(n, c)| {
                c[3] == 255 && !n.is_empty() && plain_text(n) && !n.contains(':') && !n.contains("//") && !n.starts_with("Combo")
            }) && (0..l.len()).all(|i| (0..i).all(|j| l[i].0 != l[j].0))
        }
        _ => false,
    }
}

// ---------------------------------------------------------------------------
// per-field value generators
// ---------------------------------------------------------------------------

const TEXTS: [&str; 40] = [
    "",
    "song",
    "Re:Zero",
    "a:b:c",
    ":",
    "::x",
    "x:",
    "a//b",
    "//",
    "// comment",
    "http://x.y/z",
    "x,y",
    ",",
    "\"q\"",
    "\"",
    "it's",
    "[General]",
    "[HitObjects]",
    "[x",
    "osu file format v9",
    "osu file format v",
    "Title: other",
    "Title:x",
    "AudioFilename: z.mp3",
    "Combo1",
    "Combo1: 1,2,3",
    "0",
    "-1",
    "1e5",
    "日本語",
    "ümlaut é",
    "tab\there",
    "two  spaces",
    "a\u{3000}b",
    "a\\b",
    "a\\\\b",
    "0,0,\"bg.jpg\",0,0",
    "2,100,200",
    "x|y",
    "256,192,1000,1,0,0:0:0:0:",
];

fn gen_text(r: &mut Rng, hostile: bool) -> String {
    if hostile && r.chance(1, 3) {
        // not representable: padding / line breaks
        return r
            .pick(&[" lead", "trail ", "\tx", "x\t", "a\nb", "a\r\nb", "x\n", "\u{a0}nbsp", "end\u{2028}", "a\rb", "  ", "\n"])
            .to_string();
    }
    let a = *r.pick(&TEXTS);
    if r.chance(1, 4) {
        format!("{} {}", a, *r.pick(&TEXTS)).trim().to_string()
    } else {
        a.to_string()
    }
}

fn gen_file_name(r: &mut Rng, hostile: bool) -> String {
    if hostile || r.chance(1, 4) {
        return gen_text(r, hostile);
    }
    r.pick(&["audio.mp3", "my song.ogg", "dir/sub/a.mp3", "a:b.mp3", "BG.JPG", "bg (1).png", "日本.jpg", "x.mp4", "a'b.png", "[x].jpg", "q\"q.png", ""]).to_string()
}

fn gen_int(r: &mut Rng, hostile: bool) -> i64 {
    if hostile && r.chance(1, 3) {
        return *r.pick(&[-2147483648i64, -2147483648]);
    }
    if r.chance(1, 2) {
        *r.pick(&[0i64, 1, -1, 2147483647, -2147483647, 2147483646, 7, 100, 65536, -65536, 9, 8, 3, 14, 128])
    } else {
        r.range(-300000, 300000)
    }
}

fn gen_f64(r: &mut Rng, hostile: bool) -> f64 {
    if hostile && r.chance(1, 3) {
        return *r.pick(&[f64::NAN, f64::INFINITY, -f64::INFINITY, 2147483648.0, -2147483647.5, 1e300, 2147483647.0000005]);
    }
    match r.below(3) {
        0 => *r.pick(&[
            0.0,
            -0.0,
            1.0,
            -1.0,
            0.1,
            0.30000000000000004,
            2147483647.0,
            -2147483647.0,
            2147483646.9999998,
            5e-324,
            2.2250738585072014e-308,
            1e-7,
            123456789.12345679,
            1.0000000000000002,
            0.4,
            3.6,
            0.5,
            8.0,
            1e21,
        ]),
        1 => (r.range(-1000000, 1000000) as f64) / 1000.0,
        _ => f64::from_bits(r.next()),
    }
}

fn gen_f32(r: &mut Rng, hostile: bool) -> f32 {
    if hostile && r.chance(1, 3) {
        return *r.pick(&[f32::NAN, f32::INFINITY, -f32::INFINITY, 2147483648.0, 3.4e38, -2147483648.0]);
    }
    match r.below(3) {
        0 => *r.pick(&[0.0f32, -0.0, 1.0, 0.1, 0.7, 5.0, 10.0, -3.5, 2147483520.0, -2147483520.0, 1e-45, 1.1754944e-38, 16777217.0, 9.999999, 1e10]),
        1 => (r.range(-100000, 100000) as f32) / 100.0,
        _ => f32::from_bits(r.next() as u32),
    }
}

fn gen_color(r: &mut Rng, hostile: bool) -> [u8; 4] {
    let a = if hostile && r.chance(1, 2) { r.next() as u8 } else { 255 };
    if r.chance(1, 3) {
        [*r.pick(&[0u8, 255, 1, 128]), *r.pick(&[0u8, 255, 9]), *r.pick(&[0u8, 255, 10]), a]
    } else {
        [r.next() as u8, r.next() as u8, r.next() as u8, a]
    }
}

pub fn gen_value(r: &mut Rng, id: usize, hostile: bool) -> Val {
    match id {
        0 | 3 | 12 | 15 | 16 | 26 | 27 => {
            let n = gen_int(r, hostile);
            Val::Int(if (id == 12 || id >= 26) && !hostile { n.abs() } else { n })
        }
        5 | 11 => Val::Int(r.range(0, 3)),
        6..=10 => Val::Bool(r.chance(1, 2)),
        1 | 34 => Val::Str(gen_file_name(r, hostile)),
        18..=25 => Val::Str(gen_text(r, hostile)),
        2 => Val::F64(if hostile { gen_f64(r, true) } else { *r.pick(&[0.0, 1.0, 2000.0, -500.0, 2147483647.0, -2147483647.0, 123456.0]) }),
        14 | 17 => Val::F64(gen_f64(r, hostile)),
        32 => Val::F64(if hostile { gen_f64(r, true) } else { *r.pick(&[0.4, 3.6, 1.4, 1.0, 0.4000000000000001, 3.5999999999999996, 2.0, 1.7999999999999998]) }),
        33 => Val::F64(if hostile { gen_f64(r, true) } else { *r.pick(&[0.5, 8.0, 1.0, 2.0, 0.5000000000000001, 7.999999999999999, 4.0, 1.3333333333333333]) }),
        4 | 28..=31 => Val::F32(gen_f32(r, hostile)),
        13 => {
            let n = r.range(0, 5);
            Val::Ints((0..n).map(|_| gen_int(r, hostile) as i32).collect())
        }
        35 => {
            let n = r.range(0, 4);
            Val::Breaks(
                (0..n)
                    .map(|_| {
                        let a = gen_f64(r, hostile);
                        let b = gen_f64(r, hostile);
                        if hostile || !(a.is_finite() && b.is_finite()) {
                            (a, b)
                        } else if a <= b {
                            (a, b)
                        } else {
                            (b, a)
                        }
                    })
                    .collect(),
            )
        }
        36 => {
            let n = r.range(0, 5);
            Val::Combo((0..n).map(|_| gen_color(r, hostile)).collect())
        }
        _ => {
            let n = r.range(0, 5);
            let mut l: Vec<(String, [u8; 4])> = vec![];
            for _ in 0..n {
                let name = if hostile || r.chance(1, 3) {
                    gen_text(r, hostile)
                } else {
                    // names that differ only in letter case, or only in a non-ASCII letter, are distinct
                    r.pick(&["SliderBorder", "SliderTrackOverride", "Custom", "my colour", "日本", "x,y", "[General]", "a-b", "combo1", "1",
                             "sliderborder", "SLIDERBORDER", "custom", "My Colour", "A-B", "é", "É", "ｘ"]).to_string()
                };
                l.push((name, gen_color(r, hostile)));
            }
            Val::Custom(l)
        }
    }
}

// ---------------------------------------------------------------------------
// correspondence: the `edit` model entry
// ---------------------------------------------------------------------------

fn val_line(l: &mut Line, v: &Val) {
    let mut b = Line::new();
    match v {
        Val::Int(n) => {
            b.i(*n as i128);
        }
        Val::F64(x) => {
            b.f64(*x);
        }
        Val::F32(x) => {
            b.f32(*x);
        }
        Val::Bool(x) => {
            b.b(*x);
        }
        Val::Str(s) => {
            b.chars(s);
        }
        Val::Ints(v) => {
            for x in v {
                b.i(*x as i128);
            }
        }
        Val::Breaks(v) => {
            for (s, e) in v {
                b.f64(*s).f64(*e);
            }
        }
        Val::Combo(v) => {
            for c in v {
                for k in c {
                    b.i(*k as i128);
                }
            }
        }
        Val::Custom(v) => {
            for (n, c) in v {
                b.s(n);
                for k in c {
                    b.i(*k as i128);
                }
            }
        }
    }
    let n = b.0.split(' ').filter(|t| !t.is_empty()).count();
    l.i(n as i128);
    if n > 0 {
        l.0.push(' ');
        l.0.push_str(&b.0);
    }
}

pub fn edit_case(text: &str, id: usize, v: &Val, origin: &str, out: &mut Out) {
    let Some(mut m) = c04::decode(text) else { return };
    if c04::has_slider(&m) && !c04::SLIDERS_IN_MODEL {
        return;
    }
    if m.hit_objects.iter().any(|h| matches!(&h.kind, HitObjectKind::Slider(s) if s.repeat_count > 60)) {
        return;
    }
    let before = c02::simple_fields(&m);
    apply(&mut m, id, v);
    let changed = c02::simple_fields(&m) != before;
    let res = match c04::encode(&mut m) {
        Ok(s) => {
            let mut l = Line::new();
            l.i(MARK).s(&s);
            l.0
        }
        Err(e) => format!("<{}>", e),
    };
    let mut case = Line::entry("edit");
    case.i(id as i128);
    val_line(&mut case, v);
    case.chars(text);
    out.count(&format!("edit.{}", FIELDS[id]));
    out.case(case.0, res, format!("{} edit {}={:?} text={:?}", origin, FIELDS[id], v, text), changed);
}

// ---------------------------------------------------------------------------
// oracle
// ---------------------------------------------------------------------------

fn object_summary(m: &Beatmap) -> Vec<String> {
    m.hit_objects
        .iter()
        .map(|h| {
            let (k, x, y) = match &h.kind {
                HitObjectKind::Circle(c) => (0, c.pos.x, c.pos.y),
                HitObjectKind::Slider(s) => (1, s.pos.x, s.pos.y),
                HitObjectKind::Spinner(s) => (2, s.pos.x, s.pos.y),
                HitObjectKind::Hold(hd) => (3, hd.pos_x, 0.0),
            };
            format!("{}@{:016x}:{:08x},{:08x}", k, h.start_time.to_bits(), x.to_bits(), y.to_bits())
        })
        .collect()
}

pub struct Base {
    pub text: String,
    pub map: Beatmap,
    /// decode(encode(map))
    pub round: Beatmap,
}

pub fn base_of(text: &str) -> Option<Base> {
    let mut map = c04::decode(text)?;
    let enc = c04::encode(&mut map).ok()?;
    let round = c04::decode(&enc)?;
    Some(Base { text: text.to_string(), map, round })
}

pub fn oracle(base: &Base, id: usize, v: &Val, origin: &str, out: &mut Out) {
    if !representable(id, v, &base.map) {
        out.count("oracle.skipped_not_representable");
        return;
    }
    out.oracle_checks += 1;
    out.count(&format!("oracle.edit.{}", FIELDS[id]));
    let desc = format!("{} edit {}={:?} text={:?}", origin, FIELDS[id], v, base.text);
    let mut edited = base.map.clone();
    apply(&mut edited, id, v);
    let want = c02::simple_fields(&edited);
    let enc = match c04::encode(&mut edited) {
        Ok(s) => s,
        Err(e) => {
            out.fail("", &desc, &format!("encoding the edited map failed: {}", e));
            return;
        }
    };
    let Some(m2) = c04::decode(&enc) else {
        out.fail("", &desc, "decoding the encoded edited map failed");
        return;
    };
    let got = c02::simple_fields(&m2);
    let unedited = c02::simple_fields(&base.round);
    let name = FIELDS[id];
    for (k, (n, g)) in got.iter().enumerate() {
        out.oracle_checks += 1;
        if *n == name {
            if *g != want[k].1 {
                // no recorded class: every representable value reads back bit for bit (a break between
                // the two zeros included -- the former finding D24 is repaired)
                out.fail("", &desc, &format!("edited field {} was set to {} and reads back as {}", n, want[k].1, g));
            }
        } else {
            // special style is carried in mania only: a mode edit legitimately changes whether it is
            if name == "mode" && *n == "special_style" {
                continue;
            }
            if *g != unedited[k].1 {
                out.fail("", &desc, &format!("field {} changes from {} to {} when {} is edited", n, unedited[k].1, g, name));
            }
        }
    }
    out.oracle_checks += 1;
    if c02::timing_obs(&m2) != c02::timing_obs(&base.round) {
        out.fail("", &desc, &format!("timing points change when {} is edited", name));
    }
    if object_summary(&m2) != object_summary(&base.round) {
        out.fail("", &desc, &format!("hit objects (count / kinds / start times / positions) change when {} is edited", name));
    }
}

pub fn generate(tier: &str, seed: u64, out: &mut Out) {
    let mut r = Rng::new(seed ^ 0xC03);
    // base maps
    let mut bases: Vec<(Base, String)> = vec![];
    let mut slider_free: Vec<(String, String)> = vec![];
    let take = if tier == "thorough" { 400 } else { 40 };
    c04::texts("quick", seed ^ 0xC03, false, false, |t, o| {
        if slider_free.len() < take {
            slider_free.push((t.to_string(), o.to_string()));
        }
    });
    c04::texts("quick", seed ^ 0xC03, true, false, |t, o| {
        if bases.len() < take {
            if let Some(b) = base_of(t) {
                bases.push((b, o.to_string()));
            }
        }
    });
    for (t, o) in slider_free.iter().take(take / 2) {
        if let Some(b) = base_of(t) {
            bases.push((b, o.clone()));
        }
    }
    c04::bundled_texts("quick", seed, |t, o| {
        if o.starts_with("bundled") && (tier == "thorough" || t.len() < 20_000) {
            if let Some(b) = base_of(t) {
                bases.push((b, o.to_string()));
            }
        }
    });
    out.count_n("bases", bases.len() as u64);
    // oracle: every field on every base map, a few values each
    let per_field = if tier == "thorough" { 6 } else { 2 };
    for (b, o) in &bases {
        for id in 0..FIELDS.len() {
            for _ in 0..per_field {
                let v = gen_value(&mut r, id, false);
                oracle(b, id, &v, o, out);
            }
        }
    }
    // every field set (back) to its default value, and the default palette in part / reordered
    for (b, o) in bases.iter().take(if tier == "thorough" { bases.len() } else { 12 }) {
        for id in 0..FIELDS.len() {
            out.count("edit.default_value");
            oracle(b, id, &default_value(id), o, out);
        }
        if let Val::Combo(pal) = default_value(36) {
            for k in 1..pal.len() {
                oracle(b, 36, &Val::Combo(pal[..k].to_vec()), o, out);
            }
            let mut rev = pal.clone();
            rev.reverse();
            oracle(b, 36, &Val::Combo(rev), o, out);
            let mut twice = pal.clone();
            twice.extend(pal.iter().copied());
            oracle(b, 36, &Val::Combo(twice), o, out);
        }
    }
    // exhaustive over the text table for the metadata / file-name fields on one map per mode
    for (b, o) in bases.iter().take(4) {
        for id in [1usize, 18, 19, 20, 21, 22, 23, 24, 25, 34] {
            for t in TEXTS.iter() {
                oracle(b, id, &Val::Str(t.to_string()), o, out);
            }
        }
        for id in [0usize, 3, 12, 15, 16, 26, 27] {
            for n in [2147483647i64, -2147483647, 1, 0] {
                oracle(b, id, &Val::Int(n), o, out);
            }
        }
        for id in [14usize, 17] {
            for x in [2147483647.0, -2147483647.0, 5e-324, -0.0] {
                oracle(b, id, &Val::F64(x), o, out);
            }
        }
        // bookmark lists at the limits +-(2^31-1), empty, repeated values
        for bm in [vec![2147483647, -2147483647, 0], vec![], vec![-2147483647], vec![5, 5, 5, -1]] {
            oracle(b, 13, &Val::Ints(bm), o, out);
        }
        // breaks between the two zeros in both sign orders, equal start and end, the widest break
        for br in [(-0.0, 0.0), (0.0, -0.0), (0.0, 0.0), (-0.0, -0.0), (5.0, 5.0), (-5.0, -5.0), (-2147483647.0, 2147483647.0)] {
            oracle(b, 35, &Val::Breaks(vec![br]), o, out);
        }
    }
    // correspondence: representable and hostile values, slider-free files
    let per_case = if tier == "thorough" { 3 } else { 1 };
    for (t, o) in slider_free.iter().take(6) {
        for id in 0..FIELDS.len() {
            edit_case(t, id, &default_value(id), o, out);
        }
    }
    for (t, o) in &slider_free {
        for id in 0..FIELDS.len() {
            for k in 0..per_case {
                let hostile = k % 2 == 1 || r.chance(1, 3);
                let v = gen_value(&mut r, id, hostile);
                edit_case(t, id, &v, o, out);
            }
        }
    }
}

//! One deterministic PRNG (xorshift64*) from which every random choice derives.
#[derive(Clone)]
pub struct Rng(pub u64);

impl Rng {
    pub fn new(seed: u64) -> Self {
        let mut s = seed ^ 0x9E37_79B9_7F4A_7C15;
        if s == 0 {
            s = 0x1234_5678_9ABC_DEF1;
        }
        let mut r = Rng(s);
        for _ in 0..8 {
            r.next();
        }
        r
    }
    pub fn next(&mut self) -> u64 {
        let mut x = self.0;
        x ^= x >> 12;
        x ^= x << 25;
        x ^= x >> 27;
        self.0 = x;
        x.wrapping_mul(0x2545_F491_4F6C_DD1D)
    }
    pub fn below(&mut self, n: usize) -> usize {
        if n == 0 {
            0
        } else {
            (self.next() % n as u64) as usize
        }
    }
    pub fn range(&mut self, lo: i64, hi: i64) -> i64 {
        lo + (self.next() % ((hi - lo + 1) as u64)) as i64
    }
    pub fn chance(&mut self, num: u32, den: u32) -> bool {
        (self.next() % den as u64) < num as u64
    }
    pub fn pick<'a, T>(&mut self, xs: &'a [T]) -> &'a T {
        &xs[self.below(xs.len())]
    }
    pub fn unit(&mut self) -> f64 {
        (self.next() >> 11) as f64 / (1u64 << 53) as f64
    }
}

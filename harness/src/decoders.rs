//! Whole-file decoding with each of the nine decoders: canonical dumps of the
//! decoded values (same layout as the `dump_*` functions of coq/Model/Sections.v,
//! ControlPoints.v, HitObjectLine.v, Decoders.v) and correspondence cases for
//! the `dec` model entry.
use crate::gen_osu::{self, Opts};
use crate::out::Out;
use crate::proto::Line;
use crate::rng::Rng;
use crate::util::guarded;
use rosu_map::section::{
    colors::Colors,
    difficulty::Difficulty,
    editor::Editor,
    events::Events,
    general::General,
    hit_objects::{
        hit_samples::{HitSampleDefaultName, HitSampleInfo, HitSampleInfoName},
        HitObject, HitObjectKind, HitObjects, PathControlPoint, SplineType,
    },
    metadata::Metadata,
    timing_points::{ControlPoints, TimingPoints},
};
use rosu_map::Beatmap;

pub const DECODERS: [&str; 9] =
    ["General", "Editor", "Metadata", "Difficulty", "Events", "Colors", "TimingPoints", "HitObjects", "Beatmap"];

#[allow(clippy::too_many_arguments)]
fn general(
    l: &mut Line,
    audio_file: &str,
    audio_lead_in: f64,
    preview_time: i32,
    bank: i32,
    volume: i32,
    stack: f32,
    mode: i32,
    flags: [bool; 5],
    countdown: i32,
    countdown_offset: i32,
) {
    l.s(audio_file).f64(audio_lead_in).i(preview_time as i128).i(bank as i128).i(volume as i128).f32(stack).i(mode as i128);
    for f in flags {
        l.b(f);
    }
    l.i(countdown as i128).i(countdown_offset as i128);
}

macro_rules! dump_general_of {
    ($l:expr, $v:expr) => {
        general(
            $l,
            &$v.audio_file,
            $v.audio_lead_in,
            $v.preview_time,
            $v.default_sample_bank as i32,
            $v.default_sample_volume,
            $v.stack_leniency,
            $v.mode as i32,
            [
                $v.letterbox_in_breaks,
                $v.special_style,
                $v.widescreen_storyboard,
                $v.epilepsy_warning,
                $v.samples_match_playback_rate,
            ],
            $v.countdown as i32,
            $v.countdown_offset,
        )
    };
}

macro_rules! dump_editor_of {
    ($l:expr, $v:expr) => {{
        $l.i($v.bookmarks.len() as i128);
        for b in &$v.bookmarks {
            $l.i(*b as i128);
        }
        $l.f64($v.distance_spacing).i($v.beat_divisor as i128).i($v.grid_size as i128).f64($v.timeline_zoom);
    }};
}

macro_rules! dump_metadata_of {
    ($l:expr, $v:expr) => {{
        $l.s(&$v.title).s(&$v.title_unicode).s(&$v.artist).s(&$v.artist_unicode).s(&$v.creator).s(&$v.version).s(&$v.source).s(&$v.tags);
        $l.i($v.beatmap_id as i128).i($v.beatmap_set_id as i128);
    }};
}

macro_rules! dump_difficulty_of {
    ($l:expr, $v:expr) => {{
        $l.f32($v.hp_drain_rate).f32($v.circle_size).f32($v.overall_difficulty).f32($v.approach_rate).f64($v.slider_multiplier).f64($v.slider_tick_rate);
    }};
}

macro_rules! dump_events_of {
    ($l:expr, $v:expr) => {{
        $l.s(&$v.background_file).i($v.breaks.len() as i128);
        for b in &$v.breaks {
            $l.f64(b.start_time).f64(b.end_time);
        }
    }};
}

macro_rules! dump_colors_of {
    ($l:expr, $v:expr) => {{
        $l.i($v.custom_combo_colors.len() as i128);
        for c in &$v.custom_combo_colors {
            $l.i(c.red() as i128).i(c.green() as i128).i(c.blue() as i128).i(c.alpha() as i128);
        }
        $l.i($v.custom_colors.len() as i128);
        for c in &$v.custom_colors {
            $l.s(&c.name).i(c.color.red() as i128).i(c.color.green() as i128).i(c.color.blue() as i128).i(c.color.alpha() as i128);
        }
    }};
}

pub fn dump_cp(l: &mut Line, c: &ControlPoints) {
    crate::registry::c13::dump_cp(l, c);
}

pub fn dump_sample(l: &mut Line, s: &HitSampleInfo) {
    match &s.name {
        HitSampleInfoName::Default(n) => {
            l.i(0).i(match n {
                HitSampleDefaultName::Normal => 0,
                HitSampleDefaultName::Whistle => 1,
                HitSampleDefaultName::Finish => 2,
                HitSampleDefaultName::Clap => 3,
            });
        }
        HitSampleInfoName::File(f) => {
            l.i(1).s(f);
        }
    }
    l.i(s.bank as i128);
    match s.suffix {
        Some(x) => {
            l.i(1).i(x.get() as i128);
        }
        None => {
            l.i(0);
        }
    }
    l.i(s.volume as i128).i(s.custom_sample_bank as i128).b(s.bank_specified).b(s.is_layered);
}

pub fn dump_samples(l: &mut Line, v: &[HitSampleInfo]) {
    l.i(v.len() as i128);
    for s in v {
        dump_sample(l, s);
    }
}

pub fn dump_pcps(l: &mut Line, v: &[PathControlPoint]) {
    l.i(v.len() as i128);
    for p in v {
        l.f32(p.pos.x).f32(p.pos.y);
        match p.path_type {
            Some(t) => {
                l.i(1).i(match t.kind {
                    SplineType::Catmull => 0,
                    SplineType::BSpline => 1,
                    SplineType::Linear => 2,
                    SplineType::PerfectCurve => 3,
                });
                match t.degree {
                    Some(d) => {
                        l.i(1).i(d.get() as i128);
                    }
                    None => {
                        l.i(0);
                    }
                }
            }
            None => {
                l.i(0);
            }
        }
    }
}

/// a finished hit object; for sliders the curve distance stands in for the
/// (unobservable) path mode
pub fn dump_object_v(l: &mut Line, h: &mut HitObject) {
    l.f64(h.start_time);
    match &mut h.kind {
        HitObjectKind::Circle(c) => {
            l.i(0).f32(c.pos.x).f32(c.pos.y).b(c.new_combo).i(c.combo_offset as i128);
        }
        HitObjectKind::Slider(s) => {
            l.i(1).f32(s.pos.x).f32(s.pos.y).b(s.new_combo).i(s.combo_offset as i128);
            let dist = s.path.curve().dist();
            l.f64(dist);
            dump_pcps(l, s.path.control_points());
            match s.path.expected_dist() {
                Some(d) => {
                    l.i(1).f64(d);
                }
                None => {
                    l.i(0);
                }
            }
            l.i(s.node_samples.len() as i128);
            for n in &s.node_samples {
                dump_samples(l, n);
            }
            l.i(s.repeat_count as i128).f64(s.velocity);
        }
        HitObjectKind::Spinner(s) => {
            l.i(2).f32(s.pos.x).f32(s.pos.y).f64(s.duration).b(s.new_combo);
        }
        HitObjectKind::Hold(hd) => {
            l.i(3).f32(hd.pos_x).f64(hd.duration);
        }
    }
    dump_samples(l, &h.samples);
}

macro_rules! dump_hov_of {
    ($l:expr, $v:expr) => {{
        dump_general_of!($l, $v);
        dump_difficulty_of!($l, $v);
        dump_events_of!($l, $v);
        dump_cp($l, &$v.control_points);
        $l.i($v.hit_objects.len() as i128);
        for h in $v.hit_objects.iter_mut() {
            dump_object_v($l, h);
        }
    }};
}

/// decode `bytes` with decoder `id` and dump the value; `Err` on io error / panic
pub fn decode_dump(id: usize, bytes: &[u8]) -> Result<String, String> {
    let r = guarded(|| -> Result<String, String> {
        let mut l = Line::new();
        match id {
            0 => {
                let v: General = rosu_map::from_bytes(bytes).map_err(|e| format!("io:{:?}", e.kind()))?;
                dump_general_of!(&mut l, v);
            }
            1 => {
                let v: Editor = rosu_map::from_bytes(bytes).map_err(|e| format!("io:{:?}", e.kind()))?;
                dump_editor_of!(&mut l, v);
            }
            2 => {
                let v: Metadata = rosu_map::from_bytes(bytes).map_err(|e| format!("io:{:?}", e.kind()))?;
                dump_metadata_of!(&mut l, v);
            }
            3 => {
                let v: Difficulty = rosu_map::from_bytes(bytes).map_err(|e| format!("io:{:?}", e.kind()))?;
                dump_difficulty_of!(&mut l, v);
            }
            4 => {
                let v: Events = rosu_map::from_bytes(bytes).map_err(|e| format!("io:{:?}", e.kind()))?;
                dump_events_of!(&mut l, v);
            }
            5 => {
                let v: Colors = rosu_map::from_bytes(bytes).map_err(|e| format!("io:{:?}", e.kind()))?;
                dump_colors_of!(&mut l, v);
            }
            6 => {
                let v: TimingPoints = rosu_map::from_bytes(bytes).map_err(|e| format!("io:{:?}", e.kind()))?;
                l.i(0);
                dump_general_of!(&mut l, v);
                dump_cp(&mut l, &v.control_points);
            }
            7 => {
                let mut v: HitObjects = rosu_map::from_bytes(bytes).map_err(|e| format!("io:{:?}", e.kind()))?;
                l.i(0);
                dump_hov_of!(&mut l, v);
            }
            _ => {
                let mut v: Beatmap = rosu_map::from_bytes(bytes).map_err(|e| format!("io:{:?}", e.kind()))?;
                l.i(0);
                l.i(v.format_version as i128);
                dump_editor_of!(&mut l, v);
                dump_metadata_of!(&mut l, v);
                dump_colors_of!(&mut l, v);
                dump_hov_of!(&mut l, v);
            }
        }
        Ok(l.0)
    });
    match r {
        Ok(x) => x,
        Err(p) => Err(format!("panic:{}", p)),
    }
}

/// the per-decoder dumps of the fields shared with Beatmap, taken from a Beatmap decode
pub fn beatmap_projection(id: usize, bytes: &[u8]) -> Result<String, String> {
    let r = guarded(|| -> Result<String, String> {
        let mut v: Beatmap = rosu_map::from_bytes(bytes).map_err(|e| format!("io:{:?}", e.kind()))?;
        let mut l = Line::new();
        match id {
            0 => dump_general_of!(&mut l, v),
            1 => dump_editor_of!(&mut l, v),
            2 => dump_metadata_of!(&mut l, v),
            3 => dump_difficulty_of!(&mut l, v),
            4 => dump_events_of!(&mut l, v),
            5 => dump_colors_of!(&mut l, v),
            6 => {
                l.i(0);
                dump_general_of!(&mut l, v);
                dump_cp(&mut l, &v.control_points);
            }
            _ => {
                l.i(0);
                dump_hov_of!(&mut l, v);
            }
        }
        Ok(l.0)
    });
    match r {
        Ok(x) => x,
        Err(p) => Err(format!("panic:{}", p)),
    }
}

/// which decoders the model entry `dec` currently covers
pub const MODEL_DECODERS: &[usize] = &[0, 1, 2, 3, 4, 5, 6, 7, 8];

/// text whose byte layer is trivial (valid UTF-8, no BOM, no code unit issues):
/// the byte->text layer is C10/C08's business
pub fn model_case(id: usize, text: &str, out: &mut Out, origin: &str) {
    let nlines = text.lines().count();
    model_case_with(id, text, out, origin, nlines >= 5 && text.contains('['));
}

/// the same with the caller's notion of a non-trivial case
pub fn model_case_with(id: usize, text: &str, out: &mut Out, origin: &str, nontrivial: bool) {
    let mut case = Line::entry("dec");
    case.i(id as i128);
    case.chars(text);
    let res = match decode_dump(id, text.as_bytes()) {
        Ok(s) => s,
        Err(e) => format!("<{}>", e),
    };
    out.count(&format!("dec.{}", DECODERS[id]));
    out.case(case.0, res, format!("{} decoder={} text={:?}", origin, DECODERS[id], text), nontrivial);
}

/// raw bytes through the composed byte -> line -> value model (entry `decb`)
pub fn model_case_bytes(id: usize, bytes: &[u8], out: &mut Out, origin: &str) {
    let mut case = Line::entry("decb");
    case.i(id as i128);
    for b in bytes {
        case.i(*b as i128);
    }
    let res = match decode_dump(id, bytes) {
        Ok(s) => format!("0 {}", s),
        Err(e) => match e.as_str() {
            "io:Other" => "1 1".to_string(),
            "io:UnexpectedEof" => "1 2".to_string(),
            "io:PermissionDenied" => "1 3".to_string(),
            "io:TimedOut" => "1 4".to_string(),
            "io:WouldBlock" => "1 5".to_string(),
            "io:WriteZero" => "1 6".to_string(),
            other => format!("<{}>", other),
        },
    };
    out.count(&format!("decb.{}", DECODERS[id]));
    let hex: String = bytes.iter().take(600).map(|b| format!("{:02x}", b)).collect();
    out.case(case.0, res, format!("{} decoder={} bytes(hex)={}", origin, DECODERS[id], hex), bytes.len() >= 40);
}

pub fn texts(tier: &str, seed: u64, mut f: impl FnMut(&str, &str)) {
    let mut r = Rng::new(seed ^ 0xDEC0);
    let n = if tier == "thorough" { 3000 } else { 220 };
    for i in 0..n {
        let o = Opts { level: (i % 3) as u8, chronological: i % 4 != 0, max_objects: 10, ..Opts::default() };
        let mut lines = gen_osu::file_lines(&mut r, &o);
        // indentation / decoration of whole lines (C07: same skip rule in all decoders)
        if i % 5 == 0 {
            for l in lines.iter_mut() {
                if !l.is_empty() && r.chance(1, 6) {
                    *l = match r.below(4) {
                        0 => format!(" {}", l),
                        1 => format!("\t{}", l),
                        2 => format!("_{}", l),
                        _ => format!("{}  ", l),
                    };
                }
            }
        }
        // lines that resemble a section header (trailing comment or junk, stray brackets, other
        // case) anywhere in the file: every decoder must route the following lines alike
        if i % 4 == 1 {
            for _ in 0..r.range(1, 3) {
                let sec = *r.pick(&["General", "Editor", "Metadata", "Difficulty", "Events", "TimingPoints", "Colours", "HitObjects"]);
                let look = match r.below(9) {
                    0 => format!("[{}] // song info", sec),
                    1 => format!("[{}]//x", sec),
                    2 => format!("[{}] x", sec),
                    3 => format!("[{}", sec),
                    4 => format!("{}]", sec),
                    5 => format!("[{}]]", sec),
                    6 => format!("[[{}]", sec),
                    7 => format!("[{}]", sec.to_lowercase()),
                    _ => format!("[{}],1,2", sec),
                };
                let at = (1 + r.below(lines.len().max(2) - 1)).min(lines.len());
                // half of the time followed by a record of the section the line resembles,
                // so that a decoder that wrongly follows it reads something visible
                if r.chance(1, 2) {
                    let rec = match sec {
                        "General" => "Mode: 3",
                        "Editor" => "GridSize: 17",
                        "Metadata" => "Title:after a look-alike",
                        "Difficulty" => "CircleSize: 6.5",
                        "Events" => "2,123456,234567",
                        "TimingPoints" => "345678,-25,4,2,1,33,0,1",
                        "Colours" => "Combo5 : 9,8,7",
                        _ => "77,88,456789,1,0,0:0:0:0:",
                    };
                    lines.insert(at, rec.to_string());
                }
                lines.insert(at, look);
            }
        }
        let nl = if i % 7 == 0 { "\r\n" } else { "\n" };
        f(&(lines.join(nl) + nl), &format!("grammar-level{}", o.level));
    }
    // records in the wrong section: every section in turn receives the records of every other
    // section, the keys old versions of the format kept elsewhere (editor settings inside
    // [General], ...) and values outside the editor's ranges; then the regular sections follow
    for t in misplaced_record_texts() {
        f(&t, "misplaced-records");
    }
}

pub const RECORD_POOL: [(&str, &[&str]); 8] = [
    (
        "General",
        &[
            "AudioFilename: a.mp3", "Mode: 2", "SampleSet: Soft", "StackLeniency: 0.3", "Countdown: 2", "CountdownOffset: 3",
            "SpecialStyle: 1", "EpilepsyWarning: 1", "EditorBookmarks: 1000,2000", "EditorDistanceSpacing: 1.7", "AudioHash: abc",
            "SkinPreference: x", "StoryFireInFront: 1", "UseSkinSprites: 1", "AlwaysShowPlayfield: 1", "OverlayPosition: Above",
            "TimelineZoom: 2.5", "PreviewTime: 4321", "AudioLeadIn: 250",
        ],
    ),
    ("Editor", &["Bookmarks: 5,6", "DistanceSpacing: 1.9", "BeatDivisor: 8", "GridSize: 16", "TimelineZoom: 3.1"]),
    ("Metadata", &["Title: T", "TitleUnicode: TU", "Creator: C", "Version: V", "BeatmapID: 77", "BeatmapSetID: 88", "Tags: a b", "Source: S"]),
    (
        "Difficulty",
        &[
            "HPDrainRate: 3", "CircleSize: 12", "OverallDifficulty: 11", "ApproachRate: 11", "SliderMultiplier: 2.2", "SliderTickRate: 2",
            "CircleSize: -1", "HPDrainRate: -3", "ApproachRate: -2", "CircleSize: 0.5",
        ],
    ),
    ("Events", &["0,0,\"bg.jpg\",0,0", "2,100,200", "Video,0,\"v.mp4\"", "4,Background,Centre,\"sp.png\",320,240"]),
    ("TimingPoints", &["0,500,4,1,0,100,1,0", "100,-50,4,2,1,60,0,1"]),
    ("Colours", &["Combo1 : 1,2,3", "SliderBorder : 4,5,6", "SliderTrackOverride : 7,8,9"]),
    ("HitObjects", &["256,192,1000,1,0,0:0:0:0:", "100,100,2000,2,0,L|200:100,1,100", "256,192,3000,12,0,3500,0:0:0:0:"]),
];

pub fn misplaced_record_texts() -> Vec<String> {
    let mut v = vec![];
    for (lead_mode, with_rest) in [(None, true), (Some(1), true), (Some(3), true), (None, false), (Some(3), false)] {
        for (target, _) in RECORD_POOL {
            let mut t = String::from("osu file format v14\n\n");
            if let Some(m) = lead_mode {
                t.push_str(&format!("[General]\nMode: {m}\n\n"));
            }
            t.push_str(&format!("[{target}]\n"));
            for (_, recs) in RECORD_POOL {
                for r in recs.iter() {
                    t.push_str(r);
                    t.push('\n');
                }
            }
            for (sec, recs) in RECORD_POOL {
                if sec == target || !with_rest {
                    continue;
                }
                t.push_str(&format!("\n[{sec}]\n"));
                for r in recs.iter().take(3) {
                    t.push_str(r);
                    t.push('\n');
                }
            }
            v.push(t);
        }
    }
    v
}

pub fn cases_for(_entry: &str, tier: &str, seed: u64, out: &mut Out) {
    texts(tier, seed, |t, origin| {
        for &id in MODEL_DECODERS {
            model_case(id, t, out, origin);
        }
    });
}

//! Full-decode correspondence cases (model of the nine decoders vs the
//! implementation).  Filled in once the composed decoder model exists.
use crate::out::Out;

pub fn cases_for(_entry: &str, _tier: &str, _seed: u64, _out: &mut Out) {}

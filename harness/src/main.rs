mod consts;
pub mod decoders;
pub mod gen_osu;
mod out;
mod proto;
mod registry;
#[cfg(feature = "tracing")]
mod trace_sink;
mod render;
mod rng;
pub mod util;

use std::path::PathBuf;

fn main() {
    let args: Vec<String> = std::env::args().collect();
    #[cfg(feature = "tracing")]
    trace_sink::install();
    if args.len() == 4 && args[1] == "render" {
        render::render_file(&args[2], &args[3]);
        return;
    }
    if (args.len() == 3 || args.len() == 4) && args[1] == "consts" {
        std::process::exit(consts::run(&args[2], args.get(3).map(String::as_str)));
    }
    if args.len() < 6 || args[1] != "gen" {
        eprintln!("usage: rmh gen <property> <tier> <seed> <outdir> | rmh render <in> <out> | rmh consts <out.json> [Generated.v]");
        std::process::exit(2);
    }
    let prop = args[2].as_str();
    let tier = args[3].as_str();
    let seed: u64 = args[4].parse().unwrap_or(1);
    let dir = PathBuf::from(&args[5]);
    let Some(rule) = registry::rule(prop) else {
        eprintln!("unknown property {prop}");
        std::process::exit(2);
    };
    let mut out = out::Out::new(rule);
    let _ = std::fs::create_dir_all(&dir);
    let journal = dir.join("current_case.txt");
    let _ = std::fs::remove_file(&journal);
    std::env::set_var("RMH_JOURNAL", &journal);
    registry::generate(prop, tier, seed, &mut out);
    let _ = std::fs::remove_file(&journal);
    #[cfg(feature = "tracing")]
    {
        use std::sync::atomic::Ordering;
        out.count_n("tracing.events_formatted", trace_sink::EVENTS.load(Ordering::Relaxed));
    }
    out.write(&dir).expect("write outputs");
    println!("cases={} oracle_failures={}", out.cases.len(), out.oracle.len());
}

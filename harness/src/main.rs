mod c13;
mod out;
mod proto;
mod rng;

use std::path::PathBuf;

fn main() {
    let args: Vec<String> = std::env::args().collect();
    if args.len() < 6 || args[1] != "gen" {
        eprintln!("usage: rmh gen <property> <tier> <seed> <outdir>");
        std::process::exit(2);
    }
    let prop = args[2].as_str();
    let tier = args[3].as_str();
    let seed: u64 = args[4].parse().unwrap_or(1);
    let dir = PathBuf::from(&args[5]);
    let mut out;
    match prop {
        "C13" => {
            out = out::Out::new("add/lookup histories over the public ControlPoints API: exhaustive over a small alphabet (per kind and mixed kinds) followed by lookups at every probe, plus random long histories with fractional/negative/extreme times; non-trivial = at least 3 adds and at least 2 points stored at the end; distinct = distinct case lines");
            c13::generate(tier, seed, &mut out);
        }
        _ => {
            eprintln!("unknown property {prop}");
            std::process::exit(2);
        }
    }
    out.write(&dir).expect("write outputs");
    println!("cases={} oracle_failures={}", out.cases.len(), out.oracle.len());
}

//! C01: decoding and re-encoding never panic, hang or fail on arbitrary bytes.
//! Implementation-side oracle over all nine decoder types; the correspondence
//! cases (full-decode model vs implementation) are produced by `decoders.rs`.
use crate::gen_osu::{self, Opts};
use crate::out::Out;
use crate::rng::Rng;
use crate::util::{bundled_maps, guarded};
use rosu_map::section::{
    colors::Colors, difficulty::Difficulty, editor::Editor, events::Events, general::General,
    hit_objects::HitObjects, metadata::Metadata, timing_points::TimingPoints,
};
use rosu_map::Beatmap;
use std::sync::mpsc;
use std::time::{Duration, Instant};

pub const RULE: &str = "byte strings: uniform noise, grammar-generated .osu text (levels 0-2, hostile numerics), byte/line/field mutations, splices and truncations of the bundled maps, BOM/UTF-16 variants, UTF-16LE files cut right after the low byte of each of their line feeds, every byte string of length <= 2 (thorough: <= 3) over the BOM/line-feed alphabet, files whose string-valued fields (file names, metadata, colour names, sample files, headers) carry multi-byte characters at every offset from their end, maps of 22-71 objects whose start/end times lie within 8 ulps of each other in any file order, every numeric field of every record kind replaced in turn by every hostile literal (limits, limits +- 1, huge, tiny, non-finite, padded, malformed); each under a watchdog (no return within 15 s = hang) through all nine decoder types (from_bytes) and, for Beatmap, re-encoded; non-trivial = at least one section header recognised and at least 5 lines; distinct = distinct byte strings";

fn hex(bytes: &[u8]) -> String {
    let mut s = String::with_capacity(bytes.len() * 2);
    for b in bytes.iter().take(4000) {
        s.push_str(&format!("{:02x}", b));
    }
    if bytes.len() > 4000 {
        s.push_str("...");
    }
    s
}

macro_rules! try_decoder {
    ($ty:ty, $name:expr, $bytes:expr, $out:expr, $desc:expr) => {{
        $out.oracle_checks += 1;
        let t0 = Instant::now();
        let r = guarded(|| rosu_map::from_bytes::<$ty>($bytes));
        let dt = t0.elapsed().as_secs_f64();
        if dt > 10.0 {
            $out.fail("", $desc, &format!("{}: decoding took {:.1}s (hang?)", $name, dt));
        }
        match r {
            Err(p) => $out.fail("", $desc, &format!("{}: decoder panicked: {}", $name, p)),
            // an in-memory reader reports no failure: every Err is a failing input (the former
            // class D6 -- UTF-16LE stream ending inside a line feed -- is repaired, not exempted)
            Ok(Err(e)) => $out.fail("", $desc, &format!("{}: in-memory decode returned an error: {:?}", $name, e.kind())),
            Ok(Ok(_)) => {}
        }
    }};
}

/// what one input produced; filled in a worker thread, merged by `check_bytes`
#[derive(Default)]
struct Rec {
    fails: Vec<(String, String, String)>,
    counts: Vec<String>,
    oracle_checks: u64,
}
impl Rec {
    fn fail(&mut self, class: &str, input: &str, detail: &str) {
        self.fails.push((class.to_string(), input.to_string(), detail.to_string()));
    }
    fn count(&mut self, key: &str) {
        self.counts.push(key.to_string());
    }
}

/// seconds after which a decode (+ encode) that has not returned counts as a hang
const HANG_SECS: u64 = 15;
/// after this many hangs the run stops feeding inputs (each one leaves a spinning thread behind)
const MAX_HANGS: u32 = 2;

/// Runs all nine decoders (and the encoder) on `bytes` in a worker thread under
/// a watchdog: "terminates" is part of the property, and a decoder that loops
/// forever must become a reported failing input rather than a stuck harness.
pub fn check_bytes(bytes: &[u8], origin: &str, out: &mut Out, hangs: &mut u32) {
    crate::util::journal(&format!("{} len={} hex={}", origin, bytes.len(), hex(bytes)));
    let (tx, rx) = mpsc::channel();
    let b = bytes.to_vec();
    let o = origin.to_string();
    let spawned = std::thread::Builder::new().stack_size(32 << 20).spawn(move || {
        let mut rec = Rec::default();
        check_bytes_rec(&b, &o, &mut rec);
        let _ = tx.send(rec);
    });
    if spawned.is_err() {
        let mut rec = Rec::default();
        check_bytes_rec(bytes, origin, &mut rec);
        merge(rec, out);
        return;
    }
    match rx.recv_timeout(Duration::from_secs(HANG_SECS)) {
        Ok(rec) => merge(rec, out),
        Err(_) => {
            *hangs += 1;
            out.oracle_checks += 1;
            let desc = format!("{} len={} hex={}", origin, bytes.len(), hex(bytes));
            out.fail("", &desc, &format!("decoding with the nine decoder types (then encoding) did not return within {} s: hang", HANG_SECS));
        }
    }
}

fn merge(rec: Rec, out: &mut Out) {
    out.oracle_checks += rec.oracle_checks;
    for (c, i, d) in rec.fails {
        out.fail(&c, &i, &d);
    }
    for k in rec.counts {
        out.count(&k);
    }
}

fn check_bytes_rec(bytes: &[u8], origin: &str, out: &mut Rec) {
    let desc = format!("{} len={} hex={}", origin, bytes.len(), hex(bytes));
    try_decoder!(General, "General", bytes, out, &desc);
    try_decoder!(Editor, "Editor", bytes, out, &desc);
    try_decoder!(Metadata, "Metadata", bytes, out, &desc);
    try_decoder!(Difficulty, "Difficulty", bytes, out, &desc);
    try_decoder!(Events, "Events", bytes, out, &desc);
    try_decoder!(Colors, "Colors", bytes, out, &desc);
    try_decoder!(TimingPoints, "TimingPoints", bytes, out, &desc);
    try_decoder!(HitObjects, "HitObjects", bytes, out, &desc);
    out.oracle_checks += 1;
    let t0 = Instant::now();
    let r = guarded(|| {
        let m = rosu_map::from_bytes::<Beatmap>(bytes);
        match m {
            Ok(mut m) => {
                let n = m.hit_objects.len();
                let enc = m.encode_to_string();
                (true, Some(enc.map(|s| s.len()).map_err(|e| e.kind())), n)
            }
            Err(_) => (false, None, 0),
        }
    });
    let dt = t0.elapsed().as_secs_f64();
    if dt > 20.0 {
        out.fail("", &desc, &format!("Beatmap: decode+encode took {:.1}s (hang?)", dt));
    }
    match r {
        Err(p) => out.fail("", &desc, &format!("Beatmap: decode or encode panicked: {}", p)),
        Ok((false, _, _)) => out.fail("", &desc, "Beatmap: in-memory decode returned an error"),
        Ok((true, Some(Err(k)), _)) => out.fail("", &desc, &format!("Beatmap: encode_to_string failed: {:?}", k)),
        Ok((true, _, n)) => {
            out.count(&format!("beatmap.objects.{}", if n == 0 { "0" } else if n < 5 { "1-4" } else { "5+" }));
        }
    }
}

pub fn inputs(tier: &str, seed: u64, mut f: impl FnMut(&[u8], &str)) {
    let mut r = Rng::new(seed ^ 0xC01);
    let maps = bundled_maps();
    let scale = if tier == "thorough" { 12 } else { 1 };
    // 1. uniform noise
    for i in 0..150 * scale {
        let len = if i % 3 == 0 { r.below(16) } else { r.below(600) };
        let b: Vec<u8> = (0..len).map(|_| r.next() as u8).collect();
        f(&b, "noise");
    }
    // noise restricted to the format's alphabet
    let alpha = b"0123456789,.:|-+eE[]/ \n\r\tBLPCosu filermatvGnHOjcTgPDyN\xff\xfe\x00";
    for _ in 0..150 * scale {
        let len = r.below(300);
        let b: Vec<u8> = (0..len).map(|_| *r.pick(alpha)).collect();
        f(&b, "alphabet-noise");
    }
    // 2. grammar-generated files
    for i in 0..250 * scale {
        let o = Opts { level: (i % 3) as u8, chronological: i % 4 != 0, ..Opts::default() };
        let text = gen_osu::file(&mut r, &o);
        let enc = if i % 5 == 0 { r.below(4) as u8 } else { 0 };
        f(&gen_osu::encode_as(&text, enc), &format!("grammar-level{}-enc{}", o.level, enc));
    }
    // 3. mutations, splices and truncations of bundled maps
    if !maps.is_empty() {
        for _ in 0..120 * scale {
            let (_, src) = r.pick(&maps);
            // keep it small: a window of the file around a random position
            let base: Vec<u8> = if src.len() > 6000 {
                let head = 1500.min(src.len());
                let s = r.below(src.len() - 3000);
                let mut v = src[..head].to_vec();
                v.extend_from_slice(&src[s..s + 3000]);
                v
            } else {
                src.clone()
            };
            let m = gen_osu::mutate(&mut r, &base);
            f(&m, "mutation");
        }
        // truncations at every length of the smallest maps
        let mut small: Vec<&(String, Vec<u8>)> = maps.iter().filter(|(_, b)| b.len() < 1500).collect();
        small.truncate(if tier == "thorough" { 8 } else { 2 });
        for (name, b) in small {
            for k in 0..=b.len() {
                f(&b[..k], &format!("truncation {}@{}", name, k));
            }
        }
        // every bundled map as is (thorough), a few otherwise
        for (i, (name, b)) in maps.iter().enumerate() {
            if tier == "thorough" || i % 9 == 0 {
                f(b, &format!("bundled {}", name));
            }
        }
    }
    // 3b. sliders far outside the playfield (coordinates up to +-131072): enormous perfect
    // curves (arc needs >= 1000 sub-points -> Bezier fall-back), nearly collinear triples at
    // large magnitude (ill-conditioned circumcircle: NaN / huge radius), long Beziers; alone,
    // before and after ordinary sliders, as first and as later segments, in all four modes
    for i in 0..200 * scale {
        let mode = i % 4;
        let mut lines: Vec<String> = vec!["osu file format v14".into(), "[General]".into(), format!("Mode: {}", mode), "[TimingPoints]".into(), "0,500,4,1,0,100,1,0".into(), "[HitObjects]".into()];
        let n = r.range(1, 6);
        let mut t = 1000;
        for _ in 0..n {
            let big = |r: &mut Rng| r.range(-131072, 131072);
            let path = match r.below(6) {
                0 => format!("P|{}:{}|{}:{}", big(&mut r), big(&mut r), big(&mut r), big(&mut r)),
                1 => {
                    // a, a + s*d, a + t*d + tiny perpendicular offset
                    let (ax, ay) = (big(&mut r) / 2, big(&mut r) / 2);
                    let (dx, dy) = (r.range(-3000, 3000), r.range(-3000, 3000));
                    let (s1, s2) = (r.range(1, 10), r.range(11, 20));
                    let (ex, ey) = (r.range(-2, 2), r.range(-2, 2));
                    let lead = if r.chance(1, 2) { "L|10:10|" } else { "" };
                    format!("{}P|{}:{}|{}:{}|{}:{}", lead, ax, ay, ax + s1 * dx, ay + s1 * dy, ax + s2 * dx + ex, ay + s2 * dy + ey)
                }
                2 if r.chance(1, 2) => format!("P|100000:100000|100000:0"),
                2 => {
                    // lattice-thin triangle far from the slider head, as a LATER segment: a,
                    // a + (p,q), a + k(p,q) + (ex,ey) with p*ey - q*ex = 1, so twice the signed area is
                    // exactly +-1 -- never "collinear" for the decoder -- while the circumcircle
                    // determinant is summed from products of magnitude |a|*|p| >> 2^24 and cancels to
                    // 0, +-32, ... in f32: centre and radius become inf / NaN
                    fn egcd(a: i64, b: i64) -> (i64, i64, i64) {
                        if b == 0 {
                            (a, 1, 0)
                        } else {
                            let (g, x, y) = egcd(b, a % b);
                            (g, y, x - (a / b) * y)
                        }
                    }
                    let sgn = |r: &mut Rng| if r.chance(1, 2) { 1 } else { -1 };
                    let (ax, ay) = (sgn(&mut r) * r.range(40_000, 100_000), sgn(&mut r) * r.range(40_000, 100_000));
                    let (mut p, q) = (r.range(200, 3000), r.range(200, 3000));
                    while egcd(p, q).0 != 1 {
                        p += 1;
                    }
                    let (_, x, y) = egcd(p, q);
                    let k = r.range(2, 8);
                    let lead = if r.chance(3, 4) { "L|10:10|" } else { "" };
                    format!("{}P|{}:{}|{}:{}|{}:{}", lead, ax, ay, ax + p, ay + q, ax + k * p - y, ay + k * q + x)
                }
                3 => format!("B|{}:{}|{}:{}|{}:{}|{}:{}", big(&mut r), big(&mut r), big(&mut r), big(&mut r), big(&mut r), big(&mut r), big(&mut r), big(&mut r)),
                4 => format!("B|100:100|200:0|P|{}:{}|{}:{}", big(&mut r), big(&mut r), big(&mut r), big(&mut r)),
                _ => format!("C|{}:{}|{}:{}|{}:{}", big(&mut r), big(&mut r), big(&mut r), big(&mut r), big(&mut r), big(&mut r)),
            };
            let len = *r.pick(&["", ",1", ",1,100", ",2,120000", ",3,0"]);
            lines.push(format!("{},{},{},2,0,{}{}", r.range(0, 512), r.range(0, 384), t, path, len));
            t += 700;
        }
        let text = lines.join("\n") + "\n";
        f(text.as_bytes(), "large-sliders");
    }
    // 3c. tiny Catmull sliders in osu! / catch maps.  In osu! mode a Catmull segment is thinned
    // and the removed length is carried as a "surplus" (sum of differences of rounded f32
    // distances) that seeds the cumulative lengths; the encoder hands the curve's distance to
    // SliderEventsIter::new, which panics on a negative one (finding D18).  The shapes here are
    // the ones where rounding can make the surplus negative or the total tiny: points within a
    // few pixels, collinear / diagonal / back-tracking / repeated points, a tiny Catmull part
    // after a zero-length or tiny linear / Bezier part, several Catmull segments in one path,
    // far-away positions (large magnitude, tiny steps), with and without a requested length.
    for i in 0..150 * scale {
        let mode = if i % 3 == 2 { 2 } else { 0 };
        let version = *r.pick(&[14i64, 7, 3, 9, 128]);
        let mut lines: Vec<String> = vec![
            format!("osu file format v{}", version),
            "[General]".into(),
            format!("Mode: {}", mode),
            "[Difficulty]".into(),
            format!("SliderMultiplier:{}", r.pick(&["0.4", "1.4", "3.6", "1"])),
            format!("SliderTickRate:{}", r.pick(&["0.5", "1", "2", "8"])),
            "[TimingPoints]".into(),
            "0,500,4,1,0,100,1,0".into(),
            format!("0,{},4,1,0,100,0,0", r.pick(&["-100", "-10", "-1000", "-50"])),
            "[HitObjects]".into(),
        ];
        let n = r.range(1, 5);
        let mut t = 1000;
        for _ in 0..n {
            let (x0, y0) = if r.chance(1, 4) { (r.range(-131072, 131072), r.range(-131072, 131072)) } else { (r.range(0, 512), r.range(0, 384)) };
            let span = *r.pick(&[1i64, 1, 2, 3, 6, 7, 40]);
            let k = r.range(1, 6);
            let (dx, dy) = (r.range(-span, span), r.range(-span, span));
            let mut pts: Vec<(i64, i64)> = Vec::new();
            let (mut x, mut y) = (x0, y0);
            for j in 0..k {
                match r.below(5) {
                    0 => { x += dx; y += dy; }                     // collinear steps
                    1 => { x -= dx; y -= dy; }                     // back-tracking
                    2 => {}                                         // repeated point
                    3 => { x = x0; y = y0; }                       // back to the head
                    _ => { x += r.range(-span, span); y += r.range(-span, span); }
                }
                let _ = j;
                pts.push((x, y));
            }
            let body: Vec<String> = pts.iter().map(|(a, b)| format!("{}:{}", a, b)).collect();
            let lead = match r.below(6) {
                0 => format!("L|{}:{}|", x0, y0),                   // zero-length linear part first
                1 => format!("L|{}:{}|{}:{}|", x0 + 1, y0, x0 + 1, y0), // tiny linear part, joint
                2 => format!("B|{}:{}|{}:{}|{}:{}|", x0, y0 + 1, x0 + 1, y0 + 1, x0 + 1, y0 + 1),
                _ => String::new(),
            };
            let mid = if pts.len() >= 3 && r.chance(1, 3) {
                // a second Catmull segment: repeat a point (segment joint) or restate the type
                let h = pts.len() / 2;
                let a: Vec<String> = pts[..h].iter().map(|(a, b)| format!("{}:{}", a, b)).collect();
                let b: Vec<String> = pts[h..].iter().map(|(a, b)| format!("{}:{}", a, b)).collect();
                format!("C|{}|C|{}", a.join("|"), b.join("|"))
            } else {
                format!("C|{}", body.join("|"))
            };
            let len = *r.pick(&["", "", ",1", ",1,0.5", ",2,1e-9", ",3,0.0000001", ",1,7", ",9000,3"]);
            let len = if len.is_empty() { ",1" } else { len };
            lines.push(format!("{},{},{},2,0,{}{}{}", x0, y0, t, lead, mid, len));
            t += 300;
        }
        let text = lines.join("\n") + "\n";
        f(text.as_bytes(), "tiny-catmull");
    }
    // 3d. tick-dense sliders: the slider-event iterator of collect_samples runs about
    // span_count * length / tick_distance steps; the decoder's clamps allow a tick distance as
    // small as 0.5 (slider velocity 0.1 with format >= 8, or 10 with format < 8 in catch) and a
    // length up to 100000 (MAX_LEN).  Span counts are kept small here (the cost is linear in
    // them: 9000 repeats would be ~16 s of legitimate work per line, beyond the watchdog).
    for i in 0..40 * scale {
        let mode = if i % 2 == 0 { 0 } else { 2 };
        let version = *r.pick(&[14i64, 7, 8, 5]);
        let inh = *r.pick(&["-1000", "-10", "-100", "-2000", "-1"]);
        let mut lines: Vec<String> = vec![
            format!("osu file format v{}", version),
            "[General]".into(),
            format!("Mode: {}", mode),
            "[Difficulty]".into(),
            "SliderMultiplier:0.4".into(),
            format!("SliderTickRate:{}", r.pick(&["8", "4", "100", "0.5"])),
            "[TimingPoints]".into(),
            format!("0,{},4,1,0,100,1,0", r.pick(&["500", "6", "60000", "0.001", "1e9"])),
            format!("0,{},4,1,0,100,0,0", inh),
            "[HitObjects]".into(),
        ];
        let n = r.range(1, 3);
        for j in 0..n {
            let reps = r.range(1, 12);
            let len = *r.pick(&["100000", "131072", "50000", "99999.5", "1e5"]);
            let path = *r.pick(&["L|1:0", "L|300:0", "B|100:100|200:0", "C|50:50|100:0"]);
            lines.push(format!("0,0,{},2,0,{},{},{}", 1000 * j, path, reps, len));
        }
        let text = lines.join("\n") + "\n";
        f(text.as_bytes(), "tick-dense");
    }
    // 4. BOM / UTF-16 variants incl. odd tails and truncated code units
    for i in 0..60 * scale {
        let o = Opts { level: 1, max_objects: 5, ..Opts::default() };
        let text = gen_osu::file(&mut r, &o);
        let enc = 1 + (i % 3) as u8;
        let mut b = gen_osu::encode_as(&text, enc);
        if i % 2 == 0 && !b.is_empty() {
            let cut = r.below(b.len());
            b.truncate(cut);
        }
        f(&b, &format!("encoded-enc{}", enc));
    }
    // 4b. UTF-16LE streams that end right after the low byte of a line feed (the inputs of the
    // repaired finding D6: read_exact turned the clean end of the stream into UnexpectedEof):
    // generated files, LF and CRLF, cut after the 0x0A of their line feeds; the shortest such streams
    for i in 0..12 * scale {
        let o = Opts { level: (i % 2) as u8, max_objects: 4, ..Opts::default() };
        let text = gen_osu::file(&mut r, &o);
        let text = if i % 3 == 2 { text.replace('\n', "\r\n") } else { text };
        let b = gen_osu::encode_as(&text, 2);
        let cuts: Vec<usize> = (2..b.len().saturating_sub(1)).step_by(2).filter(|&p| b[p] == 0x0A && b[p + 1] == 0).map(|p| p + 1).collect();
        for (j, &c) in cuts.iter().enumerate() {
            if tier == "thorough" || j % 4 == i % 4 || j + 1 == cuts.len() {
                f(&b[..c], "utf16le-lf-cut");
            }
        }
    }
    for s in [&[0xFFu8, 0xFE, 0x0A][..], &[0xFF, 0xFE, b'a', 0, 0x0A], &[0xFF, 0xFE, 0x0A, 0, 0x0A], &[0xFF, 0xFE, 0x0D, 0, 0x0A], &[0xFF, 0xFE, b'[', 0, 0x0A], &[0xFF, 0xFE, 0x0A, 0x0A]] {
        f(s, "utf16le-lf-cut");
    }
    // 5. every short byte string over the alphabet of the BOM sniffer and the line splitter
    //    (complete and partial BOMs, NUL, LF, a header byte, a letter)
    let bom_alpha: [u8; 9] = [0xEF, 0xBB, 0xBF, 0xFE, 0xFF, 0x00, 0x0A, b'[', b'A'];
    f(&[], "short-bytes");
    for &a in &bom_alpha {
        f(&[a], "short-bytes");
        for &b in &bom_alpha {
            f(&[a, b], "short-bytes");
            if tier == "thorough" {
                for &c in &bom_alpha {
                    f(&[a, b, c], "short-bytes");
                }
            }
        }
    }
    // complete BOM followed by a partial one / by one more byte
    for bom in [&[0xEFu8, 0xBB, 0xBF][..], &[0xFF, 0xFE][..], &[0xFE, 0xFF][..]] {
        for &a in &bom_alpha {
            let mut v = bom.to_vec();
            v.push(a);
            f(&v, "short-bytes");
        }
    }
    // 6. multi-byte characters at every offset from the end of every string-valued field
    for i in 0..100 * scale {
        let text = unicode_fields_file(&mut r);
        let enc = if i % 6 == 5 { 2 } else { 0 };
        f(&gen_osu::encode_as(&text, enc), "unicode-fields");
    }
    // 7. many objects whose start and end times lie within a few ulps of each other, in any
    //    file order (orderings, deduplication and tolerance comparisons over near-equal times)
    for i in 0..40 * scale {
        let base = *r.pick(&[0.0f64, 0.5, 0.25, 0.001, 1.0, 0.9999999999999999, 1000.0]);
        let n = 22 + r.below(50);
        let near = |r: &mut Rng, b: f64| -> f64 {
            let k = r.below(8) as u64;
            f64::from_bits(b.to_bits() + k)
        };
        let mut text = format!("osu file format v14\n\n[General]\nMode:{}\n\n[TimingPoints]\n0,500,4,2,1,60,1,0\n\n[HitObjects]\n", if i % 4 == 3 { 3 } else { 0 });
        for _ in 0..n {
            let start = if r.below(3) == 0 { near(&mut r, base) } else { 0.0 };
            let eb = if r.below(4) == 0 { base * 2.0 } else { base };
            let end = near(&mut r, eb);
            match r.below(4) {
                0 => text.push_str(&format!("256,192,{:?},1,{}\n", end, r.below(16))),
                1 => text.push_str(&format!("64,192,{:?},128,{},{:?}:0:0:0:0:\n", start, r.below(16), end)),
                _ => text.push_str(&format!("256,192,{:?},12,{},{:?}\n", start, r.below(16), end)),
            }
        }
        f(text.as_bytes(), "ulp-cluster");
    }
    // 8. every numeric field of every record kind replaced, one at a time, by every hostile
    //    literal (limits, limits +- 1, huge, tiny, non-finite, padded, malformed)
    let literals = [
        "2147483647", "-2147483647", "2147483648", "-2147483648", "2147483646", "-2147483649", "4294967295", "4294967296",
        "9223372036854775807", "-9223372036854775808", "99999999999999999999", "0", "-0", "+5", " 7 ", "007", "1e3", "1.5", "",
        "x", "0x10", "1e400", "-1e400", "nan", "NaN", "inf", "-inf", "1e-400", "4.9e-324", "3.4028236e38", "16777217",
        "131072", "-131072", "131073", "9000", "9001", "8999", "255", "256", "-1", "65536", "1e10", "0.5", "-0.5",
    ];
    let templates: [(&str, &str); 12] = [
        ("[HitObjects]", "256,192,1000,2,0,B|300:200|350:100,1,120,2|0,0:0|0:0,0:0:0:0:"),
        ("[HitObjects]", "256,192,1000,6,4,P|300:200|350:100,2,90"),
        ("[HitObjects]", "256,192,1000,1,0,0:0:0:0:"),
        ("[HitObjects]", "256,192,1000,12,0,2000,0:0:0:0:"),
        ("[HitObjects]", "64,192,1000,128,0,2000:0:0:0:0:"),
        ("[TimingPoints]", "1000,500,4,2,1,60,1,0"),
        ("[TimingPoints]", "2000,-50,4,2,1,60,0,1"),
        ("[Events]", "2,1000,2000"),
        ("[Events]", "0,0,\"bg.jpg\",0,0"),
        ("[Colours]", "Combo1 : 1,2,3"),
        ("[Editor]", "Bookmarks: 1,2"),
        ("[Difficulty]", "SliderTickRate:1"),
    ];
    for (ti, (sec, line)) in templates.iter().enumerate() {
        // positions of the maximal digit runs of the template
        let bytes = line.as_bytes();
        let mut spans = vec![];
        let mut i = 0;
        while i < bytes.len() {
            if bytes[i].is_ascii_digit() || (bytes[i] == b'-' && i + 1 < bytes.len() && bytes[i + 1].is_ascii_digit()) {
                let st = i;
                i += 1;
                while i < bytes.len() && bytes[i].is_ascii_digit() {
                    i += 1;
                }
                spans.push((st, i));
            } else {
                i += 1;
            }
        }
        for (si, &(st, en)) in spans.iter().enumerate() {
            for (li, lit) in literals.iter().enumerate() {
                if tier != "thorough" && (ti + si + li) % 2 == 1 && !lit.contains("2147483648") {
                    continue;
                }
                let mutated = format!("{}{}{}", &line[..st], lit, &line[en..]);
                let text = format!(
                    "osu file format v14\n\n[General]\nMode:{}\n\n[Difficulty]\nSliderMultiplier:1.4\n\n[TimingPoints]\n0,500,4,2,1,60,1,0\n\n{}\n{}\n{}\n\n[HitObjects]\n10,10,5000,1,0\n",
                    (ti + li) % 4, sec, mutated, line
                );
                f(text.as_bytes(), "field-matrix");
            }
        }
    }
}

/// 0..=5 characters drawn from 1-, 2-, 3- and 4-byte characters (plus the
/// separators the parsers look for), so that every byte offset near the start
/// and the end of a field falls inside a character in some case
fn ustr(r: &mut Rng) -> String {
    // the last five: characters whose UTF-16 code units contain a byte 0x0A
    const POOL: [&str; 19] = ["a", "Z", ".", "0", "\u{e9}", "\u{fc}", "\u{65e5}", "\u{672c}", "\u{1d11e}", "\u{301}", "\"", " ", "\u{a0}", "\u{3000}", "\u{4e0a}", "\u{0a41}", "\u{010a}", "\u{1040a}", "\u{200a}"];
    let n = r.below(6);
    let mut s = String::new();
    for _ in 0..n {
        s.push_str(*r.pick(&POOL));
    }
    s
}

fn unicode_fields_file(r: &mut Rng) -> String {
    let mut l: Vec<String> = vec!["osu file format v14".into()];
    l.push("[General]".into());
    l.push(format!("AudioFilename: {}", ustr(r)));
    l.push(format!("SampleSet: {}", ustr(r)));
    l.push(format!("{}: {}", ustr(r), ustr(r)));
    l.push("[Metadata]".into());
    for k in ["Title", "TitleUnicode", "Artist", "ArtistUnicode", "Creator", "Version", "Source", "Tags"] {
        if r.chance(1, 2) {
            l.push(format!("{}:{}", k, ustr(r)));
        }
    }
    l.push("[Events]".into());
    for _ in 0..r.range(2, 6) {
        let name = ustr(r);
        let ext = *r.pick(&["", ".avi", ".jpg", ".MP4", "avi", ".m4", "4v"]);
        let kind = *r.pick(&["0", "1", "Video", "Background", "2", "Sample", "4", "Sprite"]);
        let line = match r.below(4) {
            0 => format!("{},0,\"{}{}\"", kind, name, ext),
            1 => format!("{},0,{}{}", kind, name, ext),
            2 => format!("{},0,\"{}{}\",0,0", kind, name, ext),
            _ => format!("{},{},\"{}{}", kind, ustr(r), name, ext),
        };
        l.push(line);
    }
    l.push(format!("[{}]", ustr(r)));
    l.push(ustr(r));
    l.push("[Colours]".into());
    l.push(format!("{} : 1,2,3", ustr(r)));
    l.push(format!("Combo{} : 1,2,3", ustr(r)));
    l.push("[TimingPoints]".into());
    l.push(format!("0,500,4,{},0,100,1,0", ustr(r)));
    l.push("[HitObjects]".into());
    l.push(format!("256,192,0,1,0,0:0:0:0:{}", ustr(r)));
    l.push(format!("256,192,100,2,0,L|300:192,1,44,0|0,0:0|0:0,0:0:0:0:{}{}", ustr(r), *r.pick(&["", ".wav"])));
    l.push(format!("0,0,200,128,0,300:0:0:0:0:{}", ustr(r)));
    l.push(format!("256,192,300,1,0,{}", ustr(r)));
    l.push(format!("{},192,400,1,0", ustr(r)));
    l.join("\n") + "\n"
}

pub fn generate(tier: &str, seed: u64, out: &mut Out) {
    let mut n = 0u64;
    let mut by_origin: std::collections::BTreeMap<String, u64> = Default::default();
    let mut hangs = 0u32;
    let mut skipped = 0u64;
    inputs(tier, seed, |b, origin| {
        if hangs >= MAX_HANGS {
            skipped += 1;
            return;
        }
        n += 1;
        let key = origin.split(' ').next().unwrap_or("").to_string();
        *by_origin.entry(key).or_insert(0) += 1;
        let before = out.oracle.len();
        check_bytes(b, origin, out, &mut hangs);
        // byte-level correspondence (reader model composed with the decoder models) on a
        // sample of the inputs; inputs on which the implementation hung or panicked are skipped
        if out.oracle.len() == before && b.len() <= 6000 && n % 3 == 0 {
            crate::decoders::model_case_bytes(8, b, out, origin);
            crate::decoders::model_case_bytes((n % 8) as usize, b, out, origin);
        }
    });
    if skipped > 0 {
        out.count_n("inputs.skipped_after_hangs", skipped);
    }
    for (k, v) in by_origin {
        out.count_n(&format!("inputs.{}", k), v);
    }
    crate::decoders::cases_for("c01", tier, seed, out);
}

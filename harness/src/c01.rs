//! C01: decoding and re-encoding never panic, hang or fail on arbitrary bytes.
//! Implementation-side oracle over all nine decoder types; the correspondence
//! cases (full-decode model vs implementation) are produced by `decoders.rs`.
use crate::gen_osu::{self, Opts};
use crate::out::Out;
use crate::rng::Rng;
use crate::util::{bundled_maps, guarded};
use rosu_map::section::{
    colors::Colors, difficulty::Difficulty, editor::Editor, events::Events, general::General,
    hit_objects::HitObjects, metadata::Metadata, timing_points::TimingPoints,
};
use rosu_map::Beatmap;
use std::time::Instant;

pub const RULE: &str = "byte strings: uniform noise, grammar-generated .osu text (levels 0-2, hostile numerics), byte/line/field mutations, splices and truncations of the bundled maps, BOM/UTF-16 variants; each through all nine decoder types (from_bytes) and, for Beatmap, re-encoded; non-trivial = at least one section header recognised and at least 5 lines; distinct = distinct byte strings";

fn hex(bytes: &[u8]) -> String {
    let mut s = String::with_capacity(bytes.len() * 2);
    for b in bytes.iter().take(4000) {
        s.push_str(&format!("{:02x}", b));
    }
    if bytes.len() > 4000 {
        s.push_str("...");
    }
    s
}

fn d6_class(bytes: &[u8]) -> bool {
    // UTF-16LE stream that ends right after the low byte of a line feed
    bytes.len() >= 3 && bytes[0] == 0xFF && bytes[1] == 0xFE && *bytes.last().unwrap() == 0x0A
}

macro_rules! try_decoder {
    ($ty:ty, $name:expr, $bytes:expr, $out:expr, $desc:expr) => {{
        $out.oracle_checks += 1;
        let t0 = Instant::now();
        let r = guarded(|| rosu_map::from_bytes::<$ty>($bytes));
        let dt = t0.elapsed().as_secs_f64();
        if dt > 10.0 {
            $out.fail("", $desc, &format!("{}: decoding took {:.1}s (hang?)", $name, dt));
        }
        match r {
            Err(p) => $out.fail("", $desc, &format!("{}: decoder panicked: {}", $name, p)),
            Ok(Err(e)) => {
                let cls = if d6_class($bytes) && e.kind() == std::io::ErrorKind::UnexpectedEof { "D6" } else { "" };
                $out.fail(cls, $desc, &format!("{}: in-memory decode returned an error: {:?}", $name, e.kind()))
            }
            Ok(Ok(_)) => {}
        }
    }};
}

pub fn check_bytes(bytes: &[u8], origin: &str, out: &mut Out) {
    let desc = format!("{} len={} hex={}", origin, bytes.len(), hex(bytes));
    try_decoder!(General, "General", bytes, out, &desc);
    try_decoder!(Editor, "Editor", bytes, out, &desc);
    try_decoder!(Metadata, "Metadata", bytes, out, &desc);
    try_decoder!(Difficulty, "Difficulty", bytes, out, &desc);
    try_decoder!(Events, "Events", bytes, out, &desc);
    try_decoder!(Colors, "Colors", bytes, out, &desc);
    try_decoder!(TimingPoints, "TimingPoints", bytes, out, &desc);
    try_decoder!(HitObjects, "HitObjects", bytes, out, &desc);
    out.oracle_checks += 1;
    let t0 = Instant::now();
    let r = guarded(|| {
        let m = rosu_map::from_bytes::<Beatmap>(bytes);
        match m {
            Ok(mut m) => {
                let n = m.hit_objects.len();
                let enc = m.encode_to_string();
                (true, Some(enc.map(|s| s.len()).map_err(|e| e.kind())), n)
            }
            Err(_) => (false, None, 0),
        }
    });
    let dt = t0.elapsed().as_secs_f64();
    if dt > 20.0 {
        out.fail("", &desc, &format!("Beatmap: decode+encode took {:.1}s (hang?)", dt));
    }
    match r {
        Err(p) => out.fail("", &desc, &format!("Beatmap: decode or encode panicked: {}", p)),
        Ok((false, _, _)) => {
            let cls = if d6_class(bytes) { "D6" } else { "" };
            out.fail(cls, &desc, "Beatmap: in-memory decode returned an error")
        }
        Ok((true, Some(Err(k)), _)) => out.fail("", &desc, &format!("Beatmap: encode_to_string failed: {:?}", k)),
        Ok((true, _, n)) => {
            out.count(&format!("beatmap.objects.{}", if n == 0 { "0" } else if n < 5 { "1-4" } else { "5+" }));
        }
    }
}

pub fn inputs(tier: &str, seed: u64, mut f: impl FnMut(&[u8], &str)) {
    let mut r = Rng::new(seed ^ 0xC01);
    let maps = bundled_maps();
    let scale = if tier == "thorough" { 12 } else { 1 };
    // 1. uniform noise
    for i in 0..150 * scale {
        let len = if i % 3 == 0 { r.below(16) } else { r.below(600) };
        let b: Vec<u8> = (0..len).map(|_| r.next() as u8).collect();
        f(&b, "noise");
    }
    // noise restricted to the format's alphabet
    let alpha = b"0123456789,.:|-+eE[]/ \n\r\tBLPCosu filermatvGnHOjcTgPDyN\xff\xfe\x00";
    for _ in 0..150 * scale {
        let len = r.below(300);
        let b: Vec<u8> = (0..len).map(|_| *r.pick(alpha)).collect();
        f(&b, "alphabet-noise");
    }
    // 2. grammar-generated files
    for i in 0..250 * scale {
        let o = Opts { level: (i % 3) as u8, chronological: i % 4 != 0, ..Opts::default() };
        let text = gen_osu::file(&mut r, &o);
        let enc = if i % 5 == 0 { r.below(4) as u8 } else { 0 };
        f(&gen_osu::encode_as(&text, enc), &format!("grammar-level{}-enc{}", o.level, enc));
    }
    // 3. mutations, splices and truncations of bundled maps
    if !maps.is_empty() {
        for _ in 0..120 * scale {
            let (_, src) = r.pick(&maps);
            // keep it small: a window of the file around a random position
            let base: Vec<u8> = if src.len() > 6000 {
                let head = 1500.min(src.len());
                let s = r.below(src.len() - 3000);
                let mut v = src[..head].to_vec();
                v.extend_from_slice(&src[s..s + 3000]);
                v
            } else {
                src.clone()
            };
            let m = gen_osu::mutate(&mut r, &base);
            f(&m, "mutation");
        }
        // truncations at every length of the smallest maps
        let mut small: Vec<&(String, Vec<u8>)> = maps.iter().filter(|(_, b)| b.len() < 1500).collect();
        small.truncate(if tier == "thorough" { 8 } else { 2 });
        for (name, b) in small {
            for k in 0..=b.len() {
                f(&b[..k], &format!("truncation {}@{}", name, k));
            }
        }
        // every bundled map as is (thorough), a few otherwise
        for (i, (name, b)) in maps.iter().enumerate() {
            if tier == "thorough" || i % 9 == 0 {
                f(b, &format!("bundled {}", name));
            }
        }
    }
    // 4. BOM / UTF-16 variants incl. odd tails and truncated code units
    for i in 0..60 * scale {
        let o = Opts { level: 1, max_objects: 5, ..Opts::default() };
        let text = gen_osu::file(&mut r, &o);
        let enc = 1 + (i % 3) as u8;
        let mut b = gen_osu::encode_as(&text, enc);
        if i % 2 == 0 && !b.is_empty() {
            let cut = r.below(b.len());
            b.truncate(cut);
        }
        f(&b, &format!("encoded-enc{}", enc));
    }
}

pub fn generate(tier: &str, seed: u64, out: &mut Out) {
    let mut n = 0u64;
    let mut by_origin: std::collections::BTreeMap<String, u64> = Default::default();
    inputs(tier, seed, |b, origin| {
        n += 1;
        let key = origin.split(' ').next().unwrap_or("").to_string();
        *by_origin.entry(key).or_insert(0) += 1;
        check_bytes(b, origin, out);
    });
    for (k, v) in by_origin {
        out.count_n(&format!("inputs.{}", k), v);
    }
    crate::decoders::cases_for("c01", tier, seed, out);
}

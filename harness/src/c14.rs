//! C14: hit-object lines decode per the legacy grammar — cases, implementation
//! run, canonical dump, reference parser (oracle) and residue oracle.
//!
//! The reference parser below is written from the property text / the
//! documented .osu grammar, on its own data types and with its own control
//! flow; it never looks at the Coq model.
use crate::out::Out;
use crate::proto::Line;
use crate::rng::Rng;
use crate::util::guarded;
use rosu_map::section::hit_objects::hit_samples::{
    HitSampleDefaultName, HitSampleInfo, HitSampleInfoName, SampleBank,
};
use rosu_map::section::hit_objects::{
    HitObject, HitObjectKind, HitObjects, HitObjectsState, PathControlPoint, SplineType,
};
use rosu_map::{DecodeBeatmap, DecodeState};

pub const RULE: &str = "a case is a sequence of 1-4 (sweeps: 8) hit-object lines run through HitObjects::parse_hit_objects on one state; it counts as non-trivial when at least one line is accepted and the case contains something beyond a bare circle (a slider path, an extras/edge field, a non-circle kind, a rejected line, or a type/sound value outside the plain ones)";

// ---------------------------------------------------------------------------
// neutral observation types (floats as bit patterns)
// ---------------------------------------------------------------------------

#[derive(Clone, Debug, PartialEq)]
pub struct Sample {
    /// Ok(0 normal, 1 whistle, 2 finish, 3 clap) or Err(file name)
    name: Result<u8, String>,
    bank: u8,
    suffix: Option<u32>,
    volume: i32,
    custom: i32,
    bank_specified: bool,
    layered: bool,
}

#[derive(Clone, Debug, PartialEq)]
pub struct Cp {
    x: u32,
    y: u32,
    /// (spline kind 0 catmull 1 bspline 2 linear 3 perfect, degree)
    ty: Option<(u8, Option<i32>)>,
}

#[derive(Clone, Debug, PartialEq)]
pub enum Kind {
    Circle { x: u32, y: u32, nc: bool, co: i32 },
    Slider {
        x: u32,
        y: u32,
        nc: bool,
        co: i32,
        mode: u8,
        cps: Vec<Cp>,
        dist: Option<u64>,
        nodes: Vec<Vec<Sample>>,
        repeats: i32,
        velocity: u64,
    },
    Spinner { x: u32, y: u32, dur: u64, nc: bool },
    Hold { x: u32, dur: u64 },
}

#[derive(Clone, Debug, PartialEq)]
pub struct Obj {
    start: u64,
    kind: Kind,
    samples: Vec<Sample>,
}

#[derive(Clone, Debug, PartialEq, Default)]
pub struct Snap {
    objs: Vec<Obj>,
    last: Option<i32>,
    curve: Vec<Cp>,
    verts: Vec<Cp>,
}

fn bank_idx(b: SampleBank) -> u8 {
    match b {
        SampleBank::None => 0,
        SampleBank::Normal => 1,
        SampleBank::Soft => 2,
        SampleBank::Drum => 3,
    }
}

fn obs_sample(s: &HitSampleInfo) -> Sample {
    Sample {
        name: match &s.name {
            HitSampleInfoName::Default(d) => Ok(match d {
                HitSampleDefaultName::Normal => 0,
                HitSampleDefaultName::Whistle => 1,
                HitSampleDefaultName::Finish => 2,
                HitSampleDefaultName::Clap => 3,
            }),
            HitSampleInfoName::File(f) => Err(f.clone()),
        },
        bank: bank_idx(s.bank),
        suffix: s.suffix.map(|n| n.get()),
        volume: s.volume,
        custom: s.custom_sample_bank,
        bank_specified: s.bank_specified,
        layered: s.is_layered,
    }
}

fn obs_cp(p: &PathControlPoint) -> Cp {
    Cp {
        x: p.pos.x.to_bits(),
        y: p.pos.y.to_bits(),
        ty: p.path_type.map(|t| {
            (
                match t.kind {
                    SplineType::Catmull => 0,
                    SplineType::BSpline => 1,
                    SplineType::Linear => 2,
                    SplineType::PerfectCurve => 3,
                },
                t.degree.map(|d| d.get()),
            )
        }),
    }
}

fn obs_obj(h: &HitObject) -> Obj {
    let kind = match &h.kind {
        HitObjectKind::Circle(c) => Kind::Circle {
            x: c.pos.x.to_bits(),
            y: c.pos.y.to_bits(),
            nc: c.new_combo,
            co: c.combo_offset,
        },
        HitObjectKind::Slider(s) => {
            // SliderPath::mode is private without accessor: read it off Debug
            let dbg = format!("{:?}", s.path);
            let mode = if dbg.starts_with("SliderPath { mode: Osu") {
                0
            } else if dbg.starts_with("SliderPath { mode: Taiko") {
                1
            } else if dbg.starts_with("SliderPath { mode: Catch") {
                2
            } else if dbg.starts_with("SliderPath { mode: Mania") {
                3
            } else {
                255
            };
            Kind::Slider {
                x: s.pos.x.to_bits(),
                y: s.pos.y.to_bits(),
                nc: s.new_combo,
                co: s.combo_offset,
                mode,
                cps: s.path.control_points().iter().map(obs_cp).collect(),
                dist: s.path.expected_dist().map(f64::to_bits),
                nodes: s.node_samples.iter().map(|v| v.iter().map(obs_sample).collect()).collect(),
                repeats: s.repeat_count,
                velocity: s.velocity.to_bits(),
            }
        }
        HitObjectKind::Spinner(s) => Kind::Spinner {
            x: s.pos.x.to_bits(),
            y: s.pos.y.to_bits(),
            dur: s.duration.to_bits(),
            nc: s.new_combo,
        },
        HitObjectKind::Hold(h) => Kind::Hold { x: h.pos_x.to_bits(), dur: h.duration.to_bits() },
    };
    Obj { start: h.start_time.to_bits(), kind, samples: h.samples.iter().map(obs_sample).collect() }
}

// ---------------------------------------------------------------------------
// canonical dump (must mirror coq/Model/HitObjectLine.v dump_state)
// ---------------------------------------------------------------------------

fn dump_sample(l: &mut Line, s: &Sample) {
    match &s.name {
        Ok(n) => {
            l.i(0).i(*n as i128);
        }
        Err(f) => {
            l.i(1).s(f);
        }
    }
    l.i(s.bank as i128);
    match s.suffix {
        Some(v) => {
            l.i(1).i(v as i128);
        }
        None => {
            l.i(0);
        }
    }
    l.i(s.volume as i128).i(s.custom as i128).b(s.bank_specified).b(s.layered);
}
fn dump_samples(l: &mut Line, v: &[Sample]) {
    l.i(v.len() as i128);
    for s in v {
        dump_sample(l, s);
    }
}
fn dump_cps(l: &mut Line, v: &[Cp]) {
    l.i(v.len() as i128);
    for p in v {
        l.u(p.x as u64).u(p.y as u64);
        match p.ty {
            Some((k, d)) => {
                l.i(1).i(k as i128);
                match d {
                    Some(d) => {
                        l.i(1).i(d as i128);
                    }
                    None => {
                        l.i(0);
                    }
                }
            }
            None => {
                l.i(0);
            }
        }
    }
}
fn dump_obj(l: &mut Line, o: &Obj) {
    l.u(o.start);
    match &o.kind {
        Kind::Circle { x, y, nc, co } => {
            l.i(0).u(*x as u64).u(*y as u64).b(*nc).i(*co as i128);
        }
        Kind::Slider { x, y, nc, co, mode, cps, dist, nodes, repeats, velocity } => {
            l.i(1).u(*x as u64).u(*y as u64).b(*nc).i(*co as i128).i(*mode as i128);
            dump_cps(l, cps);
            match dist {
                Some(d) => {
                    l.i(1).u(*d);
                }
                None => {
                    l.i(0);
                }
            }
            l.i(nodes.len() as i128);
            for n in nodes {
                dump_samples(l, n);
            }
            l.i(*repeats as i128).u(*velocity);
        }
        Kind::Spinner { x, y, dur, nc } => {
            l.i(2).u(*x as u64).u(*y as u64).u(*dur).b(*nc);
        }
        Kind::Hold { x, dur } => {
            l.i(3).u(*x as u64).u(*dur);
        }
    }
    dump_samples(l, &o.samples);
}
fn dump_snap(l: &mut Line, s: &Snap) {
    l.i(s.objs.len() as i128);
    for o in &s.objs {
        dump_obj(l, o);
    }
    match s.last {
        Some(t) => {
            l.i(1).i(t as i128);
        }
        None => {
            l.i(0);
        }
    }
    dump_cps(l, &s.curve);
    dump_cps(l, &s.verts);
}

// ---------------------------------------------------------------------------
// implementation run
// ---------------------------------------------------------------------------

pub struct Run {
    /// per line: 0 accepted, 1 rejected, 2 panicked
    res: Vec<u8>,
    /// curve_points length after each line
    residue: Vec<usize>,
    /// last_object after each line
    last_after: Vec<Option<i32>>,
    snap: Snap,
}

pub fn run_impl(mode: u8, lines: &[String]) -> Run {
    let mut st = HitObjectsState::create(14);
    HitObjects::parse_general(&mut st, &format!("Mode: {mode}")).expect("mode line");
    let mut res = vec![];
    let mut residue = vec![];
    let mut last_after = vec![];
    for l in lines {
        match guarded(|| HitObjects::parse_hit_objects(&mut st, l).is_ok()) {
            Ok(true) => res.push(0),
            Ok(false) => res.push(1),
            Err(_) => {
                res.push(2);
                residue.push(st.curve_points.len());
                last_after.push(st.last_object.map(i32::from));
                break;
            }
        }
        residue.push(st.curve_points.len());
        last_after.push(st.last_object.map(i32::from));
    }
    let snap = Snap {
        objs: st.hit_objects.iter().map(obs_obj).collect(),
        last: st.last_object.map(i32::from),
        curve: st.curve_points.iter().map(obs_cp).collect(),
        verts: st.vertices.iter().map(obs_cp).collect(),
    };
    Run { res, residue, last_after, snap }
}

// ---------------------------------------------------------------------------
// reference parser (from the property text / documented grammar)
// ---------------------------------------------------------------------------

const COORD_MAX: f64 = 131_072.0;
const NUM_MAX: f64 = 2_147_483_647.0;
const REPEAT_MAX: i64 = 9000;

fn ref_f64(s: &str, lim: f64) -> Option<f64> {
    let v: f64 = s.trim().parse().ok()?;
    if v.is_nan() || v > lim || v < -lim {
        None
    } else {
        Some(v)
    }
}
fn ref_f32(s: &str, lim: f32) -> Option<f32> {
    let v: f32 = s.trim().parse().ok()?;
    if v.is_nan() || v > lim || v < -lim {
        None
    } else {
        Some(v)
    }
}
/// integer with the library's number limit (symmetric: i32::MIN is refused)
fn ref_int(s: &str) -> Option<i64> {
    let v: i32 = s.trim().parse().ok()?;
    if v == i32::MIN {
        None
    } else {
        Some(v as i64)
    }
}
/// positions are truncated to integers
fn trunc_pos(v: f64) -> f32 {
    // an integer has no signed zero
    (v.trunc() as i64) as f32
}

#[derive(Clone, Debug, Default)]
struct RBank {
    file: Option<String>,
    normal: u8,
    addition: u8,
    volume: i32,
    custom: i32,
}

fn bank_from_int(n: i64) -> u8 {
    match n {
        0 => 0,
        1 => 1,
        2 => 2,
        3 => 3,
        _ => 1,
    }
}

/// `normal:addition[:custom[:volume[:file]]]`; an empty first field means
/// "nothing given".  None = malformed.
fn ref_banks(b: &mut RBank, fields: &[&str], banks_only: bool) -> Option<()> {
    if fields.is_empty() || fields[0].is_empty() {
        return Some(());
    }
    let normal = bank_from_int(ref_int(fields[0])?);
    let addition = bank_from_int(ref_int(fields.get(1)?)?);
    b.normal = normal;
    b.addition = if addition == 0 { normal } else { addition };
    if banks_only {
        return Some(());
    }
    if let Some(f) = fields.get(2) {
        b.custom = ref_int(f)? as i32;
    }
    if let Some(f) = fields.get(3) {
        b.volume = (ref_int(f)?).max(0) as i32;
    }
    b.file = fields.get(4).map(|s| s.to_string());
    Some(())
}

fn ref_one(name: u8, bank: u8, custom: i32, volume: i32) -> Sample {
    Sample {
        name: Ok(name),
        bank: if bank == 0 { 1 } else { bank },
        suffix: if custom >= 2 { Some(custom as u32) } else { None },
        volume,
        custom,
        bank_specified: bank != 0,
        layered: false,
    }
}

/// the documented sample list of a hit sound byte
fn ref_samples(b: &RBank, sound: u8) -> Vec<Sample> {
    let mut v = vec![];
    match &b.file {
        Some(f) if !f.is_empty() => v.push(Sample {
            name: Err(f.clone()),
            bank: 1,
            suffix: None,
            volume: b.volume,
            custom: 1,
            bank_specified: false,
            layered: false,
        }),
        _ => {
            let mut s = ref_one(0, b.normal, b.custom, b.volume);
            s.layered = sound != 0 && sound & 1 == 0;
            v.push(s);
        }
    }
    for (bit, name) in [(4u8, 2u8), (2, 1), (8, 3)] {
        if sound & bit != 0 {
            v.push(ref_one(name, b.addition, b.custom, b.volume));
        }
    }
    v
}

#[derive(Clone, Copy, Debug, PartialEq)]
struct RPt {
    x: f32,
    y: f32,
}

fn ref_point(tok: &str, ox: f32, oy: f32) -> Option<RPt> {
    let mut it = tok.split(':');
    let a = it.next()?;
    let b = it.next()?;
    let x = trunc_pos(ref_f64(a, COORD_MAX)?);
    let y = trunc_pos(ref_f64(b, COORD_MAX)?);
    Some(RPt { x: x - ox, y: y - oy })
}

fn ref_letter(tok: &str) -> (u8, Option<i32>) {
    let mut ch = tok.chars();
    match ch.next() {
        Some('B') => match ch.as_str().parse::<i32>() {
            Ok(d) if d > 0 => (1, Some(d)),
            _ => (1, None),
        },
        Some('L') => (2, None),
        Some('P') => (3, None),
        _ => (0, None),
    }
}

fn collinear(a: RPt, b: RPt, c: RPt) -> bool {
    ((b.y - a.y) * (c.x - a.x) - (b.x - a.x) * (c.y - a.y)).abs() < f32::EPSILON
}

/// control points of a path string, relative to (ox, oy)
fn ref_path(path: &str, ox: f32, oy: f32) -> Option<Vec<Cp>> {
    let toks: Vec<&str> = path.split('|').collect();
    // segment starts: token 0, and every later token that begins with a letter
    let mut starts = vec![0usize];
    for (i, t) in toks.iter().enumerate().skip(1) {
        let c = t.chars().next()?; // an empty token is malformed
        if c.is_ascii_alphabetic() {
            starts.push(i);
        }
    }
    let mut out: Vec<Cp> = vec![];
    for (k, &s) in starts.iter().enumerate() {
        let e = if k + 1 < starts.len() { starts[k + 1] } else { toks.len() };
        let mut ty = ref_letter(toks[s]);
        let mut pts: Vec<RPt> = vec![];
        if k == 0 {
            pts.push(RPt { x: 0.0, y: 0.0 });
        }
        for t in &toks[s + 1..e] {
            pts.push(ref_point(t, ox, oy)?);
        }
        // the first point of the following segment closes this one
        let closing = if k + 1 < starts.len() { toks.get(e + 1) } else { None };
        let closing = match closing {
            Some(t) => Some(ref_point(t, ox, oy)?),
            None => None,
        };
        let total = pts.len() + usize::from(closing.is_some());
        if ty.0 == 3 {
            if total == 3 {
                let all: Vec<RPt> = pts.iter().copied().chain(closing).collect();
                if collinear(all[0], all[1], all[2]) {
                    ty = (2, None);
                }
            } else {
                ty = (1, None);
            }
        }
        if total == 0 {
            return None;
        }
        if pts.is_empty() {
            // only reachable with a closing point, which is then a letter token: malformed above
            return None;
        }
        // emit, splitting at repeated points
        let n = pts.len();
        let mut seg: Vec<Cp> = vec![];
        let mk = |p: RPt, t: Option<(u8, Option<i32>)>| Cp { x: p.x.to_bits(), y: p.y.to_bits(), ty: t };
        seg.push(mk(pts[0], Some(ty)));
        let mut i = 1;
        while i < n {
            let repeated = pts[i] == pts[i - 1];
            let catmull_exempt = ty.0 == 0 && i > 1;
            let at_end = i == n - 1;
            if repeated && !catmull_exempt && !at_end {
                if let Some(last) = seg.last_mut() {
                    last.ty = Some(ty);
                }
                out.append(&mut seg);
                // the repeated point itself is dropped
            } else {
                seg.push(mk(pts[i], None));
            }
            i += 1;
        }
        out.append(&mut seg);
    }
    Some(out)
}

#[derive(Clone, Copy, Debug, Default)]
struct RCtx {
    /// kind of the previous accepted object: 0 circle 1 slider 2 spinner 3 hold
    prev_kind: Option<u8>,
}

fn ref_line(ctx: &RCtx, mode: u8, line: &str) -> Option<(Obj, u8)> {
    let line = match line.find("//") {
        Some(i) => &line[..i],
        None => line,
    };
    let line = line.trim_end();
    let f: Vec<&str> = line.split(',').collect();
    if f.len() < 5 {
        return None;
    }
    let x = trunc_pos(ref_f32(f[0], COORD_MAX as f32)? as f64);
    let y = trunc_pos(ref_f32(f[1], COORD_MAX as f32)? as f64);
    let start = ref_f64(f[2], NUM_MAX)?;
    let ty: i32 = f[3].parse().ok()?;
    let sound: u8 = (f[4].parse::<i32>().ok()? & 0xff) as u8;
    let bit = |k: u32| (ty >> k) & 1 == 1;
    let new_combo_flag = bit(2);
    let combo_offset = if new_combo_flag { (ty >> 4) & 7 } else { 0 };
    let starts_combo = new_combo_flag || ctx.prev_kind.is_none() || ctx.prev_kind == Some(2);
    let mut bank = RBank::default();
    let extras = |b: &mut RBank, s: Option<&&str>| -> Option<()> {
        match s {
            Some(s) => ref_banks(b, &s.split(':').collect::<Vec<_>>(), false),
            None => Some(()),
        }
    };
    let (kind, k) = if bit(0) {
        extras(&mut bank, f.get(5))?;
        (Kind::Circle { x: x.to_bits(), y: y.to_bits(), nc: starts_combo, co: combo_offset }, 0)
    } else if bit(1) {
        let path = f.get(5)?;
        let repeats_raw = ref_int(f.get(6)?)?;
        if repeats_raw > REPEAT_MAX {
            return None;
        }
        let repeats = (repeats_raw - 1).max(0);
        let mut dist = None;
        if let Some(s) = f.get(7) {
            let v = ref_f64(s, COORD_MAX)?;
            if v >= f64::EPSILON {
                dist = Some(v.to_bits());
            }
        }
        if let Some(s) = f.get(10) {
            ref_banks(&mut bank, &s.split(':').collect::<Vec<_>>(), true)?;
        }
        let n = repeats as usize + 2;
        let mut banks = vec![bank.clone(); n];
        if let Some(s) = f.get(9).filter(|s| !s.is_empty()) {
            for (i, set) in s.split('|').enumerate() {
                if i < n {
                    ref_banks(&mut banks[i], &set.split(':').collect::<Vec<_>>(), false)?;
                }
            }
        }
        let mut sounds = vec![sound; n];
        if let Some(s) = f.get(8).filter(|s| !s.is_empty()) {
            for (i, t) in s.split('|').enumerate() {
                if i < n {
                    sounds[i] = t.parse::<i32>().map(|v| (v & 0xff) as u8).unwrap_or(0);
                }
            }
        }
        let nodes: Vec<Vec<Sample>> = (0..n).map(|i| ref_samples(&banks[i], sounds[i])).collect();
        let cps = ref_path(path, x, y)?;
        (
            Kind::Slider {
                x: x.to_bits(),
                y: y.to_bits(),
                nc: starts_combo,
                co: combo_offset,
                mode,
                cps,
                dist,
                nodes,
                repeats: repeats as i32,
                velocity: 1.0f64.to_bits(),
            },
            1,
        )
    } else if bit(3) {
        let end = ref_f64(f.get(5)?, NUM_MAX)?;
        let dur = if end > start { end - start } else { 0.0 };
        extras(&mut bank, f.get(6))?;
        (Kind::Spinner { x: 256f32.to_bits(), y: 192f32.to_bits(), dur: dur.to_bits(), nc: new_combo_flag }, 2)
    } else if bit(7) {
        let mut dur = 0.0;
        if let Some(s) = f.get(5).filter(|s| !s.is_empty()) {
            let parts: Vec<&str> = s.split(':').collect();
            let end = ref_f64(parts[0], NUM_MAX)?;
            if end > start {
                dur = end - start;
            }
            ref_banks(&mut bank, &parts[1..], false)?;
        }
        (Kind::Hold { x: x.to_bits(), dur: dur.to_bits() }, 3)
    } else {
        return None;
    };
    Some((Obj { start: start.to_bits(), kind, samples: ref_samples(&bank, sound) }, k))
}

// ---------------------------------------------------------------------------
// comparison
// ---------------------------------------------------------------------------

fn feq(a: u64, b: u64) -> bool {
    // numeric equality (the sign of a zero duration is left open by f64::max)
    f64::from_bits(a) == f64::from_bits(b)
}

/// names of the fields in which two objects differ
fn diff_fields(a: &Obj, b: &Obj) -> Vec<&'static str> {
    let mut d = vec![];
    if a.start != b.start {
        d.push("start_time");
    }
    if a.samples != b.samples {
        d.push("samples");
    }
    match (&a.kind, &b.kind) {
        (Kind::Circle { x, y, nc, co }, Kind::Circle { x: x2, y: y2, nc: nc2, co: co2 }) => {
            if (x, y) != (x2, y2) {
                d.push("pos");
            }
            if nc != nc2 {
                d.push("new_combo");
            }
            if co != co2 {
                d.push("combo_offset");
            }
        }
        (
            Kind::Slider { x, y, nc, co, mode, cps, dist, nodes, repeats, velocity },
            Kind::Slider {
                x: x2,
                y: y2,
                nc: nc2,
                co: co2,
                mode: mode2,
                cps: cps2,
                dist: dist2,
                nodes: nodes2,
                repeats: repeats2,
                velocity: velocity2,
            },
        ) => {
            if (x, y) != (x2, y2) {
                d.push("pos");
            }
            if nc != nc2 {
                d.push("new_combo");
            }
            if co != co2 {
                d.push("combo_offset");
            }
            if mode != mode2 {
                d.push("mode");
            }
            if cps != cps2 {
                d.push("control_points");
            }
            if dist != dist2 {
                d.push("expected_dist");
            }
            if nodes != nodes2 {
                d.push("node_samples");
            }
            if repeats != repeats2 {
                d.push("repeat_count");
            }
            if velocity != velocity2 {
                d.push("velocity");
            }
        }
        (Kind::Spinner { x, y, dur, nc }, Kind::Spinner { x: x2, y: y2, dur: dur2, nc: nc2 }) => {
            if (x, y) != (x2, y2) {
                d.push("pos");
            }
            if !feq(*dur, *dur2) {
                d.push("duration");
            }
            if nc != nc2 {
                d.push("new_combo");
            }
        }
        (Kind::Hold { x, dur }, Kind::Hold { x: x2, dur: dur2 }) => {
            if x != x2 {
                d.push("pos");
            }
            if !feq(*dur, *dur2) {
                d.push("duration");
            }
        }
        _ => d.push("kind"),
    }
    d
}

fn direct_checks(o: &Obj, out: &mut Out, input: &str) {
    // clauses of the property that can be read off a single object
    let neg = |bits: u64| f64::from_bits(bits) < 0.0 || f64::from_bits(bits).is_nan();
    let coord_ok = |b: u32| {
        let v = f32::from_bits(b);
        v == v.trunc() && v.abs() <= 131072.0
    };
    match &o.kind {
        Kind::Circle { x, y, co, .. } => {
            if !coord_ok(*x) || !coord_ok(*y) {
                out.fail("", input, "circle position is not an integer within +-131072");
            }
            if !(0..=7).contains(co) {
                out.fail("", input, "combo offset outside 0..7");
            }
        }
        Kind::Slider { x, y, co, nodes, repeats, dist, .. } => {
            if !coord_ok(*x) || !coord_ok(*y) {
                out.fail("", input, "slider position is not an integer within +-131072");
            }
            if !(0..=7).contains(co) {
                out.fail("", input, "combo offset outside 0..7");
            }
            if *repeats < 0 || *repeats > 9000 || nodes.len() != *repeats as usize + 2 {
                out.fail("", input, "slider node sample sets != repeats + 2");
            }
            if let Some(d) = dist {
                if !(f64::from_bits(*d) > 0.0) {
                    out.fail("", input, "stored slider length is not positive");
                }
            }
        }
        Kind::Spinner { dur, .. } => {
            if neg(*dur) {
                out.fail("", input, "negative spinner duration");
            }
        }
        Kind::Hold { dur, .. } => {
            if neg(*dur) {
                out.fail("", input, "negative hold duration");
            }
        }
    }
    out.oracle_checks += 1;
}

/// reference-parser oracle over one sequence
fn oracle_reference(mode: u8, lines: &[String], run: &Run, out: &mut Out) {
    let mut ctx = RCtx::default();
    let mut idx_obj = 0usize;
    for (i, l) in lines.iter().enumerate() {
        if i >= run.res.len() {
            break;
        }
        let input = format!("mode {mode}: {}", lines[..=i].join(" \\n "));
        let expected = ref_line(&ctx, mode, l);
        out.oracle_checks += 1;
        match (run.res[i], expected) {
            (2, _) => out.fail("", &input, "parse_hit_objects panicked"),
            (0, None) => out.fail("", &input, "accepted a line the documented grammar rejects"),
            (_, None) => {}
            (1, Some(_)) => out.fail("", &input, "rejected a line the documented grammar accepts"),
            (_, Some((exp, k))) => {
                let got = &run.snap.objs[idx_obj];
                idx_obj += 1;
                direct_checks(got, out, &input);
                let residue_before = if i == 0 { 0 } else { run.residue[i - 1] };
                for fld in diff_fields(got, &exp) {
                    // "new_combo": the reference decides "first object or directly after a spinner" by the
                    // KIND of the previously accepted object (former D15, repaired: a type with the spinner
                    // bit next to the circle/slider bit is a circle/slider) -- any difference is unlisted
                    if fld == "control_points" && residue_before > 0 {
                        out.fail("", &input, &format!("slider carries control points left behind by an earlier rejected slider line ({residue_before} were pending): got {:?} expected {:?}", got, exp));
                    } else {
                        out.fail("", &input, &format!("field {fld} differs from the documented grammar: got {:?} expected {:?}", got, exp));
                    }
                }
                ctx.prev_kind = Some(k);
            }
        }
    }
}

/// residue oracle: the same sequence without its rejected lines must give the same objects
fn oracle_residue(mode: u8, lines: &[String], run: &Run, out: &mut Out) {
    if !run.res.iter().any(|&r| r == 1) || run.res.iter().any(|&r| r == 2) {
        return;
    }
    let kept: Vec<String> = lines.iter().zip(&run.res).filter(|(_, &r)| r == 0).map(|(l, _)| l.clone()).collect();
    let clean = run_impl(mode, &kept);
    out.oracle_checks += 1;
    if clean.snap.objs != run.snap.objs || clean.snap.last != run.snap.last {
        let input = format!("mode {mode}: {}", lines.join(" \\n "));
        let left = lines.iter().zip(&run.res).zip(&run.residue).any(|((_, &r), &n)| r == 1 && n > 0);
        if left {
            out.fail("", &input, "objects differ from the run without the rejected line(s): a rejected slider left control points behind and they reached a later object");
        } else {
            out.fail("", &input, "objects differ from the run without the rejected line(s)");
        }
    }
}

// ---------------------------------------------------------------------------
// one case
// ---------------------------------------------------------------------------

fn plain(line: &str) -> bool {
    // "x,y,t,1,0" with small integers only
    let f: Vec<&str> = line.split(',').collect();
    f.len() == 5 && f[3] == "1" && f[4] == "0" && f.iter().all(|s| s.parse::<i32>().is_ok())
}

pub fn run_case(mode: u8, lines: &[String], out: &mut Out) {
    let run = run_impl(mode, lines);
    let mut case = Line::entry("c14");
    case.i(mode as i128);
    for l in lines {
        case.s(l);
    }
    let mut res = Line::new();
    let mut panicked = false;
    for r in &run.res {
        match r {
            2 => {
                res.i(2).i(0);
                panicked = true;
            }
            r => {
                res.i(*r as i128);
            }
        }
    }
    if !panicked {
        dump_snap(&mut res, &run.snap);
    }
    let accepted = run.res.iter().filter(|&&r| r == 0).count();
    let rejected = run.res.iter().filter(|&&r| r == 1).count();
    out.count_n("lines", lines.len() as u64);
    out.count_n("lines_accepted", accepted as u64);
    out.count_n("lines_rejected", rejected as u64);
    for o in &run.snap.objs {
        match &o.kind {
            Kind::Circle { .. } => out.count("obj_circle"),
            Kind::Slider { cps, dist, .. } => {
                out.count("obj_slider");
                if cps.iter().skip(1).any(|c| c.ty.is_some()) {
                    out.count("slider_multi_segment");
                }
                if dist.is_none() {
                    out.count("slider_natural_length");
                }
            }
            Kind::Spinner { .. } => out.count("obj_spinner"),
            Kind::Hold { .. } => out.count("obj_hold"),
        }
        if o.samples.len() > 1 {
            out.count("obj_with_additions");
        }
        if o.samples.iter().any(|s| s.name.is_err()) {
            out.count("obj_with_file_sample");
        }
    }
    if run.residue.iter().zip(&run.res).any(|(&n, &r)| r == 1 && n > 0) {
        out.count("rejected_line_left_residue");
    }
    let nontrivial = accepted > 0 && (rejected > 0 || lines.iter().any(|l| !plain(l)));
    let desc = format!("mode {mode}: {}", lines.join(" \\n "));
    out.case(case.0, res.0, desc, nontrivial);
    oracle_reference(mode, lines, &run, out);
    oracle_residue(mode, lines, &run, out);
    let _ = &run.last_after;
}

// ---------------------------------------------------------------------------
// generators
// ---------------------------------------------------------------------------

const COORDS_OK: &[&str] = &[
    "0", "256", "192", "512", "384", "100", "-5", "100.7", "-100.7", "1e2", "131072", "-131072", "131072.001",
    "-0.5", ".5", "5.", "+7", " 12 ", "0.999", "-0", "64", "1E1",
];
const COORDS_BAD: &[&str] = &["131073", "-131073", "131072.5", "", "nan", "inf", "-inf", "1e40", "0x10", "1_0", "abc", "1,", "--1", "1e", "\u{e9}"];
const TIMES_OK: &[&str] = &["0", "1000", "-500", "1234.5", "2147483647", "-2147483647", "1e9", "-0", " 7 ", "0.1", "5e-1", "100", "200", "300"];
const TIMES_BAD: &[&str] = &["2147483648", "-2147483648", "abc", "", "nan", "inf", "1e10", "1..2"];
const TYPES_ODD: &[&str] = &[
    "-1", "-128", "-2147483648", "2147483647", "257", "258", "1026", "264", "384", "65537", "+1", "01", "-0", "9", "10", "11", "137", "130", "136",
    "12", "5", "6", "21", "117", "113", "241", "0", "4", "16", "112", "116",
];
const TYPES_BAD: &[&str] = &[" 1", "1 ", "", "1.0", "x", "2147483648", "-2147483649", "1e0", "0x1"];
const SOUNDS_ODD: &[&str] = &["-1", "256", "300", "2147483647", "-2147483648", "+2", "015", "255", "14", "16", "128"];
const SOUNDS_BAD: &[&str] = &["", "x", " 2", "2 ", "2.0", "2147483648"];
const EXTRAS: &[&str] = &[
    "0:0:0:0:", "1:2", "1:2:3:40:file.wav", "", "2:0:5:70:", "3:3:1:0:a b.wav", "4:9:-3:-20:x", "0:0:0:0:hit:more", " 1 : 2 ", "0:1:2:3:4:5",
    "1:0", "0:1", "0:0", "3:2:2:100", "2:1:0", "1:1:2147483647:2147483647:f", "0:3:-2147483647", "2:2:1:0:", "-1:-1", "7:7:7:7:7",
];
const EXTRAS_BAD: &[&str] = &["1", "1:", ":1x", "x:1", "1:x", "1:2:x", "1:2:3:x", "2147483648:0", "-2147483648:0", "0:-2147483648", "1:2:3:4294967296"];
const REPEATS_OK: &[&str] = &["0", "1", "2", "3", "4", "9000", "-1", "-5", "-2147483647", " 2 ", "+3", "10"];
const REPEATS_BAD: &[&str] = &["9001", "2147483647", "-2147483648", "", "x", "2.0", "2147483648"];
const LENGTHS_OK: &[&str] = &[
    "", "0", "-0", "-10", "100", "100.5", "1e-20", "2.2e-16", "2.220446049250313e-16", "2.3e-16", "131072", "-131072", "1e3", " 50 ", "0.0001",
    "140", "70.25",
];
const LENGTHS_BAD: &[&str] = &["131073", "-131073", "nan", "x", "inf", "1e400", "131072.00000001"];
const EDGE_SOUNDS: &[&str] = &["", "0|2", "2|4|8", "1|x|300", "2", "||", "4|4|4|4|4|4", "15|0", "-1|256", " 2|2 ", "0"];
const EDGE_SETS: &[&str] = &["", "0:0|1:2", "1:1|2:2|3:3", "0:0:5:50:f.wav|1:1", "2:3", "|1:1", "0:0|0:0|0:0|0:0|0:0", "3:0:2:80:|0:2:0:0:g.ogg", "1:2:3:4:5|"];
const EDGE_SETS_BAD: &[&str] = &["1", "1:x|0:0", "0:0|x", "0:0|1"];
const LETTERS: &[&str] = &[
    "B", "B", "L", "L", "P", "P", "C", "C", "B3", "B0", "B-1", "B+2", "B1", "B2147483647", "B2147483648", "Bx", "B 3", "X", "Z", "b", "l", "p", "c", "Line",
    "Px", "LL", "A", "z",
];

fn pick<'a>(r: &mut Rng, xs: &'a [&'a str]) -> &'a str {
    xs[r.below(xs.len())]
}

/// a coordinate field: mostly valid, sometimes odd, rarely (if `bad`) malformed
fn gen_coord(r: &mut Rng, bad: bool) -> String {
    if bad && r.chance(1, 3) {
        pick(r, COORDS_BAD).to_string()
    } else if r.chance(1, 2) {
        r.range(0, 512).to_string()
    } else {
        pick(r, COORDS_OK).to_string()
    }
}

fn gen_point(r: &mut Rng, ox: i64, oy: i64, bad: bool) -> String {
    if bad && r.chance(1, 4) {
        return pick(r, &["5", "", "a:b", "nan:1", "inf:1", "1:", ":1", "131073:0", "0:-131073", "x", "1;2", "1:2e400"]).to_string();
    }
    match r.below(12) {
        0 => pick(r, &["131072:0", "-131072:0", "0:131072", "131072:-131072", "1e3:5", "10.7:-10.7", " 7 : 8 ", "5:5:5", "3:4:", "+1:+2", "0.999:0.999", "-0.5:-0.5"]).to_string(),
        1 => format!("{ox}:{oy}"),
        // fractional coordinates on either side of the slider head
        2 => {
            let fr = ["0.5", "0.25", "0.75", "0.999", "0.001"];
            format!("{}.{}:{}.{}", ox + r.range(-60, 60), &fr[r.below(5)][2..], oy + r.range(-60, 60), &fr[r.below(5)][2..])
        }
        _ => {
            let g = [0i64, 50, 100, 150, 200];
            format!("{}:{}", ox + g[r.below(5)] - 100, oy + g[r.below(5)] - 100)
        }
    }
}

/// path string: segments over all letters, with repeated points, collinear
/// triples, empty tokens, and (if `bad`) a malformed later segment
fn gen_path(r: &mut Rng, ox: i64, oy: i64, bad: bool) -> String {
    let nseg = 1 + [0, 0, 0, 1, 1, 2, 3][r.below(7)];
    let bad_seg = if bad { Some(r.below(nseg)) } else { None };
    let mut toks: Vec<String> = vec![];
    for s in 0..nseg {
        let letter = if s == 0 && r.chance(1, 12) {
            pick(r, &["", "1:1", "7", "é"]).to_string()
        } else {
            pick(r, LETTERS).to_string()
        };
        toks.push(letter);
        let npts = [0, 1, 1, 2, 2, 2, 3, 3, 4, 6][r.below(10)];
        let shape = r.below(6);
        // collinear runs at every magnitude: beyond ~4096 units the cross-product terms exceed
        // 2^24 and are no longer exact in f32, which is where rounding order starts to matter
        let step: i64 = *r.pick(&[10i64, 10, 1000, 4097, 4099, 12345, 30001, 43690]);
        let slope: i64 = *r.pick(&[1i64, 1, 2, -1, 3]);
        let mut pts: Vec<String> = vec![];
        for k in 0..npts {
            let p = match shape {
                // collinear run
                0 => format!("{}:{}", ox + step * (k as i64 + 1), oy + slope * step * (k as i64 + 1)),
                // horizontal run
                1 => format!("{}:{}", ox + 25 * (k as i64 + 1), oy),
                _ => gen_point(r, ox, oy, false),
            };
            pts.push(p);
            // duplicates: repeat the point just pushed
            if r.chance(1, 4) {
                let d = pts.last().unwrap().clone();
                pts.push(d);
                if r.chance(1, 4) {
                    let d = pts.last().unwrap().clone();
                    pts.push(d);
                }
            }
        }
        if Some(s) == bad_seg {
            let at = r.below(pts.len() + 1);
            pts.insert(at, gen_point(r, ox, oy, true));
            if r.chance(1, 3) {
                pts.insert(at, pick(r, &["", "x:0", "0", "1:y"]).to_string());
            }
        }
        toks.extend(pts);
    }
    if r.chance(1, 25) {
        let at = r.below(toks.len() + 1);
        toks.insert(at, String::new()); // "||"
    }
    toks.join("|")
}

#[derive(Clone, Copy, PartialEq)]
enum Want {
    Circle,
    Slider,
    Spinner,
    Hold,
    Any,
}

/// a type field for the wanted kind, with combo bits mixed in
fn gen_type(r: &mut Rng, want: Want, bad: bool) -> String {
    if bad && r.chance(1, 4) {
        return pick(r, TYPES_BAD).to_string();
    }
    let base: i64 = match want {
        Want::Circle => 1,
        Want::Slider => 2,
        Want::Spinner => 8,
        Want::Hold => 128,
        Want::Any => return if r.chance(1, 2) { r.range(0, 255).to_string() } else { pick(r, TYPES_ODD).to_string() },
    };
    let mut t = base;
    if r.chance(1, 2) {
        t |= 4;
    }
    if r.chance(1, 3) {
        t |= (r.range(0, 7)) << 4;
    }
    // lower-precedence kind bits that must be ignored
    if r.chance(1, 6) {
        t |= match want {
            Want::Circle => [2, 8, 128, 10][r.below(4)],
            Want::Slider => [8, 128, 136][r.below(3)],
            Want::Spinner => 128,
            _ => 0,
        };
    }
    if r.chance(1, 20) {
        t |= 256 << r.below(20);
    }
    if r.chance(1, 30) {
        t -= 1 << 32; // negative, same low bits
        if t < i32::MIN as i64 {
            t += 1 << 32;
        }
    }
    t.to_string()
}

fn gen_sound(r: &mut Rng, bad: bool) -> String {
    if bad && r.chance(1, 4) {
        pick(r, SOUNDS_BAD).to_string()
    } else if r.chance(1, 8) {
        pick(r, SOUNDS_ODD).to_string()
    } else if r.chance(1, 2) {
        r.range(0, 15).to_string()
    } else {
        r.range(0, 255).to_string()
    }
}

fn gen_extras(r: &mut Rng, bad: bool) -> Option<String> {
    if r.chance(1, 5) {
        None
    } else if bad && r.chance(1, 3) {
        Some(pick(r, EXTRAS_BAD).to_string())
    } else if r.chance(1, 3) {
        Some(format!("{}:{}:{}:{}:{}", r.range(0, 4), r.range(0, 4), r.range(0, 3), r.range(0, 100), pick(r, &["", "", "s.wav"])))
    } else {
        Some(pick(r, EXTRAS).to_string())
    }
}

/// one line of the wanted kind; `bad` = this line belongs to the malformed stream
fn gen_line(r: &mut Rng, want: Want, bad: bool) -> String {
    // exactly one field is corrupted in a malformed line
    let nfields = 8;
    let corrupt = if bad { r.below(nfields) } else { 1000 };
    let ox = r.range(0, 512);
    let oy = r.range(0, 384);
    let x = if corrupt == 0 || r.chance(1, 6) { gen_coord(r, corrupt == 0) } else { ox.to_string() };
    let y = if corrupt == 1 || r.chance(1, 6) { gen_coord(r, corrupt == 1) } else { oy.to_string() };
    let (ox, oy) = (x.trim().parse::<f32>().map(|v| v as i64).unwrap_or(ox), y.trim().parse::<f32>().map(|v| v as i64).unwrap_or(oy));
    let t = if corrupt == 2 && r.chance(1, 2) {
        pick(r, TIMES_BAD).to_string()
    } else if r.chance(1, 2) {
        r.range(0, 5000).to_string()
    } else {
        pick(r, TIMES_OK).to_string()
    };
    let want = if want == Want::Any { [Want::Circle, Want::Slider, Want::Spinner, Want::Hold, Want::Any][r.below(5)] } else { want };
    let ty = gen_type(r, want, corrupt == 3);
    let snd = gen_sound(r, corrupt == 4);
    let mut f: Vec<String> = vec![x, y, t.clone(), ty, snd];
    match want {
        Want::Circle | Want::Any => {
            if let Some(e) = gen_extras(r, bad && corrupt >= 5) {
                f.push(e);
            }
        }
        Want::Slider => {
            f.push(gen_path(r, ox, oy, corrupt == 5));
            f.push(if corrupt == 6 && r.chance(1, 2) { pick(r, REPEATS_BAD).to_string() } else if r.chance(1, 2) { r.range(0, 4).to_string() } else { pick(r, REPEATS_OK).to_string() });
            let depth = r.below(6); // how many optional fields follow
            if depth >= 1 {
                f.push(if corrupt == 6 && r.chance(1, 2) { pick(r, LENGTHS_BAD).to_string() } else { pick(r, LENGTHS_OK).to_string() });
            }
            if depth >= 2 {
                f.push(pick(r, EDGE_SOUNDS).to_string());
            }
            if depth >= 3 {
                f.push(if corrupt == 7 && r.chance(1, 2) { pick(r, EDGE_SETS_BAD).to_string() } else { pick(r, EDGE_SETS).to_string() });
            }
            if depth >= 4 {
                if let Some(e) = gen_extras(r, corrupt == 7) {
                    f.push(e);
                }
            }
            if depth >= 5 {
                f.push("junk".to_string());
            }
        }
        Want::Spinner => {
            let end = if corrupt == 5 {
                pick(r, TIMES_BAD).to_string()
            } else if r.chance(1, 4) {
                pick(r, TIMES_OK).to_string()
            } else {
                (t.trim().parse::<f64>().unwrap_or(0.0) as i64 + r.range(-200, 3000)).to_string()
            };
            f.push(end);
            if let Some(e) = gen_extras(r, bad && corrupt >= 6) {
                f.push(e);
            }
        }
        Want::Hold => {
            if !r.chance(1, 6) {
                let end = if corrupt == 5 {
                    pick(r, TIMES_BAD).to_string()
                } else if r.chance(1, 4) {
                    pick(r, TIMES_OK).to_string()
                } else {
                    (t.trim().parse::<f64>().unwrap_or(0.0) as i64 + r.range(-200, 3000)).to_string()
                };
                match gen_extras(r, bad && corrupt >= 6) {
                    Some(e) => f.push(format!("{end}:{e}")),
                    None => f.push(end),
                }
            }
        }
    }
    if bad && r.chance(1, 8) {
        // too few fields
        f.truncate(r.below(5));
    }
    let mut line = f.join(",");
    if r.chance(1, 25) {
        line.push_str(pick(r, &[" ", "  // comment", "//", " //x,1,2", "\t"]));
    }
    line
}

/// a valid slider used to observe residue
fn observer_slider(r: &mut Rng) -> String {
    pick(r, &["10,10,500,2,0,L|50:50,1,50", "0,0,900,6,2,B|30:30|60:0,2,80,2|0|2,0:0|1:1|0:0,1:2:0:0:", "100,100,50,2,0,P|150:150|200:100,1", "5,5,5,2,0,C|1:1|2:2,1"]).to_string()
}

pub fn generate(tier: &str, seed: u64, out: &mut Out) {
    let thorough = tier == "thorough";
    let mut r = Rng::new(seed ^ 0xC14);
    let s = |x: &str| x.to_string();

    // ---- corpus: recorded readings and findings first
    // former D3 (repaired): a rejected slider must not leak its first segments into the next one
    run_case(0, &[s("1,1,0,2,0,B|100:100|L|200:0|P|x:0,1,300"), s("1,1,0,2,0,L|50:50,1,50")], out);
    // former D15 (repaired): the spinner bit next to the circle / slider bit is a circle / slider, the next
    // object does not follow a spinner; next to the hold bit alone it IS a spinner
    run_case(0, &[s("0,0,0,9,0"), s("0,0,0,1,0")], out);
    run_case(0, &[s("0,0,0,10,0,L|5:5,1"), s("0,0,10,1,0")], out);
    run_case(0, &[s("0,0,0,11,0"), s("0,0,10,2,0,L|5:5,1")], out);
    run_case(0, &[s("0,0,0,136,0,50"), s("0,0,60,1,0"), s("0,0,70,2,0,L|5:5,1")], out);
    run_case(0, &[s("0,0,0,9,0"), s("0,0,5,8,0"), s("bad"), s("0,0,10,1,0")], out);
    // signed zeros in durations
    run_case(3, &[s("0,0,0,8,0,-0"), s("0,0,0,128,0,-0:0:0:0:0:"), s("0,0,-0,128,0,0:0:0:0:0:"), s("0,0,-0,128,0")], out);
    run_case(1, &[s("-0.5,0,0,-1,0"), s("256,192,1000,12,0,3000,0:0:0:0:"), s("1,2,3,1,14,1:2:3:40:file.wav")], out);
    for l in [
        "0,0,0,2,0,B|1:1|1:1|2:2|2:2,1,10",
        "0,0,0,2,0,C|1:1|1:1|2:2|2:2|3:3,1,10",
        "0,0,0,2,0,C|0:0|1:1|2:2,1,10",
        "0,0,0,2,0,P|1:1|2:2,1,10",
        "0,0,0,2,0,P|1:0|2:2,1,10",
        "0,0,0,2,0,P|1:0,1,10",
        "0,0,0,2,0,P|1:0|2:2|3:0,1,10",
        "0,0,0,2,0,B|L|1:1,1",
        "0,0,0,2,0,B|1:1|L,1",
        "0,0,0,2,0,B|1:1|L|P|2:2,1",
        "0,0,0,2,0,|1:1,1",
        "0,0,0,2,0,B|1:1||2:2,1",
        "0,0,0,2,0,B|1:1|1:1|1:1|2:2,1",
        "0,0,0,2,0,B|1:1|2:2|2:2|L|2:2|3:3,1",
        "0,0,0,2,0,P|1:1|L|2:2|3:3,1",
        "0,0,0,2,0,P|1:1|P|3:0|5:5,1",
        "0,0,0,2,0,L|1:1,9000",
        "0,0,0,2,0,L|1:1,9001",
        "0,0,0,2,0,L|1:1,-2147483647,1e-20,1|2,0:0|x",
        "131072,-131072,0,1,0",
        "131073,0,0,1,0",
        "0,0,0,0,0",
        "0,0,0,4,0",
        "0,0,0,112,0",
    ] {
        run_case(0, &[s(l)], out);
    }

    // ---- field-wise structured stream (sequences of 1-4 lines)
    let n_struct = if thorough { 40_000 } else { 2_500 };
    for i in 0..n_struct {
        let n = 1 + r.below(4);
        let mode = r.below(4) as u8;
        let mut lines = vec![];
        // one in six sequences belongs to the malformed stream
        let malformed_case = i % 6 == 5;
        for k in 0..n {
            let want = [Want::Circle, Want::Slider, Want::Slider, Want::Spinner, Want::Hold, Want::Any][r.below(6)];
            let bad = malformed_case && (k == 0 || r.chance(1, 2));
            lines.push(gen_line(&mut r, want, bad));
        }
        out.count(if malformed_case { "stream_malformed" } else { "stream_valid" });
        run_case(mode, &lines, out);
    }

    // ---- path stream: sliders only, every letter, a malformed LATER segment followed by an observer
    let n_path = if thorough { 30_000 } else { 2_000 };
    for i in 0..n_path {
        let mode = r.below(4) as u8;
        let ox = r.range(0, 300);
        let oy = r.range(0, 300);
        let bad = i % 3 == 2;
        let path = gen_path(&mut r, ox, oy, bad);
        let first = format!("{ox},{oy},{},{},{},{path},{}", r.range(0, 1000), gen_type(&mut r, Want::Slider, false), r.range(0, 15), r.range(0, 3));
        let mut lines = vec![];
        if r.chance(1, 3) {
            lines.push(gen_line(&mut r, Want::Any, false));
        }
        lines.push(first);
        if bad || r.chance(1, 3) {
            lines.push(observer_slider(&mut r));
        }
        out.count(if bad { "stream_path_malformed" } else { "stream_path_valid" });
        run_case(mode, &lines, out);
    }

    // ---- circles: every type byte x every sound byte (thorough: exhaustive;
    //      quick: every type byte with 8 sound bytes, every sound byte with 8 type bytes)
    let extras_cycle = ["0:0:0:0:", "", "1:2:3:40:file.wav", "2:1", "3:0:2:70:"];
    let mut batch: Vec<String> = vec![];
    let mut n_sweep = 0u64;
    let push = |ty: i64, snd: i64, out: &mut Out, batch: &mut Vec<String>, n_sweep: &mut u64| {
        let e = extras_cycle[((ty + snd) % 5) as usize];
        let line = if e.is_empty() { format!("{},{},{},{ty},{snd}", 10 + ty, 20 + snd, *n_sweep) } else { format!("{},{},{},{ty},{snd},{e}", 10 + ty, 20 + snd, *n_sweep) };
        batch.push(line);
        *n_sweep += 1;
        if batch.len() == 8 {
            run_case((*n_sweep % 4) as u8, batch, out);
            batch.clear();
        }
    };
    if thorough {
        for ty in 0..256i64 {
            for snd in 0..256i64 {
                push(ty, snd, out, &mut batch, &mut n_sweep);
            }
        }
    } else {
        for ty in 0..256i64 {
            for k in 0..8i64 {
                push(ty, (ty * 37 + k * 29) % 256, out, &mut batch, &mut n_sweep);
            }
        }
        for snd in 0..256i64 {
            for k in 0..8i64 {
                push(((snd * 53 + k * 31) % 256) | 1, snd, out, &mut batch, &mut n_sweep);
            }
        }
    }
    if !batch.is_empty() {
        run_case(0, &batch, out);
    }
    out.count_n("sweep_type_x_sound_lines", n_sweep);

    // ---- a line that passes the five common fields but is rejected later, in every
    //      context, followed by a circle and a slider without the new-combo flag
    let late_rejects = [
        "0,0,10,2,0,L|1:1,9001",
        "0,0,10,2,0,L|1:1",
        "0,0,10,2,0",
        "0,0,10,2,0,L|1:1,1,nan",
        "0,0,10,2,0,L|1:1,1,10,0,0:0,x:y",
        "0,0,10,2,0,L|1:1,1,10,0,1",
        "0,0,10,2,0,L|a:1,1",
        "0,0,10,10,0,L|1:1,9001",
        "0,0,10,1,0,x",
        "0,0,10,9,0,1",
        "256,192,10,8,0",
        "256,192,10,12,0,abc",
        "256,192,10,8,0,20,1",
        "0,0,10,0,0",
        "0,0,10,4,0",
        "0,0,10,112,0",
        "0,0,10,128,0,x:0:0",
        "0,0,10,136,0",
    ];
    let contexts: [&[&str]; 4] = [&[], &["5,5,5,1,0"], &["256,192,5,12,0,8"], &["5,5,5,128,0,8:0:0:0:0:"]];
    for rej in late_rejects {
        for ctx in contexts {
            let mut lines: Vec<String> = ctx.iter().map(|x| x.to_string()).collect();
            lines.push(s(rej));
            lines.push(s("30,30,30,1,0"));
            lines.push(s("40,40,40,2,0,L|50:50,1"));
            run_case(0, &lines, out);
        }
    }
    // fractional path coordinates around the head (truncate first, then make relative)
    for (hx, hy) in [(100, 100), (0, 0), (-50, 70)] {
        for p in ["50.5:80.75|150.5:99.25", "99.5:100.5|100.5:99.5", "-0.5:0.5|0.5:-0.5", "50.5:50|0:0", "100.9:100.9|101.9:101.9"] {
            for l in ["B", "P", "L", "C"] {
                run_case(0, &[format!("{hx},{hy},1000,2,0,{l}|{p},1,100")], out);
            }
        }
    }

    // ---- every type byte followed by a bare circle and a bare slider: last_object effects
    for ty in -256i64..512 {
        // a well-formed line for whichever kind the type selects
        let first = if ty & 1 != 0 {
            format!("1,1,1,{ty},0")
        } else if ty & 2 != 0 {
            format!("1,1,1,{ty},0,L|2:2,1,10")
        } else {
            format!("1,1,1,{ty},0,50")
        };
        run_case(0, &[first.clone(), s("3,3,3,1,0"), s("4,4,4,2,0,L|9:9,1")], out);
    }

    // ---- numeric boundaries, field by field
    for c in COORDS_OK.iter().chain(COORDS_BAD) {
        run_case(0, &[format!("{c},0,0,1,0")], out);
        run_case(0, &[format!("0,{c},0,128,0")], out);
        run_case(0, &[format!("0,0,0,2,0,L|{c}:0|0:{c},1")], out);
    }
    for t in TIMES_OK.iter().chain(TIMES_BAD) {
        run_case(0, &[format!("0,0,{t},1,0")], out);
        run_case(0, &[format!("0,0,100,8,0,{t}")], out);
        run_case(0, &[format!("0,0,100,128,0,{t}:0:0")], out);
        run_case(0, &[format!("0,0,{t},12,0,100")], out);
        run_case(0, &[format!("0,0,{t},128,0,100")], out);
    }
    for t in TYPES_ODD.iter().chain(TYPES_BAD) {
        run_case(0, &[format!("0,0,0,{t},0,L|1:1,1,10"), s("0,0,0,1,0")], out);
    }
    for t in SOUNDS_ODD.iter().chain(SOUNDS_BAD) {
        run_case(0, &[format!("0,0,0,1,{t},1:2:0:0:")], out);
        run_case(0, &[format!("0,0,0,2,0,L|1:1,2,10,{t}|{t}|{t}")], out);
    }
    for e in EXTRAS.iter().chain(EXTRAS_BAD) {
        for snd in [0, 2, 5, 14, 15] {
            run_case(0, &[format!("0,0,0,1,{snd},{e}")], out);
        }
        run_case(0, &[format!("0,0,0,8,6,100,{e}")], out);
        run_case(0, &[format!("0,0,0,128,6,100:{e}")], out);
        run_case(0, &[format!("0,0,0,2,6,L|1:1,1,10,2|4,{e}|{e},{e}")], out);
    }
    for rp in REPEATS_OK.iter().chain(REPEATS_BAD) {
        run_case(0, &[format!("0,0,0,2,3,L|1:1,{rp},10,2|4|8|0,0:0|1:1|2:2|3:3")], out);
    }
    for ln in LENGTHS_OK.iter().chain(LENGTHS_BAD) {
        run_case(0, &[format!("0,0,0,2,0,L|1:1,1,{ln}")], out);
    }
    for es in EDGE_SETS.iter().chain(EDGE_SETS_BAD) {
        run_case(0, &[format!("0,0,0,2,1,L|1:1,3,10,{},{es},1:2", pick(&mut r, EDGE_SOUNDS))], out);
    }
    for l in LETTERS {
        run_case(0, &[format!("0,0,0,2,0,{l}|1:1|2:2|2:2|3:0|3:0,1"), format!("0,0,0,2,0,{l}|1:1|2:2,1"), format!("0,0,0,2,0,L|1:1|{l}|2:2|2:2|5:0,1")], out);
    }
}

//! C08: the result depends on the bytes only — schedule-following BufRead,
//! cases, implementation run, oracle.  Also hosts the I/O helpers shared with
//! c09.rs and c10.rs (schedule reader, text encoders, file/text generators).
use crate::out::Out;
use crate::proto::Line;
use crate::rng::Rng;
use crate::util::{bundled_maps, guarded};
use rosu_map::verif_hooks::LineDecoder;
use rosu_map::{Beatmap, DecodeBeatmap};
use std::io::{self, BufRead, BufReader, ErrorKind, Read};

// ---------------------------------------------------------------- schedule

/// One event = the result of one call of the underlying source.
#[derive(Clone, Copy, Debug, PartialEq)]
pub enum Ev {
    Chunk(usize),
    Interrupted,
    Fail(u8),
}

pub fn kind_of(code: u8) -> ErrorKind {
    match code {
        2 => ErrorKind::UnexpectedEof,
        3 => ErrorKind::PermissionDenied,
        4 => ErrorKind::TimedOut,
        5 => ErrorKind::WouldBlock,
        6 => ErrorKind::WriteZero,
        _ => ErrorKind::Other,
    }
}
pub fn code_of(kind: ErrorKind) -> i128 {
    match kind {
        ErrorKind::Other => 1,
        ErrorKind::UnexpectedEof => 2,
        ErrorKind::PermissionDenied => 3,
        ErrorKind::TimedOut => 4,
        ErrorKind::WouldBlock => 5,
        ErrorKind::WriteZero => 6,
        ErrorKind::Interrupted => 90,
        _ => 99,
    }
}
pub const KIND_NAMES: [&str; 7] = ["", "Other", "UnexpectedEof", "PermissionDenied", "TimedOut", "WouldBlock", "WriteZero"];

/// A `BufRead` over a byte slice that hands the bytes out as an explicit
/// schedule says: per source call a chunk of at most n fresh bytes, an
/// `Interrupted`, or a hard error.  An exhausted schedule delivers all that
/// is left at once, then EOF for ever.
pub struct SchedReader<'a> {
    data: &'a [u8],
    pos: usize,
    avail: usize,
    sched: &'a [Ev],
    next: usize,
    /// calls of fill_buf that reached the source
    pub source_calls: usize,
}

impl<'a> SchedReader<'a> {
    pub fn new(data: &'a [u8], sched: &'a [Ev]) -> Self {
        SchedReader { data, pos: 0, avail: 0, sched, next: 0, source_calls: 0 }
    }
}

impl BufRead for SchedReader<'_> {
    fn fill_buf(&mut self) -> io::Result<&[u8]> {
        if self.avail == 0 {
            self.source_calls += 1;
            let left = self.data.len() - self.pos;
            match self.sched.get(self.next) {
                None => self.avail = left,
                Some(e) => {
                    self.next += 1;
                    match *e {
                        Ev::Chunk(n) => self.avail = n.min(left),
                        Ev::Interrupted => return Err(io::Error::new(ErrorKind::Interrupted, "scheduled interruption")),
                        Ev::Fail(k) => return Err(io::Error::new(kind_of(k), "scheduled failure")),
                    }
                }
            }
        }
        Ok(&self.data[self.pos..self.pos + self.avail])
    }
    fn consume(&mut self, amt: usize) {
        let amt = amt.min(self.avail);
        self.pos += amt;
        self.avail -= amt;
    }
}

impl Read for SchedReader<'_> {
    // Read::read of a buffered source: copy out of fill_buf, consume
    fn read(&mut self, buf: &mut [u8]) -> io::Result<usize> {
        let a = self.fill_buf()?;
        let n = a.len().min(buf.len());
        buf[..n].copy_from_slice(&a[..n]);
        self.consume(n);
        Ok(n)
    }
}

pub fn sched_codes(l: &mut Line, sched: &[Ev]) {
    l.i(sched.len() as i128);
    for e in sched {
        match *e {
            Ev::Chunk(n) => l.i(n as i128),
            Ev::Interrupted => l.i(0),
            Ev::Fail(k) => l.i(-(k as i128)),
        };
    }
}

pub fn case_c08(data: &[u8], sched: &[Ev]) -> String {
    let mut l = Line::entry("c08");
    sched_codes(&mut l, sched);
    for b in data {
        l.i(*b as i128);
    }
    l.0
}

/// Run the crate's line decoder over (data, schedule) and dump every line, or
/// the error kind, in the model's format.
pub fn lines_via<R: BufRead>(reader: R) -> Result<io::Result<Vec<String>>, String> {
    guarded(move || {
        let mut dec = LineDecoder::new(reader)?;
        let mut lines = vec![];
        while let Some(s) = dec.read_line()? {
            lines.push(s);
        }
        Ok(lines)
    })
}

pub fn dump_lines(r: &Result<io::Result<Vec<String>>, String>) -> String {
    let mut l = Line::new();
    match r {
        Ok(Ok(lines)) => {
            l.i(0).i(lines.len() as i128);
            for s in lines {
                l.s(s);
            }
        }
        Ok(Err(e)) => {
            l.i(1).i(code_of(e.kind()));
        }
        Err(_) => {
            l.i(2).i(0);
        }
    }
    l.0
}

pub fn impl_lines(data: &[u8], sched: &[Ev]) -> String {
    dump_lines(&lines_via(SchedReader::new(data, sched)))
}

// ---------------------------------------------------------------- encodings

pub const ENC_NAMES: [&str; 4] = ["utf8", "utf8-bom", "utf16le-bom", "utf16be-bom"];

/// the same text in one of the four supported encodings
pub fn encode_text(text: &str, enc: usize) -> Vec<u8> {
    match enc {
        0 => text.as_bytes().to_vec(),
        1 => {
            let mut v = vec![0xEF, 0xBB, 0xBF];
            v.extend_from_slice(text.as_bytes());
            v
        }
        2 => {
            let mut v = vec![0xFF, 0xFE];
            for u in text.encode_utf16() {
                v.extend_from_slice(&u.to_le_bytes());
            }
            v
        }
        _ => {
            let mut v = vec![0xFE, 0xFF];
            for u in text.encode_utf16() {
                v.extend_from_slice(&u.to_be_bytes());
            }
            v
        }
    }
}

/// some UTF-16 code unit of the text other than U+000A has 0x0A as one of its
/// two bytes (the class of the repaired finding D5: such a unit used to end the line)
pub fn has_lf_byte_unit(text: &str) -> bool {
    text.encode_utf16().any(|u| u != 0x000A && ((u & 0xFF) == 0x0A || (u >> 8) == 0x0A))
}

// ---------------------------------------------------------------- texts

const HEADERS: [&str; 8] = ["General", "Editor", "Metadata", "Difficulty", "Events", "TimingPoints", "Colours", "HitObjects"];

/// characters for metadata content; none has a 0x0A byte in its UTF-16 form
const SAFE_CHARS: [char; 40] = [
    'a', 'Z', '0', ' ', ':', '/', '-', '\t', '\u{7f}', '\u{80}', '\u{85}', '\u{a0}', 'é', 'ß', '\u{7ff}', '\u{800}', 'あ', '漢', '字',
    '\u{1680}', '\u{2003}', '\u{2028}', '\u{3000}', '\u{d7ff}', '\u{e000}', '\u{feff}', '\u{fffd}', '\u{ffff}', '\u{10000}',
    '😀', '\u{10ffff}', '\u{1f600}', '\u{2f800}', 'ø', 'Ω', 'ж', '한', '\u{200b}', '\u{fe0f}', '~',
];
/// characters whose UTF-16 form contains a 0x0A byte (low byte, high byte, a low surrogate)
pub const LF_BYTE_CHARS: [char; 8] = ['上', '\u{010a}', '\u{0a00}', '\u{0a41}', '\u{0aff}', '\u{200a}', '\u{ff0a}', '\u{1040a}'];

pub fn rand_value(r: &mut Rng, lf_bytes: bool) -> String {
    let n = r.below(12);
    let mut s = String::new();
    for _ in 0..n {
        if lf_bytes && r.chance(1, 4) {
            s.push(*r.pick(&LF_BYTE_CHARS));
        } else if r.chance(1, 8) {
            // any scalar value without a 0x0A byte in its UTF-16 units
            loop {
                let c = r.below(0x110000) as u32;
                if let Some(ch) = char::from_u32(c) {
                    let mut b = [0u16; 2];
                    if ch.encode_utf16(&mut b).iter().all(|u| (u & 0xFF) != 0x0A && (u >> 8) != 0x0A) {
                        s.push(ch);
                        break;
                    }
                }
            }
        } else {
            s.push(*r.pick(&SAFE_CHARS));
        }
    }
    s
}

/// A small .osu-like text: version line, sections, key/value lines with
/// Unicode content, numeric lines, comments, blank lines; `\n` or `\r\n`.
/// Never starts with U+FEFF (a leading U+FEFF *is* the BOM).
pub fn gen_text(r: &mut Rng, lf_bytes: bool) -> String {
    let nl = if r.chance(1, 3) { "\r\n" } else { "\n" };
    let mut t = String::new();
    if r.chance(4, 5) {
        t += &format!("osu file format v{}{nl}", r.pick(&[14, 14, 9, 5, 3, 128]));
    }
    let nsec = r.range(1, 5);
    for _ in 0..nsec {
        if r.chance(1, 3) {
            t += nl;
        }
        let h = *r.pick(&HEADERS);
        t += &format!("[{h}]{nl}");
        let nlines = r.range(0, 6);
        for _ in 0..nlines {
            match h {
                "Metadata" | "General" | "Editor" | "Difficulty" => {
                    let key = match h {
                        "Metadata" => *r.pick(&["Title", "TitleUnicode", "Artist", "ArtistUnicode", "Creator", "Version", "Source", "Tags"]),
                        "General" => *r.pick(&["AudioFilename", "Mode", "StackLeniency", "PreviewTime"]),
                        "Editor" => *r.pick(&["Bookmarks", "BeatDivisor", "GridSize"]),
                        _ => *r.pick(&["HPDrainRate", "CircleSize", "ApproachRate", "SliderMultiplier"]),
                    };
                    if matches!(h, "Metadata") || key == "AudioFilename" {
                        t += &format!("{key}:{}{nl}", rand_value(r, lf_bytes));
                    } else {
                        t += &format!("{key}: {}{nl}", r.range(0, 9));
                    }
                }
                "Events" => {
                    if r.chance(1, 2) {
                        t += &format!("0,0,\"{}.jpg\",0,0{nl}", rand_value(r, lf_bytes));
                    } else {
                        t += &format!("2,{},{}{nl}", r.range(0, 1000), r.range(1000, 9000));
                    }
                }
                "TimingPoints" => t += &format!("{},{},4,2,0,100,{},0{nl}", r.range(-10, 5000), *r.pick(&["500", "-100", "333.33"]), r.range(0, 1)),
                "Colours" => t += &format!("Combo{} : {},{},{}{nl}", r.range(1, 4), r.below(256), r.below(256), r.below(256)),
                _ => {
                    if r.chance(1, 2) {
                        t += &format!("{},{},{},1,0,0:0:0:0:{nl}", r.range(0, 512), r.range(0, 384), r.range(0, 9000));
                    } else {
                        t += &format!("{},{},{},2,0,B|{}:{}|{}:{},1,{}{nl}", r.range(0, 512), r.range(0, 384), r.range(0, 9000), r.range(0, 512), r.range(0, 384), r.range(0, 512), r.range(0, 384), r.range(10, 300));
                    }
                }
            }
            if r.chance(1, 10) {
                t += &format!("// {}{nl}", rand_value(r, false));
            }
        }
    }
    if r.chance(1, 3) {
        // last line without a line break
        t += &format!("[Metadata]{nl}Title:{}x", rand_value(r, lf_bytes));
    }
    if t.starts_with('\u{feff}') {
        t.insert(0, ' ');
    }
    t
}

/// the bundled maps as text (all of them are UTF-8)
pub fn bundled_texts() -> Vec<(String, String)> {
    // a leading U+FEFF is the file's BOM, not part of its text
    bundled_maps().into_iter().filter_map(|(n, b)| String::from_utf8(b).ok().map(|s| (n, s.trim_start_matches('\u{feff}').to_string()))).collect()
}

// ---------------------------------------------------------------- decode + compare

pub type MapResult = Result<io::Result<Beatmap>, String>;

pub fn same_map(a: &Beatmap, b: &Beatmap) -> bool {
    a == b || format!("{a:?}") == format!("{b:?}")
}

/// None if the two decode results are the same; otherwise what differs
pub fn diff_results(a: &MapResult, b: &MapResult) -> Option<String> {
    match (a, b) {
        (Ok(Ok(x)), Ok(Ok(y))) => {
            if same_map(x, y) {
                None
            } else {
                let (dx, dy) = (format!("{x:?}"), format!("{y:?}"));
                let i = dx.bytes().zip(dy.bytes()).position(|(p, q)| p != q).unwrap_or(dx.len().min(dy.len()));
                let lo = dx[..i].rfind(", ").map_or(0, |p| p + 2);
                let cut = |s: &str| s[lo.min(s.len())..].chars().take(70).collect::<String>();
                Some(format!("decoded maps differ: `{}` vs `{}`", cut(&dx), cut(&dy)))
            }
        }
        (Ok(Err(x)), Ok(Err(y))) if x.kind() == y.kind() => None,
        (Err(_), Err(_)) => None,
        _ => Some(format!("outcomes differ: {} vs {}", short(a), short(b))),
    }
}

pub fn short(a: &MapResult) -> String {
    match a {
        Ok(Ok(_)) => "Ok(map)".into(),
        Ok(Err(e)) => format!("Err({:?})", e.kind()),
        Err(p) => format!("panic({p})"),
    }
}

pub fn decode_sched(data: &[u8], sched: &[Ev]) -> MapResult {
    guarded(|| Beatmap::decode(SchedReader::new(data, sched)))
}
pub fn decode_bytes(data: &[u8]) -> MapResult {
    guarded(|| rosu_map::from_bytes::<Beatmap>(data))
}

/// first non-empty chunk the schedule hands out for `len` bytes of data:
/// None = the schedule is exhausted first (one chunk with everything)
pub fn first_chunk(sched: &[Ev], len: usize) -> Option<usize> {
    for e in sched {
        match *e {
            Ev::Chunk(n) => return Some(n.min(len)),
            Ev::Interrupted => {}
            Ev::Fail(_) => return None,
        }
    }
    None
}

/// offsets right after the low byte 0x0A of each line feed of a UTF-16LE+BOM
/// stream: `data[..c]` ends inside a line feed (the inputs of the repaired
/// finding D6), and a reader that has handed out `c` bytes is asked next for
/// the extra byte `read_line` fetches after a 0x0A
pub fn lf_cuts_utf16le(data: &[u8]) -> Vec<usize> {
    (2..data.len().saturating_sub(1)).step_by(2).filter(|&p| data[p] == 0x0A && data[p + 1] == 0).map(|p| p + 1).collect()
}

/// a sample of `v`: first, last and up to `n` others
pub fn sample_of(r: &mut Rng, v: &[usize], n: usize) -> Vec<usize> {
    if v.len() <= n + 2 {
        return v.to_vec();
    }
    let mut s = vec![v[0], v[v.len() - 1]];
    for _ in 0..n {
        s.push(v[r.below(v.len())]);
    }
    s.sort();
    s.dedup();
    s
}

/// Records an oracle failure; instances of a known-finding class beyond the
/// first 20 are only counted, so that they can never crowd out an unlisted one.
pub fn fail(out: &mut Out, class: &str, input: &str, detail: &str) {
    if !class.is_empty() {
        let key = format!("known_finding_instances.{class}");
        out.count(&key);
        if out.dist[&key] > 20 {
            return;
        }
    }
    out.fail(class, input, detail);
}

pub fn describe(name: &str, enc: usize, len: usize, sched: &[Ev]) -> String {
    let mut s = format!("{name} [{}; {len} bytes] schedule ", ENC_NAMES[enc]);
    if sched.is_empty() {
        s += "one chunk";
    } else if sched.len() > 12 {
        s += &format!("{:?}.. ({} events)", &sched[..12], sched.len());
    } else {
        s += &format!("{sched:?}");
    }
    s
}

pub fn fixed_sched(c: usize, len: usize) -> Vec<Ev> {
    vec![Ev::Chunk(c); len / c + 2]
}

/// random faultless schedule; `first_min`: lower bound for the first chunk
pub fn rand_sched(r: &mut Rng, len: usize, first_min: usize, interrupts: bool) -> Vec<Ev> {
    let mut v = vec![];
    let mut left = len as i64;
    let style = r.below(4);
    let mut first = true;
    while left > 0 && v.len() < 4 * len + 8 {
        if interrupts && r.chance(1, 4) {
            v.push(Ev::Interrupted);
            continue;
        }
        let mut n = match style {
            0 => r.range(1, 4),
            1 => r.range(1, 40),
            2 => *r.pick(&[1, 2, 3, 5, 8, 13, 64, 100, 1000]),
            _ => {
                if r.chance(1, 3) {
                    r.range(1, 3)
                } else {
                    r.range(1, 300)
                }
            }
        } as usize;
        if first {
            n = n.max(first_min);
            first = false;
        }
        v.push(Ev::Chunk(n));
        left -= n as i64;
    }
    // what happens at the end: exhausted schedule, or explicit EOF reads
    if r.chance(1, 2) {
        v.push(Ev::Chunk(r.range(1, 9) as usize));
        if interrupts && r.chance(1, 2) {
            v.push(Ev::Interrupted);
        }
        v.push(Ev::Chunk(1));
        v.push(Ev::Chunk(1));
    }
    v
}

fn work_dir() -> std::path::PathBuf {
    std::env::args().nth(5).map(std::path::PathBuf::from).unwrap_or_else(|| std::path::PathBuf::from("work/C08"))
}

pub const RULE: &str = "byte streams (bundled maps, generated .osu texts with Unicode content, mutated/noise streams; each in UTF-8, UTF-8+BOM, UTF-16LE+BOM, UTF-16BE+BOM) delivered through a BufRead that follows an explicit schedule: every fixed chunk size 1..64, random variable schedules, random Interrupted placements, first chunks of 1 and 2 bytes, a byte order mark split at every position, every stream of 0..3 bytes over the BOM/line-feed alphabet byte by byte, explicit EOF reads; UTF-16LE streams cut right after the low byte of a line feed at every chunk size, with Interrupted at the read of the byte after a 0x0A; the implementation's line decoder output is compared with the model's read_all_lines; non-trivial = at least 3 bytes, at least 2 events and at least one complete line; distinct = distinct case lines";

/// one correspondence case + oracle check of a scheduled decode against the
/// one-buffer reference
fn one(out: &mut Out, name: &str, enc: usize, data: &[u8], sched: &[Ev], reference: &MapResult, with_model: bool) {
    if with_model {
        let res = impl_lines(data, sched);
        let nontrivial = data.len() >= 3 && sched.len() >= 2 && data.contains(&b'\n');
        // the lines themselves (a stream without section headers decodes to the default map
        // whatever its lines are): the same as for the one-chunk delivery
        if data.len() <= 4096 && !sched.is_empty() {
            out.oracle_checks += 1;
            let one_chunk = impl_lines(data, &[]);
            if res != one_chunk {
                out.fail("", &describe(name, enc, data.len(), sched), &format!("lines through the schedule differ from the lines of the one-chunk delivery: {} vs {}", &res[..res.len().min(160)], &one_chunk[..one_chunk.len().min(160)]));
            }
        }
        out.case(case_c08(data, sched), res, describe(name, enc, data.len(), sched), nontrivial);
    }
    let got = decode_sched(data, sched);
    out.oracle_checks += 1;
    // no delivery is exempt: a first chunk of one or two bytes (the class of the repaired
    // finding D4) counts like any other
    if let Some(d) = diff_results(reference, &got) {
        out.fail("", &describe(name, enc, data.len(), sched), &format!("decode through the schedule vs from_bytes: {d}"));
    }
    match first_chunk(sched, data.len()) {
        Some(c) if c < 3 => out.count("schedule.first_chunk_lt3"),
        Some(_) => out.count("schedule.first_chunk_ge3"),
        None => out.count("schedule.one_chunk"),
    }
    if sched.contains(&Ev::Interrupted) {
        out.count("schedule.with_interrupted");
    }
}

/// the other delivery paths named by the property: from_str, from_path,
/// BufReader capacities 1..16
fn other_paths(out: &mut Out, name: &str, enc: usize, data: &[u8], reference: &MapResult, file_no: usize) {
    let d = |what: &str| format!("{name} [{}; {} bytes] via {what}", ENC_NAMES[enc], data.len());
    if let Ok(s) = std::str::from_utf8(data) {
        let got = guarded(|| rosu_map::from_str::<Beatmap>(s));
        out.oracle_checks += 1;
        if let Some(x) = diff_results(reference, &got) {
            out.fail("", &d("from_str"), &x);
        }
    }
    let dir = work_dir().join("tmp");
    if std::fs::create_dir_all(&dir).is_ok() {
        let p = dir.join(format!("f{file_no}.osu"));
        if std::fs::write(&p, data).is_ok() {
            let got = guarded(|| rosu_map::from_path::<Beatmap>(&p));
            out.oracle_checks += 1;
            if let Some(x) = diff_results(reference, &got) {
                out.fail("", &d("from_path"), &x);
            }
            let _ = std::fs::remove_file(&p);
        }
    }
    // from_path on a path that is not a regular file (a pipe reached through /proc/self/fd):
    // its metadata reports length 0 whatever it delivers
    if let Ok((rd, mut wr)) = std::io::pipe() {
        use std::io::Write as _;
        use std::os::fd::AsRawFd;
        let p = format!("/proc/self/fd/{}", rd.as_raw_fd());
        if std::path::Path::new(&p).exists() {
            let bytes = data.to_vec();
            let t = std::thread::spawn(move || {
                let _ = wr.write_all(&bytes);
            });
            let got = guarded(|| rosu_map::from_path::<Beatmap>(&p));
            drop(rd);
            let _ = t.join();
            out.oracle_checks += 1;
            if let Some(x) = diff_results(reference, &got) {
                out.fail("", &d("from_path on a pipe (/proc/self/fd/N)"), &x);
            }
        }
    }
    for c in 1..=16usize {
        let got = guarded(|| Beatmap::decode(BufReader::with_capacity(c, data)));
        out.oracle_checks += 1;
        if let Some(x) = diff_results(reference, &got) {
            out.fail("", &d(&format!("BufReader::with_capacity({c}, ..)")), &x);
        }
    }
    // a generic Read behind a BufReader, delivering in odd pieces
    struct Dribble<'a>(&'a [u8], usize);
    impl Read for Dribble<'_> {
        fn read(&mut self, buf: &mut [u8]) -> io::Result<usize> {
            self.1 = self.1 % 7 + 3;
            let n = self.1.min(buf.len()).min(self.0.len());
            buf[..n].copy_from_slice(&self.0[..n]);
            self.0 = &self.0[n..];
            Ok(n)
        }
    }
    let got = guarded(|| Beatmap::decode(BufReader::new(Dribble(data, 0))));
    out.oracle_checks += 1;
    if let Some(x) = diff_results(reference, &got) {
        out.fail("", &d("BufReader over a reader returning 3..9 bytes per call"), &x);
    }
}

/// inputs: (name, text) for every bundled map and generated text
pub fn texts(r: &mut Rng, n_generated: usize) -> Vec<(String, String)> {
    let mut v = bundled_texts();
    for i in 0..n_generated {
        // every third text has characters whose UTF-16 code units contain a byte 0x0A
        v.push((format!("generated#{i}"), gen_text(r, i % 3 == 2)));
    }
    v
}

pub fn generate(tier: &str, seed: u64, out: &mut Out) {
    let thorough = tier == "thorough";
    let mut r = Rng::new(seed ^ 0xC08);
    let all = texts(&mut r, if thorough { 300 } else { 40 });
    let mut file_no = 0;

    // corpus: the deliveries of the repaired finding D4 first (read_bom dropped every chunk
    // shorter than three bytes)
    {
        let data = b"osu file format v14\n\n[Metadata]\nTitle:abc\n";
        let reference = decode_bytes(data);
        for c in [1usize, 2, 3] {
            one(out, "corpus", 0, data, &fixed_sched(c, data.len()), &reference, true);
        }
        one(out, "corpus", 0, data, &[Ev::Chunk(2), Ev::Chunk(100)], &reference, true);
        one(out, "corpus", 0, data, &[Ev::Interrupted, Ev::Chunk(3), Ev::Interrupted, Ev::Chunk(1)], &reference, true);
        for short in [&b""[..], b"a", b"ab", b"abc", b"\xEF\xBB", b"\xEF\xBB\xBF", b"\xFF\xFE", b"\xFF\xFEa", b"\xFF\xFE\n", b"\n", b"\n\n"] {
            let reference = decode_bytes(short);
            for sched in [vec![], vec![Ev::Chunk(1); 5], vec![Ev::Chunk(2); 3], vec![Ev::Chunk(3)], vec![Ev::Interrupted, Ev::Chunk(4)]] {
                one(out, "corpus-short", 0, short, &sched, &reference, true);
            }
        }
        // every stream of 0..3 bytes over the alphabet of the BOM sniffer and the line splitter,
        // in one chunk, byte by byte, 2+1 and 1+2, with Interrupted
        let alpha: [u8; 8] = [0xEF, 0xBB, 0xBF, 0xFF, 0xFE, b'a', b'\n', 0];
        let mut shorts: Vec<Vec<u8>> = vec![vec![]];
        for &a in &alpha {
            shorts.push(vec![a]);
            for &b in &alpha {
                shorts.push(vec![a, b]);
                for &c in &alpha {
                    shorts.push(vec![a, b, c]);
                }
            }
        }
        for (i, short) in shorts.iter().enumerate() {
            let reference = decode_bytes(short);
            out.count("file.short_0_to_3_bytes");
            let scheds: [Vec<Ev>; 4] = [vec![Ev::Chunk(1); 4], vec![Ev::Chunk(2), Ev::Chunk(1)], vec![Ev::Chunk(1), Ev::Interrupted, Ev::Chunk(2), Ev::Chunk(1)], vec![Ev::Interrupted, Ev::Chunk(1), Ev::Interrupted, Ev::Chunk(1), Ev::Chunk(5)]];
            for (j, sched) in scheds.iter().enumerate() {
                if thorough || short.len() < 3 || (i + j) % 2 == 0 {
                    one(out, "short", 0, short, sched, &reference, true);
                }
            }
        }
        // a byte order mark split at every position (and a chunk straddling its end), in the
        // three encodings that have one
        let text = "osu file format v14\n\n[Metadata]\nTitle:\u{6f22}\u{1f600}abc\nArtist:x\n";
        for enc in 1..4usize {
            let data = encode_text(text, enc);
            let reference = decode_bytes(&data);
            let bom = if enc == 1 { 3 } else { 2 };
            let splits: Vec<Vec<usize>> = if bom == 3 { vec![vec![1, 1, 1], vec![1, 2], vec![2, 1], vec![1, 1, 2], vec![2, 2], vec![1, 3], vec![1, 1, 40], vec![2, 40]] } else { vec![vec![1, 1], vec![1, 2], vec![1, 1, 1], vec![1, 3], vec![1, 40]] };
            for sp in &splits {
                for interrupts in [false, true] {
                    let mut s: Vec<Ev> = vec![];
                    for &n in sp {
                        if interrupts {
                            s.push(Ev::Interrupted);
                        }
                        s.push(Ev::Chunk(n));
                    }
                    for tail in [1usize, 7, 1000] {
                        let mut s2 = s.clone();
                        s2.extend(vec![Ev::Chunk(tail); data.len() / tail + 2]);
                        one(out, "split-bom", enc, &data, &s2, &reference, true);
                        out.count("schedule.bom_split");
                    }
                }
            }
        }
    }

    for (name, text) in &all {
        let big = text.len() > 4096;
        for enc in 0..4 {
            let data = encode_text(text, enc);
            let reference = decode_bytes(&data);
            out.count(&format!("encoding.{}", ENC_NAMES[enc]));
            out.count(if big { "file.bundled_large" } else { "file.small" });
            // the one-chunk schedule itself (from_bytes as the model sees it)
            one(out, name, enc, &data, &[], &reference, !big || enc == 0 || thorough);
            // every fixed chunk size 1..64: implementation side for all,
            // through the model for the small files and a few sizes of the large ones
            for c in 1..=64usize {
                let with_model = if big { thorough && matches!(c, 1 | 3 | 64) && enc >= 2 || (c == 7 && enc == 2) } else { thorough || c <= 4 || c % 9 == 0 || c == 64 };
                one(out, name, enc, &data, &fixed_sched(c, data.len()), &reference, with_model);
            }
            // random variable schedules, with and without Interrupted
            let nrand = if big { 2 } else if thorough { 12 } else { 4 };
            for k in 0..nrand {
                let first_min = if k % 2 == 1 { 1 } else { 3 };
                let s = rand_sched(&mut r, data.len(), first_min, k % 2 == 1);
                one(out, name, enc, &data, &s, &reference, !big);
            }
            // a first chunk shorter than a BOM, then normal delivery
            for first in [1usize, 2] {
                let mut s = vec![Ev::Chunk(first)];
                if r.chance(1, 2) {
                    s.push(Ev::Interrupted);
                }
                s.push(Ev::Chunk(r.range(3, 50) as usize));
                one(out, name, enc, &data, &s, &reference, !big);
            }
            if !big || enc == 0 || thorough {
                other_paths(out, name, enc, &data, &reference, file_no);
                file_no += 1;
            }
        }
    }

    // UTF-16LE streams that end right after the low byte of a line feed, at every chunking (the
    // inputs of the repaired finding D6: the clean end of the stream became UnexpectedEof), and
    // complete streams with Interrupted exactly at the read of the byte after a 0x0A
    {
        let mut cut_texts: Vec<(String, String)> = all.iter().filter(|(_, t)| t.len() <= 1500 && t.contains('\n')).take(if thorough { 40 } else { 5 }).cloned().collect();
        cut_texts.push(("corpus".into(), "osu file format v14\n\n[Metadata]\nTitle:abc\n".into()));
        cut_texts.push(("corpus-crlf".into(), "osu file format v14\r\n[Metadata]\r\nTitle:abc\r\n".into()));
        for (name, text) in &cut_texts {
            let full = encode_text(text, 2);
            let cuts = lf_cuts_utf16le(&full);
            let full_ref = decode_bytes(&full);
            for c in sample_of(&mut r, &cuts, if thorough { 12 } else { 2 }) {
                let data = &full[..c];
                let name = format!("{name} cut after the low byte of the line feed at {}", c - 1);
                let reference = decode_bytes(data);
                out.count("file.utf16le_lf_cut");
                out.oracle_checks += 1;
                if let Ok(Err(e)) = &reference {
                    out.fail("", &describe(&name, 2, c, &[]), &format!("from_bytes returned Err({:?}) although an in-memory reader reports no failure", e.kind()));
                }
                one(out, &name, 2, data, &[], &reference, true);
                for k in 1..=64usize.min(c + 1) {
                    one(out, &name, 2, data, &fixed_sched(k, c), &reference, thorough || k <= 8 || k % 9 == 0 || k + 1 >= c);
                }
                // exactly c bytes, then: EOF reads / Interrupted at the extra-byte read
                let pieces: [Vec<Ev>; 5] = [
                    vec![Ev::Chunk(c)],
                    vec![Ev::Chunk(c), Ev::Interrupted],
                    vec![Ev::Chunk(c), Ev::Interrupted, Ev::Interrupted, Ev::Chunk(1), Ev::Chunk(1)],
                    vec![Ev::Chunk(3), Ev::Chunk((c - 3).max(1)), Ev::Chunk(1), Ev::Interrupted, Ev::Chunk(1)],
                    vec![Ev::Interrupted, Ev::Chunk((c - 1).max(3)), Ev::Interrupted, Ev::Chunk(1), Ev::Interrupted],
                ];
                for s in &pieces {
                    one(out, &name, 2, data, s, &reference, true);
                }
                for k in 0..(if thorough { 6 } else { 2 }) {
                    let s = rand_sched(&mut r, c, 3, k % 2 == 0);
                    one(out, &name, 2, data, &s, &reference, true);
                }
                // the complete stream: the source is interrupted when asked for the byte after the 0x0A
                for s in [vec![Ev::Chunk(c), Ev::Interrupted, Ev::Chunk(1), Ev::Interrupted, Ev::Chunk(full.len())], vec![Ev::Chunk(c), Ev::Interrupted, Ev::Interrupted, Ev::Chunk(7)]] {
                    one(out, name.split(' ').next().unwrap_or("text"), 2, &full, &s, &full_ref, true);
                    out.count("schedule.interrupted_at_extra_byte_read");
                }
            }
        }
    }

    // mutated / noise streams (arbitrary bytes, not texts)
    let maps = bundled_maps();
    let n = if thorough { 1500 } else { 150 };
    for i in 0..n {
        let mut data: Vec<u8> = if i % 3 == 0 {
            (0..r.below(60)).map(|_| *r.pick(&[b'\n', b'\n', 0, 0xFF, 0xFE, 0xEF, 0xBB, 0xBF, b'a', b'[', b']', 0x0A, 0xE4, 0xB8, 0x80])).collect()
        } else {
            let (_, b) = &maps[r.below(maps.len())];
            let b = if b.len() > 2000 { &b[..r.range(200, 2000) as usize] } else { &b[..] };
            let mut v = b.to_vec();
            for _ in 0..r.range(1, 6) {
                if v.is_empty() {
                    break;
                }
                let p = r.below(v.len());
                match r.below(4) {
                    0 => v[p] = r.next() as u8,
                    1 => v.insert(p, *r.pick(&[b'\n', 0xFF, 0xC3, 0xE4, 0x80, 0xF0, 0])),
                    2 => {
                        v.remove(p);
                    }
                    _ => v.truncate(p),
                }
            }
            v
        };
        if r.chance(1, 4) {
            let mut pre = r.pick(&[&[0xFFu8, 0xFE][..], &[0xFE, 0xFF], &[0xEF, 0xBB, 0xBF]]).to_vec();
            pre.append(&mut data);
            data = pre;
        }
        let reference = decode_bytes(&data);
        out.count("file.mutated_or_noise");
        let c = r.range(1, 64) as usize;
        one(out, "mutated", 0, &data, &fixed_sched(c, data.len()), &reference, true);
        let s = rand_sched(&mut r, data.len(), if i % 2 == 0 { 1 } else { 3 }, true);
        one(out, "mutated", 0, &data, &s, &reference, true);
        if i % 5 == 0 {
            other_paths(out, "mutated", 0, &data, &reference, file_no);
            file_no += 1;
        }
    }
    // repeated byte order marks: exactly one BOM is the file's, the others are text; every delivery
    // path (from_str included) must agree with from_bytes on that
    for (k, (name, text)) in texts(&mut r, 6).into_iter().enumerate() {
        if text.len() > 4000 {
            continue;
        }
        for nbom in [2usize, 3] {
            let mut data: Vec<u8> = vec![];
            for _ in 0..nbom {
                data.extend_from_slice(&[0xEF, 0xBB, 0xBF]);
            }
            data.extend_from_slice(text.as_bytes());
            let reference = decode_bytes(&data);
            out.count("file.repeated_bom");
            other_paths(out, &format!("{name}+{nbom}xBOM"), 0, &data, &reference, file_no);
            file_no += 1;
            one(out, "repeated-bom", 0, &data, &fixed_sched(3 + k, data.len()), &reference, true);
        }
    }
    // the same in UTF-16 (and UTF-8 with BOM): the file's BOM followed by one or two U+FEFF that
    // belong to the text, in the encoding the BOM announces; from_bytes and every streaming path
    // must read the same first line
    for (k, (name, text)) in texts(&mut r, 4).into_iter().enumerate() {
        if text.len() > 3000 {
            continue;
        }
        for enc in [1u8, 2, 3] {
            for extra in [1usize, 2] {
                let t: String = std::iter::repeat('\u{feff}').take(extra).chain(text.chars()).collect();
                let data = crate::gen_osu::encode_as(&t, enc);
                let reference = decode_bytes(&data);
                out.count("file.repeated_bom_utf16");
                other_paths(out, &format!("{name}+BOM(enc {enc})+{extra}xU+FEFF"), enc as usize, &data, &reference, file_no);
                file_no += 1;
                one(out, "repeated-bom-utf16", enc as usize, &data, &fixed_sched(2 + k + extra, data.len()), &reference, true);
            }
        }
    }
    let _ = std::fs::remove_dir(work_dir().join("tmp"));
}

//! C02: decode -> encode -> decode returns the same map.
//!
//! Oracle, written from the property text: M1 = decode(x), M2 =
//! decode(encode(M1)); the items the property lists are compared one by one
//! (length-aware for lists, floats by bit pattern, timelines as functions
//! sampled at every control-point time and one millisecond around it, curves
//! through `Curve::path()` / `lengths()`); what the property excludes is not
//! compared.  The observation functions are shared with C03.
use crate::out::Out;
use crate::registry::c04;
use crate::rng::Rng;
use rosu_map::section::general::GameMode;
use rosu_map::section::hit_objects::hit_samples::{HitSampleInfo, HitSampleInfoName};
use rosu_map::section::hit_objects::{HitObject, HitObjectKind, PathControlPoint, SplineType};
use rosu_map::Beatmap;

pub const RULE: &str = "chronologically ordered .osu files (structured generator levels 0-1 and the object-centred generator in all four modes, versions 3..128, multi-segment slider paths of every type incl. trailing typed points, same-time timing groups, >20 equal start times; a stream of spinners / holds of the class D33: start far smaller than the end's ulp, ends just above a power of two, half-ulp ties and their near misses; bundled maps and field-level mutations of them), decoded, encoded and decoded again with the real crate; every item the property lists is compared (general/editor/metadata/difficulty/events/colours fields, timing points, slider-velocity / kiai / scroll-speed timelines sampled at all control-point times +-1, hit objects incl. control points, velocities and computed curves, node counts, sample names and banks); correspondence: the `enc` model entry (decode+encode, rendered token stream) vs encode_to_string on the same files; non-trivial = at least one hit object and one timing point; distinct = distinct texts";

fn fb(x: f64) -> String {
    if x.is_nan() {
        "nan".into()
    } else {
        format!("{:016x}", x.to_bits())
    }
}
fn fb32(x: f32) -> String {
    if x.is_nan() {
        "nan".into()
    } else {
        format!("{:08x}", x.to_bits())
    }
}

/// named observations of the six simple sections (every field the decoder fills)
pub fn simple_fields(m: &Beatmap) -> Vec<(&'static str, String)> {
    let mut v: Vec<(&'static str, String)> = vec![];
    v.push(("format_version", m.format_version.to_string()));
    v.push(("audio_file", format!("{:?}", m.audio_file)));
    v.push(("audio_lead_in", fb(m.audio_lead_in)));
    v.push(("preview_time", m.preview_time.to_string()));
    v.push(("default_sample_bank", (m.default_sample_bank as i32).to_string()));
    v.push(("default_sample_volume", m.default_sample_volume.to_string()));
    v.push(("stack_leniency", fb32(m.stack_leniency)));
    v.push(("mode", (m.mode as i32).to_string()));
    v.push(("letterbox_in_breaks", m.letterbox_in_breaks.to_string()));
    v.push(("special_style", m.special_style.to_string()));
    v.push(("widescreen_storyboard", m.widescreen_storyboard.to_string()));
    v.push(("epilepsy_warning", m.epilepsy_warning.to_string()));
    v.push(("samples_match_playback_rate", m.samples_match_playback_rate.to_string()));
    v.push(("countdown", (m.countdown as i32).to_string()));
    v.push(("countdown_offset", m.countdown_offset.to_string()));
    v.push(("bookmarks", format!("{:?}", m.bookmarks)));
    v.push(("distance_spacing", fb(m.distance_spacing)));
    v.push(("beat_divisor", m.beat_divisor.to_string()));
    v.push(("grid_size", m.grid_size.to_string()));
    v.push(("timeline_zoom", fb(m.timeline_zoom)));
    v.push(("title", format!("{:?}", m.title)));
    v.push(("title_unicode", format!("{:?}", m.title_unicode)));
    v.push(("artist", format!("{:?}", m.artist)));
    v.push(("artist_unicode", format!("{:?}", m.artist_unicode)));
    v.push(("creator", format!("{:?}", m.creator)));
    v.push(("version", format!("{:?}", m.version)));
    v.push(("source", format!("{:?}", m.source)));
    v.push(("tags", format!("{:?}", m.tags)));
    v.push(("beatmap_id", m.beatmap_id.to_string()));
    v.push(("beatmap_set_id", m.beatmap_set_id.to_string()));
    v.push(("hp_drain_rate", fb32(m.hp_drain_rate)));
    v.push(("circle_size", fb32(m.circle_size)));
    v.push(("overall_difficulty", fb32(m.overall_difficulty)));
    v.push(("approach_rate", fb32(m.approach_rate)));
    v.push(("slider_multiplier", fb(m.slider_multiplier)));
    v.push(("slider_tick_rate", fb(m.slider_tick_rate)));
    v.push(("background_file", format!("{:?}", m.background_file)));
    v.push(("breaks", format!("{:?}", m.breaks.iter().map(|b| (fb(b.start_time), fb(b.end_time))).collect::<Vec<_>>())));
    v.push(("custom_combo_colors", format!("{:?}", m.custom_combo_colors.iter().map(|c| c.0).collect::<Vec<_>>())));
    v.push(("custom_colors", format!("{:?}", m.custom_colors.iter().map(|c| (c.name.clone(), c.color.0)).collect::<Vec<_>>())));
    v
}

/// is `field` of M1 among the things the legacy format carries? (the property's exclusions)
pub fn carried(field: &str, m1: &Beatmap) -> bool {
    match field {
        "default_sample_bank" | "default_sample_volume" => false,
        "countdown_offset" => m1.countdown_offset > 0,
        "beatmap_id" => m1.beatmap_id > 0,
        "beatmap_set_id" => m1.beatmap_set_id > 0,
        "special_style" => m1.mode == GameMode::Mania,
        _ => true,
    }
}

pub fn timing_obs(m: &Beatmap) -> Vec<String> {
    m.control_points
        .timing_points
        .iter()
        .map(|p| format!("t={} bl={} omit={} sig={}", fb(p.time), fb(p.beat_len), p.omit_first_bar_line, p.time_signature.numerator.get()))
        .collect()
}

fn sample_times(m: &Beatmap, v: &mut Vec<f64>) {
    let c = &m.control_points;
    for t in c
        .timing_points
        .iter()
        .map(|p| p.time)
        .chain(c.difficulty_points.iter().map(|p| p.time))
        .chain(c.effect_points.iter().map(|p| p.time))
        .chain(c.sample_points.iter().map(|p| p.time))
    {
        v.push(t - 1.0);
        v.push(t);
        v.push(t + 1.0);
    }
}

pub fn sv_at(m: &Beatmap, t: f64) -> f64 {
    m.control_points.difficulty_point_at(t).map_or(1.0, |p| p.slider_velocity)
}
pub fn kiai_at(m: &Beatmap, t: f64) -> bool {
    m.control_points.effect_point_at(t).map_or(false, |p| p.kiai)
}
pub fn scroll_at(m: &Beatmap, t: f64) -> f64 {
    m.control_points.effect_point_at(t).map_or(1.0, |p| p.scroll_speed)
}

fn cp_obs(p: &PathControlPoint) -> String {
    let ty = match p.path_type {
        None => "-".to_string(),
        Some(t) => format!(
            "{}{}",
            match t.kind {
                SplineType::Catmull => "C",
                SplineType::BSpline => "B",
                SplineType::Linear => "L",
                SplineType::PerfectCurve => "P",
            },
            t.degree.map_or(String::new(), |d| d.get().to_string())
        ),
    };
    format!("{}:{}:{}", fb32(p.pos.x), fb32(p.pos.y), ty)
}

fn names_banks(s: &[HitSampleInfo]) -> String {
    s.iter()
        .map(|x| {
            let n = match &x.name {
                HitSampleInfoName::Default(d) => d.to_lowercase_str().to_string(),
                HitSampleInfoName::File(f) => format!("file:{:?}", f),
            };
            format!("{}@{}", n, x.bank as i32)
        })
        .collect::<Vec<_>>()
        .join(",")
}

/// named observations of one hit object: exactly the items the property lists
pub fn object_obs(h: &mut HitObject) -> Vec<(&'static str, String)> {
    let mut v: Vec<(&'static str, String)> = vec![("start_time", fb(h.start_time))];
    match &mut h.kind {
        HitObjectKind::Circle(c) => {
            v.push(("kind", "circle".into()));
            v.push(("pos", format!("{},{}", fb32(c.pos.x), fb32(c.pos.y))));
            v.push(("new_combo", c.new_combo.to_string()));
            v.push(("combo_offset", c.combo_offset.to_string()));
        }
        HitObjectKind::Slider(s) => {
            v.push(("kind", "slider".into()));
            v.push(("pos", format!("{},{}", fb32(s.pos.x), fb32(s.pos.y))));
            v.push(("new_combo", s.new_combo.to_string()));
            v.push(("combo_offset", s.combo_offset.to_string()));
            v.push(("control_points", s.path.control_points().iter().map(cp_obs).collect::<Vec<_>>().join("|")));
            v.push(("repeat_count", s.repeat_count.to_string()));
            v.push(("velocity", fb(s.velocity)));
            let curve = s.path.curve();
            v.push(("curve_path", curve.path().iter().map(|p| format!("{},{}", fb32(p.x), fb32(p.y))).collect::<Vec<_>>().join("|")));
            v.push(("curve_lengths", curve.lengths().iter().map(|x| fb(*x)).collect::<Vec<_>>().join("|")));
            v.push(("node_count", s.node_samples.len().to_string()));
            v.push(("node_samples", s.node_samples.iter().map(|n| names_banks(n)).collect::<Vec<_>>().join("|")));
        }
        HitObjectKind::Spinner(s) => {
            v.push(("kind", "spinner".into()));
            v.push(("pos", format!("{},{}", fb32(s.pos.x), fb32(s.pos.y))));
            v.push(("new_combo", s.new_combo.to_string()));
            v.push(("duration", fb(s.duration)));
        }
        HitObjectKind::Hold(hd) => {
            v.push(("kind", "hold".into()));
            v.push(("pos", fb32(hd.pos_x)));
            v.push(("duration", fb(hd.duration)));
        }
    }
    v.push(("samples", names_banks(&h.samples)));
    v
}

// ---------------------------------------------------------------------------
// known classes: decidable predicates on the decoded map
// ---------------------------------------------------------------------------

fn typed_kinds(h: &HitObject) -> Vec<(usize, SplineType, Option<i32>)> {
    match &h.kind {
        HitObjectKind::Slider(s) => s
            .path
            .control_points()
            .iter()
            .enumerate()
            .filter_map(|(i, p)| p.path_type.map(|t| (i, t.kind, t.degree.map(|d| d.get()))))
            .collect(),
        _ => vec![],
    }
}

/// D13: a Catmull segment whose first two decoded control points coincide
fn d13_object(h: &HitObject) -> bool {
    match &h.kind {
        HitObjectKind::Slider(s) => {
            let cps = s.path.control_points();
            (0..cps.len().saturating_sub(1)).any(|i| cps[i].path_type.map_or(false, |t| t.kind == SplineType::Catmull) && cps[i].pos == cps[i + 1].pos)
        }
        _ => false,
    }
}

/// the property's exclusion: consecutive explicit Catmull segments
fn consecutive_catmull(h: &HitObject) -> bool {
    let t = typed_kinds(h);
    t.windows(2).any(|w| w[0].1 == SplineType::Catmull && w[1].1 == SplineType::Catmull)
}

/// D17: a segment boundary written implicitly (repeated point, because the segment
/// repeats the previous segment's type; not Catmull, not a perfect curve) that is not
/// read back: the typed control point is the last one, or is directly followed by
/// another typed control point, or lies on its predecessor
fn d17_object(h: &HitObject) -> bool {
    let cps = match &h.kind {
        HitObjectKind::Slider(s) => s.path.control_points(),
        _ => return false,
    };
    let n = cps.len();
    let t = typed_kinds(h);
    (1..t.len()).any(|k| {
        let (i, kind, deg) = t[k];
        let (_, pk, pd) = t[k - 1];
        kind == pk
            && deg == pd
            && kind != SplineType::Catmull
            && kind != SplineType::PerfectCurve
            && (i + 1 == n || t.get(k + 1).map_or(false, |x| x.0 == i + 1) || cps[i].pos == cps[i - 1].pos)
    })
}

/// D22: the input sets the mode after records that depend on it were read
/// (a `Mode` record of [General] after a [TimingPoints] / [HitObjects] record)
pub fn mode_after_use(text: &str) -> bool {
    let mut sec = "";
    let mut used = false;
    for raw in text.lines() {
        let l = raw.trim_end();
        match l {
            "[TimingPoints]" | "[HitObjects]" => {
                sec = "use";
                continue;
            }
            "[General]" => {
                sec = "g";
                continue;
            }
            "[Editor]" | "[Metadata]" | "[Difficulty]" | "[Events]" | "[Colours]" | "[Variables]" | "[CatchTheBeat]" | "[Mania]" => {
                sec = "x";
                continue;
            }
            _ => {}
        }
        if l.is_empty() || l.trim_start().starts_with("//") {
            continue;
        }
        if sec == "use" {
            used = true;
        } else if sec == "g" && used && l.split(':').next().map_or(false, |k| k.trim() == "Mode") {
            return true;
        }
    }
    false
}

/// D12: taiko/mania map with a scroll speed below the slider-velocity floor 0.1
fn d12_class(m: &Beatmap) -> bool {
    matches!(m.mode, GameMode::Taiko | GameMode::Mania) && m.control_points.effect_points.iter().any(|p| p.scroll_speed < 0.1)
}

/// D27: a difficulty point whose slider velocity is within f64::EPSILON of, but not equal to,
/// the velocity of the properties the encoder wrote before it
fn d27_class(m: &Beatmap) -> bool {
    let cp = &m.control_points;
    let mut prev = 1.0f64;
    for p in cp.difficulty_points.iter() {
        let base = if cp.timing_points.iter().any(|t| t.time == p.time) { 1.0 } else { prev };
        if p.slider_velocity != base && (p.slider_velocity - base).abs() < f64::EPSILON {
            return true;
        }
        prev = p.slider_velocity;
    }
    false
}

/// D28: a hit-object (end) time within f64::EPSILON of a control-point time, not equal to it
fn d28_class(m: &Beatmap) -> bool {
    let cp = &m.control_points;
    let mut times: Vec<f64> = vec![];
    times.extend(cp.timing_points.iter().map(|p| p.time));
    times.extend(cp.difficulty_points.iter().map(|p| p.time));
    times.extend(cp.effect_points.iter().map(|p| p.time));
    times.extend(cp.sample_points.iter().map(|p| p.time));
    let near = |a: f64| times.iter().any(|&t| t != a && (t - a).abs() < f64::EPSILON);
    m.hit_objects.iter().any(|h| {
        let end = match &h.kind {
            HitObjectKind::Spinner(s) => h.start_time + s.duration,
            HitObjectKind::Hold(s) => h.start_time + s.duration,
            HitObjectKind::Slider(s) => {
                let mut s = s.clone();
                h.start_time + s.duration()
            }
            HitObjectKind::Circle(_) => h.start_time,
        };
        near(h.start_time) || near(end)
    })
}

/// D34: an inherited line at -0 in front of an uninherited line at 0: a difficulty or effect point
/// stored at -0.0 while a timing point is stored at +0.0
fn d34_class(m: &Beatmap) -> bool {
    let cp = &m.control_points;
    let neg_zero = |t: f64| t == 0.0 && t.is_sign_negative();
    cp.timing_points.iter().any(|p| p.time == 0.0 && p.time.is_sign_positive())
        && (cp.difficulty_points.iter().any(|p| neg_zero(p.time)) || cp.effect_points.iter().any(|p| neg_zero(p.time)))
}

/// D31: a slider node that carries a file-name sample (the encoder writes edge sets with banks only)
fn d31_object(h: &HitObject) -> bool {
    match &h.kind {
        HitObjectKind::Slider(s) => s.node_samples.iter().any(|n| n.iter().any(|x| matches!(x.name, HitSampleInfoName::File(_)))),
        _ => false,
    }
}

/// input order: timing-point and hit-object lines in chronological order (text scan)
/// D33: a spinner / hold whose duration d does not survive being written as the end time
/// fl(start + d) and read back as fl(end - start) (clipped like the decoder clips it)
pub fn d33_object(h: &HitObject) -> bool {
    let s = h.start_time;
    match &h.kind {
        HitObjectKind::Spinner(sp) => {
            let d = sp.duration;
            let back = ((s + d) - s).max(0.0);
            back.to_bits() != d.to_bits() && back.is_finite() && d.is_finite()
        }
        HitObjectKind::Hold(hd) => {
            let d = hd.duration;
            let back = s.max(s + d) - s;
            back.to_bits() != d.to_bits() && back.is_finite() && d.is_finite()
        }
        _ => false,
    }
}

/// the recorded inputs of D33 and a generated stream of the class: start far smaller than the
/// end's ulp, ends just above a power of two, end - start a half-ulp tie (and near misses of
/// each, which must survive)
pub const D33_INPUTS: [(&str, &str); 2] = [
    ("recorded-D33-spinner", "osu file format v14\n\n[TimingPoints]\n0,500,4,1,0,100,1,0\n\n[HitObjects]\n256,192,0.00000000000011368683772161603,12,0,1024.0000000000002\n"),
    (
        "recorded-D33-hold",
        "osu file format v14\n\n[General]\nMode: 3\n\n[TimingPoints]\n0,500,4,1,0,100,1,0\n\n[HitObjects]\n100,192,0.00000000000011368683772161603,128,0,1024.0000000000002:0:0:0:0:\n",
    ),
];

pub fn d33_texts(tier: &str, seed: u64, mut f: impl FnMut(&str, &str)) {
    for (o, t) in D33_INPUTS {
        f(t, o);
    }
    let mut r = Rng::new(seed ^ 0xD33);
    let n = if tier == "thorough" { 4000 } else { 300 };
    for i in 0..n {
        // end: (2^p) * (1 + k * 2^-52), k small (odd k: the tie rounds away from the end)
        let p = r.range(0, 30) as i32;
        let k = *r.pick(&[1u64, 1, 1, 2, 3, 5, 7, 0]);
        let e = f64::from_bits((2f64.powi(p)).to_bits() + k);
        let ulp = 2f64.powi(p - 52);
        // start: half an ulp of the end (the tie), a quarter, three halves, one ulp (exact), or far below;
        // now and then negative or a small whole number plus such a fraction
        let frac = *r.pick(&[0.5, 0.5, 0.5, 0.25, 1.5, 1.0, 0.75, 2.0f64.powi(-20)]);
        let mut s = ulp * frac;
        if r.chance(1, 8) {
            s = -s;
        }
        if r.chance(1, 8) {
            s += r.range(1, 3) as f64;
        }
        if !(s < e) {
            continue;
        }
        let mania = r.chance(1, 2);
        let line = if mania {
            format!("{},192,{},128,0,{}:0:0:0:0:", r.range(0, 511), s, e)
        } else {
            format!("256,192,{},12,0,{}", s, e)
        };
        let text = format!(
            "osu file format v14\n\n[General]\nMode: {}\n\n[TimingPoints]\n{},500,4,1,0,100,1,0\n\n[HitObjects]\n{}\n",
            if mania { 3 } else { 0 },
            if s < 0.0 { -10 } else { 0 },
            line
        );
        f(&text, &format!("d33-stream #{}", i));
    }
}

pub fn chronological(text: &str) -> bool {
    let mut sec = "";
    let mut last_tp = f64::NEG_INFINITY;
    let mut last_ho = f64::NEG_INFINITY;
    for raw in text.lines() {
        let l = raw.trim_end();
        match l {
            "[TimingPoints]" => {
                sec = "tp";
                continue;
            }
            "[HitObjects]" => {
                sec = "ho";
                continue;
            }
            "[General]" | "[Editor]" | "[Metadata]" | "[Difficulty]" | "[Events]" | "[Colours]" | "[Variables]" | "[CatchTheBeat]" | "[Mania]" => {
                sec = "x";
                continue;
            }
            _ => {}
        }
        if l.is_empty() || l.trim_start().starts_with("//") {
            continue;
        }
        let idx = match sec {
            "tp" => 0,
            "ho" => 2,
            _ => continue,
        };
        let body = l.split("//").next().unwrap_or("");
        let Some(f) = body.split(',').nth(idx) else { continue };
        let Ok(t) = f.trim().parse::<f64>() else { continue };
        if t.is_nan() {
            return false;
        }
        let last = if sec == "tp" { &mut last_tp } else { &mut last_ho };
        if t < *last {
            return false;
        }
        *last = t;
    }
    true
}

/// the C02 comparison; `m1` is the decoded map, `text` its source
pub fn oracle(text: &str, origin: &str, out: &mut Out) {
    let Some(mut m1) = c04::decode(text) else { return };
    out.oracle_checks += 1;
    out.count(&format!("oracle.mode{}", m1.mode as i32));
    let desc = format!("{} text={:?}", origin, text);
    let enc = match c04::encode(&mut m1) {
        Ok(s) => s,
        Err(e) => {
            out.fail("", &desc, &format!("encoding failed: {}", e));
            return;
        }
    };
    let Some(mut m2) = c04::decode(&enc) else {
        out.fail("", &desc, "re-decoding the encoded text failed");
        return;
    };
    // simple sections
    let f1 = simple_fields(&m1);
    let f2 = simple_fields(&m2);
    for ((n, a), (_, b)) in f1.iter().zip(f2.iter()) {
        out.oracle_checks += 1;
        if a != b && carried(n, &m1) {
            out.fail(c04::slashes_class(n, &m1), &desc, &format!("field {} is {} after decoding, {} after decode->encode->decode", n, a, b));
        }
    }
    // timing points
    let t1 = timing_obs(&m1);
    let t2 = timing_obs(&m2);
    out.oracle_checks += 1;
    if t1 != t2 {
        out.fail(c04::zero_time_class(&m1), &desc, &format!("timing points differ: {:?} vs {:?}", t1, t2));
    }
    // timelines
    let mut ts = vec![];
    sample_times(&m1, &mut ts);
    sample_times(&m2, &mut ts);
    let d12 = d12_class(&m1);
    let d19 = mode_after_use(text);
    let (mut sv_bad, mut kiai_bad, mut scroll_bad) = (None, None, None);
    for &t in &ts {
        out.oracle_checks += 1;
        if fb(sv_at(&m1, t)) != fb(sv_at(&m2, t)) && sv_bad.is_none() {
            sv_bad = Some(t);
        }
        if kiai_at(&m1, t) != kiai_at(&m2, t) && kiai_bad.is_none() {
            kiai_bad = Some(t);
        }
        if fb(scroll_at(&m1, t)) != fb(scroll_at(&m2, t)) && scroll_bad.is_none() {
            scroll_bad = Some(t);
        }
    }
    let d28 = d28_class(&m1);
    let d34 = d34_class(&m1);
    let near_cls = if d34 { "D34" } else if d28 { "D28" } else if d27_class(&m1) { "D27" } else { "" };
    if let Some(t) = sv_bad {
        out.fail(near_cls, &desc, &format!("slider-velocity timeline differs at t={}: {} vs {}", t, sv_at(&m1, t), sv_at(&m2, t)));
    }
    if let Some(t) = kiai_bad {
        out.fail(if d34 { "D34" } else if d28 { "D28" } else { "" }, &desc, &format!("kiai timeline differs at t={}: {} vs {}", t, kiai_at(&m1, t), kiai_at(&m2, t)));
    }
    if let Some(t) = scroll_bad {
        out.fail(if d19 { "D22" } else if d12 { "D12" } else if d34 { "D34" } else if d28 { "D28" } else { "" }, &desc, &format!("scroll-speed timeline differs at t={}: {} vs {}", t, scroll_at(&m1, t), scroll_at(&m2, t)));
    }
    // hit objects.  An object whose encoded line is rejected on re-read is lost (C04's
    // business; known for the D2 class): it is reported and left out of the expectation.
    let rejected = c04::rejected_object_lines(&enc, m1.format_version);
    let mut exp: Vec<HitObject> = vec![];
    let mut n_lost = 0;
    let lost_cls = m1.hit_objects.iter().map(c04::lost_class).find(|c| !c.is_empty()).unwrap_or("");
    for (i, h) in m1.hit_objects.iter().enumerate() {
        out.oracle_checks += 1;
        if rejected.get(i).copied().unwrap_or(false) {
            n_lost += 1;
            out.fail(c04::lost_class(h), &desc, &format!("object #{} (start {}) is lost: its encoded line is rejected on re-read", i, h.start_time));
        } else {
            exp.push(h.clone());
        }
    }
    if exp.len() != m2.hit_objects.len() {
        out.fail("", &desc, &format!("hit-object count: {} expected (of {} decoded), {} after the round trip", exp.len(), m1.hit_objects.len(), m2.hit_objects.len()));
        return;
    }
    for (i, (a, b)) in exp.iter_mut().zip(m2.hit_objects.iter_mut()).enumerate() {
        let d13 = d13_object(a);
        let d17 = d17_object(a);
        let catmull = consecutive_catmull(a);
        let oa = object_obs(a);
        let ob = object_obs(b);
        out.oracle_checks += 1;
        if oa.len() != ob.len() {
            out.fail("", &desc, &format!("object #{}: kind {:?} became {:?}", i, oa.get(1), ob.get(1)));
            continue;
        }
        for ((n, x), (_, y)) in oa.iter().zip(ob.iter()) {
            if x != y {
                let path_item = matches!(*n, "control_points" | "curve_path" | "curve_lengths");
                if path_item && catmull {
                    // excluded by the property: consecutive explicit Catmull segments
                    out.count("oracle.excluded_consecutive_catmull");
                    continue;
                }
                // a lost object earlier in the list can move a forced new-combo flag
                let cls = if *n == "samples" && c04::d30_object(a) {
                    "D30"
                } else if *n == "node_samples" && d31_object(a) {
                    "D31"
                } else if *n == "duration" && d33_object(a) {
                    "D33"
                } else if d19 && matches!(*n, "curve_path" | "curve_lengths" | "velocity") {
                    "D22"
                } else if d34 && *n == "velocity" && a.start_time == 0.0 && a.start_time.is_sign_negative() {
                    "D34"
                } else if path_item && d13 {
                    "D13"
                } else if path_item && d17 {
                    "D17"
                } else if n_lost > 0 && *n == "new_combo" {
                    lost_cls
                } else {
                    ""
                };
                out.fail(cls, &desc, &format!("object #{} (start {}): {} is {} after decoding, {} after the round trip", i, a.start_time, n, x, y));
            }
        }
    }
}

/// field-level mutation of a text: one field of one record replaced by a value of a class
pub fn mutate_field(r: &mut Rng, text: &str) -> String {
    let mut lines: Vec<String> = text.lines().map(|s| s.to_string()).collect();
    if lines.is_empty() {
        return text.to_string();
    }
    for _ in 0..r.range(1, 3) {
        let i = r.below(lines.len());
        let l = lines[i].clone();
        if l.is_empty() || l.starts_with('[') || l.starts_with("osu file") {
            continue;
        }
        let sep = if l.contains(',') { ',' } else { ':' };
        let mut parts: Vec<String> = l.split(sep).map(|s| s.to_string()).collect();
        if parts.len() < 2 {
            continue;
        }
        // keep the time fields in place so that the order of the file stays chronological
        let k = 1 + r.below(parts.len() - 1);
        if sep == ',' && k == 2 && parts.len() >= 5 {
            continue;
        }
        parts[k] = r
            .pick(&[
                "0", "1", "-1", "2", "3", "4", "8", "12", "100", "0.5", "1.5", "-100", "-50", "-10000", "-2.5", "2147483647", "-2147483647", "0:0:0:0:", "1:2:3:40:hit.wav", "2:0", "B|100:100", "a:b", "x//y", "256", "192", "0.1", "9", "333.333333333333",
            ])
            .to_string();
        lines[i] = parts.join(&sep.to_string());
    }
    lines.join("\n") + "\n"
}

/// small files whose control-point and object times mix -0 and 0 (negative zero never after
/// positive zero), with and without later ordinary times, in all four modes
fn signed_zero_texts() -> Vec<String> {
    let mut v = vec![];
    let tp_sets: [&[&str]; 8] = [
        &["-0,500,4,1,0,100,1,0", "0,-50,4,1,0,100,0,0"],
        &["-0,-50,4,1,0,100,0,0", "0,500,4,1,0,100,1,0"],
        &["-0,500,4,1,0,100,1,0", "-0,-50,4,1,0,100,0,1", "0,-25,4,2,0,40,0,0"],
        &["-0,500,4,1,0,100,1,0", "0,400,4,2,0,60,1,1"],
        &["0,500,4,1,0,100,1,0", "0,-50,4,1,0,100,0,0"],
        &["-0,500,4,1,0,100,1,0", "0,-50,4,1,0,100,0,0", "1000,-200,4,1,0,100,0,1"],
        &["-0.0,500,4,1,0,100,1,0", "0.0,-80,4,3,0,70,0,1", "0,300,4,1,0,100,1,0"],
        &["0,500,4,1,0,100,1,0"],
    ];
    let ho_sets: [&[&str]; 5] = [
        &[],
        &["256,192,-0,1,0,0:0:0:0:"],
        &["256,192,-0,1,2,1:2:0:50:", "100,100,0,1,0,0:0:0:0:"],
        &["256,192,-0,5,0,0:0:0:0:", "300,192,0,12,0,500,0:0:0:0:", "10,10,1000,1,0,0:0:0:0:"],
        &["100,100,-0,2,0,L|200:100,1,100", "100,100,0,1,0,0:0:0:0:"],
    ];
    for mode in 0..4 {
        for tps in tp_sets {
            for hos in ho_sets {
                if mode != 0 && hos.iter().any(|l| l.contains('|')) && mode == 3 {
                    continue;
                }
                let mut t = format!("osu file format v14\n\n[General]\nMode: {mode}\n\n[TimingPoints]\n");
                for l in tps {
                    t.push_str(l);
                    t.push('\n');
                }
                t.push_str("\n[HitObjects]\n");
                for l in hos {
                    t.push_str(l);
                    t.push('\n');
                }
                v.push(t);
            }
        }
    }
    v
}

pub fn generate(tier: &str, seed: u64, out: &mut Out) {
    let mut skipped = 0u64;
    for (o, t) in c04::RECORDED_INPUTS {
        c04::enc_case(t, o, out);
        oracle(t, o, out);
    }
    // signed-zero times: timing / inherited lines and objects at -0 and 0, the negative zero first
    // (chronological numerically and in the total order the control points are kept in)
    for t in signed_zero_texts() {
        c04::enc_case(&t, "signed-zero times", out);
        oracle(&t, "signed-zero times", out);
        out.count("stream.signed_zero");
    }
    // D33 class: correspondence and oracle
    d33_texts(tier, seed, |t, o| {
        out.count("d33_stream");
        c04::enc_case(t, o, out);
        oracle(t, o, out);
    });
    // correspondence: the same files through the `enc` model entry
    c04::texts(tier, seed ^ 0xC02, false, true, |t, o| {
        if chronological(t) {
            c04::enc_case(t, o, out)
        }
    });
    if c04::SLIDERS_IN_MODEL {
        c04::texts(tier, seed ^ 0xC02, true, true, |t, o| {
            if chronological(t) {
                c04::enc_case(t, o, out)
            }
        });
    }
    // oracle
    for (k, sliders) in [(0u64, false), (1, true), (2, true), (3, true)] {
        c04::texts(tier, seed ^ 0xC02 ^ (k << 20), sliders, true, |t, o| {
            if chronological(t) {
                oracle(t, o, out)
            } else {
                skipped += 1;
            }
        });
    }
    let mut r = Rng::new(seed ^ 0xF1E1D);
    c04::bundled_texts(tier, seed, |t, o| {
        if !o.starts_with("bundled") {
            return;
        }
        if chronological(t) {
            oracle(t, o, out);
        } else {
            skipped += 1;
        }
        let reps = if tier == "thorough" { 12 } else { 2 };
        for _ in 0..reps {
            let mt = mutate_field(&mut r, t);
            if chronological(&mt) {
                oracle(&mt, &format!("field-mutated {}", o), out);
            } else {
                skipped += 1;
            }
        }
    });
    out.count_n("oracle.skipped_not_chronological", skipped);
}

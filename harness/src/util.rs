//! Helpers shared by the per-property harness modules.
use std::panic::{catch_unwind, AssertUnwindSafe};

/// Run `f`, turning a panic into `Err(message)`.
pub fn guarded<T>(f: impl FnOnce() -> T) -> Result<T, String> {
    let prev = std::panic::take_hook();
    std::panic::set_hook(Box::new(|_| {}));
    let r = catch_unwind(AssertUnwindSafe(f));
    std::panic::set_hook(prev);
    r.map_err(|e| {
        if let Some(s) = e.downcast_ref::<&str>() {
            (*s).to_string()
        } else if let Some(s) = e.downcast_ref::<String>() {
            s.clone()
        } else {
            "panic".to_string()
        }
    })
}

/// All bundled .osu files of the repository (path, bytes), sorted by name.
pub fn bundled_maps() -> Vec<(String, Vec<u8>)> {
    let dir = std::env::var("VERIF_REPO").unwrap_or_else(|_| "/repo".to_string()) + "/resources";
    let mut v = vec![];
    if let Ok(rd) = std::fs::read_dir(&dir) {
        for e in rd.flatten() {
            let p = e.path();
            if p.extension().map_or(false, |x| x == "osu") {
                if let Ok(b) = std::fs::read(&p) {
                    v.push((p.file_name().unwrap().to_string_lossy().to_string(), b));
                }
            }
        }
    }
    v.sort();
    v
}

/// Records the case about to be run (overwriting the previous record), so that when the
/// implementation takes the whole process down (abort on allocation failure, stack overflow,
/// segmentation fault: nothing `guarded` can catch) the check can still name the input.
pub fn journal(desc: &str) {
    if let Ok(p) = std::env::var("RMH_JOURNAL") {
        let _ = std::fs::write(p, desc);
    }
}

//! C06: a rejected line has no effect on the result.
//! Oracle on the implementation: a probing decoder (wrapping Beatmap's own
//! parse functions) records which routed lines were rejected; for each such
//! line the file is decoded again without it and the two results must be equal.
use crate::decoders;
use crate::gen_osu::{self, Opts};
use crate::out::Out;
use crate::rng::Rng;
use rosu_map::{Beatmap, BeatmapState, DecodeBeatmap, DecodeState, ParseBeatmapError};

pub const RULE: &str = "files from the structured generator (levels 1-2: hostile numerics, malformed fields) plus targeted corruptions of valid records in every section (field deleted, swapped, overflowed, garbage appended, corruption inside the n-th segment of a multi-segment slider path), each followed by records that would observe residue; key/value sections with the same few keys repeated in any order with valid and invalid values; lines resembling a section header (trailing comment or junk, stray brackets, other case) inside every section; every line that a section parser rejects is removed and the file decoded again; non-trivial = the file has at least one rejected routed line; distinct = distinct texts";

pub struct Probe;
pub struct ProbeState {
    inner: BeatmapState,
    log: Vec<(String, bool)>,
}
pub struct ProbeOut {
    pub log: Vec<(String, bool)>,
}
impl DecodeState for ProbeState {
    fn create(version: i32) -> Self {
        ProbeState { inner: BeatmapState::create(version), log: vec![] }
    }
}
impl From<ProbeState> for ProbeOut {
    fn from(s: ProbeState) -> Self {
        ProbeOut { log: s.log }
    }
}
macro_rules! probe_fn {
    ($name:ident) => {
        fn $name(state: &mut Self::State, line: &str) -> Result<(), Self::Error> {
            let r = Beatmap::$name(&mut state.inner, line);
            state.log.push((line.to_string(), r.is_ok()));
            r
        }
    };
}
impl DecodeBeatmap for ProbeOut {
    type Error = ParseBeatmapError;
    type State = ProbeState;
    probe_fn!(parse_general);
    probe_fn!(parse_editor);
    probe_fn!(parse_metadata);
    probe_fn!(parse_difficulty);
    probe_fn!(parse_events);
    probe_fn!(parse_timing_points);
    probe_fn!(parse_colors);
    probe_fn!(parse_hit_objects);
    probe_fn!(parse_variables);
    probe_fn!(parse_catch_the_beat);
    probe_fn!(parse_mania);
}

/// indices (into `lines`) of the routed lines that a parser rejected
pub fn rejected_indices(lines: &[String]) -> Vec<usize> {
    let text = lines.join("\n");
    let Ok(p) = rosu_map::from_bytes::<ProbeOut>(text.as_bytes()) else { return vec![] };
    let mut idx = vec![];
    let mut pos = 0usize;
    for (l, ok) in p.log {
        // routed lines appear in file order; find the next file line with that text
        while pos < lines.len() && lines[pos].trim_end() != l {
            pos += 1;
        }
        if pos >= lines.len() {
            break;
        }
        if !ok {
            idx.push(pos);
        }
        pos += 1;
    }
    idx
}

pub fn check_file(lines: &[String], origin: &str, out: &mut Out) -> usize {
    let rej = rejected_indices(lines);
    let full = lines.join("\n");
    let base = decoders::decode_dump(8, full.as_bytes());
    for &i in rej.iter().take(12) {
        out.oracle_checks += 1;
        let mut without: Vec<String> = lines.to_vec();
        without.remove(i);
        let other = decoders::decode_dump(8, without.join("\n").as_bytes());
        if base != other {
            out.fail("", &format!("{} file={:?} rejected_line_index={} line={:?}", origin, full, i, lines[i]),
                     "decoding the file without the rejected line gives a different Beatmap");
        }
        // the specialised decoders must not see the line either
        for id in [6usize, 7usize] {
            let a = decoders::decode_dump(id, full.as_bytes());
            let b = decoders::decode_dump(id, without.join("\n").as_bytes());
            out.oracle_checks += 1;
            if a != b {
                out.fail("", &format!("{} file={:?} rejected_line_index={} line={:?}", origin, full, i, lines[i]),
                         &format!("{} decoder: result changes when the rejected line is removed", decoders::DECODERS[id]));
            }
        }
    }
    out.count(&format!("rejected_lines.{}", rej.len().min(9)));
    rej.len()
}

/// corruptions of one valid record
fn corrupt(r: &mut Rng, line: &str) -> String {
    let fields: Vec<&str> = line.split(',').collect();
    match r.below(7) {
        0 if fields.len() > 1 => {
            let mut f = fields.clone();
            let k = r.below(f.len());
            f.remove(k);
            f.join(",")
        }
        1 if fields.len() > 1 => {
            let mut f = fields.clone();
            let a = r.below(f.len());
            let b = r.below(f.len());
            f.swap(a, b);
            f.join(",")
        }
        2 => {
            let mut f: Vec<String> = fields.iter().map(|s| s.to_string()).collect();
            let k = r.below(f.len());
            f[k] = r.pick(&["99999999999", "1e400", "nan", "-2147483649", "abc", "", "9001", "1.5.2"]).to_string();
            f.join(",")
        }
        3 => format!("{}{}", line, r.pick(&[",x", ",|", ":", ",,,,", "|P|x:0", ",1,2,3,4,5,6,7,8,9"])),
        4 => {
            // deep inside a multi-segment path
            line.replacen("|", "|B|1:1|L|2:2|P|x:0|", 1)
        }
        5 if fields.len() >= 9 => {
            // corrupt one entry inside a '|'-separated late field (edge sounds / edge sets)
            let mut f: Vec<String> = fields.iter().map(|s| s.to_string()).collect();
            let k = 8 + r.below(f.len() - 8);
            let mut parts: Vec<String> = f[k].split('|').map(|s| s.to_string()).collect();
            let j = r.below(parts.len());
            parts[j] = r.pick(&["x:0", "3", "1:y", "", "9:9:9", "99999999999:1"]).to_string();
            f[k] = parts.join("|");
            f.join(",")
        }
        5 => {
            let k = r.below(line.len().max(1));
            let mut s = line.to_string();
            if s.is_char_boundary(k) {
                s.insert(k, *r.pick(&['x', ',', ':', '|', '-']));
            }
            s
        }
        _ => {
            let k = r.below(line.len().max(1));
            if line.is_char_boundary(k) {
                line[..k].to_string()
            } else {
                line.to_string()
            }
        }
    }
}

pub fn generate(tier: &str, seed: u64, out: &mut Out) {
    let mut r = Rng::new(seed ^ 0xC06);
    let n = if tier == "thorough" { 4000 } else { 350 };
    // corpus: the repaired D3 shape first (rejected multi-segment slider followed by a slider)
    let corpus: Vec<Vec<String>> = vec![
        vec!["[HitObjects]", "1,1,0,2,0,B|100:100|L|200:0|P|x:0,1,300", "1,1,100,2,0,L|50:50,1,50"],
        vec!["[HitObjects]", "0,0,0,8,0", "256,192,100,1,0", "0,0,200,12,0,x", "10,10,300,1,0"],
        vec!["[TimingPoints]", "10,-50,4,1,0,60,0,1", "20,NaN,4,1,0,100,1,0", "10,500,4,1,0,100,1,0"],
        vec!["[Difficulty]", "ApproachRate:abc", "OverallDifficulty:3"],
        vec!["[Events]", "4,0,0", "0,0,\"bg.png\""],
        vec!["[Colours]", "Combo1: 1,2", "Combo1: 1,2,3"],
    ]
    .into_iter()
    .map(|v| v.into_iter().map(String::from).collect())
    .collect();
    // targeted: a slider rejected in each of its LATE fields (edge sounds, edge sets, extras),
    // followed by short-form and long-form sliders and circles that would observe residue
    let observers = [
        "200,200,900,2,0,L|250:250,1,60",
        "200,200,900,2,4,B|250:250|300:200,2,90",
        "200,200,900,2,2,L|250:250,2,60,2|0|2,0:0|0:0|0:0,0:0:0:0:",
        "200,200,900,1,0,0:0:0:0:",
        "200,200,900,6,8,P|250:250|300:200,1,80,8|8",
    ];
    let bad_sliders = [
        "100,100,500,2,0,B|150:150|200:100,2,120,2|4|8,2:3|x:0|1:1,3:2:0:0:",
        "100,100,500,2,0,B|150:150|200:100,2,120,2|4|8,2:3|3|1:1,3:2:0:0:",
        "100,100,500,2,0,B|150:150|200:100,3,120,2|4|8|2,3:3|2:2|1:x|1:1,0:0:0:0:",
        "100,100,500,2,0,B|150:150|200:100,2,120,2|4|8,2:3|2:1|1:1,3:2:x:0:",
        "100,100,500,2,0,B|150:150|200:100,2,120,2|4|8,3:1|3:1|3:1,1:1:0:abc:",
        "100,100,500,2,0,B|150:150|200:100,2,120,2|4|8,3:1|3:1|99999999999:1",
        "100,100,500,2,0,B|150:150|200:100|P|x:0,2,120",
        "100,100,500,2,0,B|150:150|200:100,9001,120,2|4,1:2|2:1",
    ];
    for b in bad_sliders {
        for o in observers {
            for tail in ["", "300,300,1500,2,0,L|310:310,1,20"] {
                let mut lines: Vec<String> = vec!["[General]".into(), "Mode:0".into(), "[TimingPoints]".into(), "0,500,4,2,1,60,1,0".into(), "[HitObjects]".into()];
                lines.push("50,50,100,1,0,0:0:0:0:".into());
                lines.push(b.into());
                lines.push(o.into());
                if !tail.is_empty() {
                    lines.push(tail.into());
                }
                let nr = check_file(&lines, "late-field-rejection", out);
                record_case(&lines, nr, out);
            }
        }
    }
    // key/value sections: the same few keys repeated in any order with valid and invalid values
    // (an error on a later line must not undo or redo what an earlier accepted line established)
    let kv_sections: [(&str, &[&str]); 4] = [
        ("[Difficulty]", &["ApproachRate", "OverallDifficulty", "HPDrainRate", "CircleSize", "SliderMultiplier", "SliderTickRate"]),
        ("[General]", &["Mode", "SampleSet", "SampleVolume", "StackLeniency", "AudioLeadIn", "PreviewTime", "Countdown", "CountdownOffset", "LetterboxInBreaks", "SpecialStyle"]),
        ("[Editor]", &["Bookmarks", "DistanceSpacing", "BeatDivisor", "GridSize", "TimelineZoom"]),
        ("[Metadata]", &["Title", "BeatmapID", "BeatmapSetID", "Tags"]),
    ];
    let good = ["0", "1", "2", "3", "5", "9.5", "2.25", "Soft", "Drum", "7,8,9"];
    let bad = ["abc", "", "9,5", "1e999", "99999999999", "nan", "-", "1.5.2", "0x10"];
    for i in 0..(if tier == "thorough" { 3000 } else { 400 }) {
        let (sec, keys) = kv_sections[i % 4];
        let nk = 2 + r.below(2);
        let sub: Vec<&str> = (0..nk).map(|_| *r.pick(keys)).collect();
        let mut lines: Vec<String> = vec![sec.to_string()];
        for _ in 0..r.range(3, 7) {
            let k = *r.pick(&sub);
            let v = if r.chance(3, 5) { *r.pick(&good) } else { *r.pick(&bad) };
            lines.push(format!("{}:{}", k, v));
        }
        lines.extend(["[TimingPoints]", "0,400,4,2,1,60,1,0", "[HitObjects]", "10,20,100,2,0,L|110:20,1,100"].iter().map(|s| s.to_string()));
        let nr = check_file(&lines, "kv-duplicates", out);
        record_case(&lines, nr, out);
    }
    // lines that resemble a section header (trailing comment or junk, stray brackets, other case)
    // in the middle of every section, followed by records of the section that was current
    let secs = ["General", "Editor", "Metadata", "Difficulty", "Events", "TimingPoints", "Colours", "HitObjects"];
    let bodies: [(&str, [&str; 2]); 6] = [
        ("[HitObjects]", ["256,192,100,1,0", "10,20,300,2,0,L|110:20,1,100"]),
        ("[TimingPoints]", ["0,400,4,2,1,60,1,0", "500,-50,4,1,0,70,0,1"]),
        ("[Events]", ["2,500,900", "0,0,\"bg.png\",0,0"]),
        ("[Colours]", ["Combo1 : 1,2,3", "Combo2 : 4,5,6"]),
        ("[Difficulty]", ["ApproachRate:9", "SliderMultiplier:1.7"]),
        ("[General]", ["Mode:1", "SampleVolume:55"]),
    ];
    for (bi, (hdr, body)) in bodies.iter().enumerate() {
        for (si, sec) in secs.iter().enumerate() {
            let looks = [
                format!("[{}] // 2,500,900", sec), format!("[{}]//x", sec), format!("[{}] x", sec), format!("[{}", sec),
                format!("{}]", sec), format!("[{}]]", sec), format!("[[{}]", sec), format!("x[{}]", sec),
                format!("[{}]", sec.to_lowercase()), format!("[ {} ]", sec), format!("[{}],1,2", sec),
            ];
            for (li, look) in looks.iter().enumerate() {
                if tier != "thorough" && (bi + si + li) % 3 != 0 {
                    continue;
                }
                let lines: Vec<String> = vec![hdr.to_string(), body[0].to_string(), look.clone(), body[1].to_string(), body[0].to_string(),
                    "[HitObjects]".to_string(), "1,2,900,1,0".to_string()];
                let nr = check_file(&lines, "header-lookalike", out);
                record_case(&lines, nr, out);
            }
        }
    }
    for c in &corpus {
        let nr = check_file(c, "corpus", out);
        record_case(c, nr, out);
    }
    for i in 0..n {
        let o = Opts { level: 1 + (i % 2) as u8, chronological: i % 3 != 0, max_objects: 8, ..Opts::default() };
        let mut lines = gen_osu::file_lines(&mut r, &o);
        // targeted corruptions of valid records, in place, keeping the valid original after them
        let k = r.range(1, 4);
        for _ in 0..k {
            let idx = r.below(lines.len());
            if lines[idx].is_empty() || lines[idx].starts_with('[') || lines[idx].starts_with("//") || lines[idx].starts_with("osu file") {
                continue;
            }
            let bad = corrupt(&mut r, &lines[idx].clone());
            lines.insert(idx, bad);
        }
        let nr = check_file(&lines, &format!("grammar-level{}+corruptions", o.level), out);
        record_case(&lines, nr, out);
    }
}

fn record_case(lines: &[String], nrejected: usize, out: &mut Out) {
    // correspondence: the Beatmap decoder model on the same file (once the model entry covers it)
    let text = lines.join("\n");
    for &id in decoders::MODEL_DECODERS {
        if id >= 6 {
            // non-trivial (RULE): the file has at least one rejected routed line
            decoders::model_case_with(id, &text, out, "c06", nrejected > 0);
        }
    }
}

//! Case / result line protocol shared with ocaml/driver.ml: space separated
//! hexadecimal integers with optional leading '-'.
use std::fmt::Write;

#[derive(Default, Clone)]
pub struct Line(pub String);

impl Line {
    pub fn new() -> Self {
        Line(String::new())
    }
    pub fn entry(name: &str) -> Self {
        Line(name.to_string())
    }
    fn sep(&mut self) {
        if !self.0.is_empty() {
            self.0.push(' ');
        }
    }
    pub fn i(&mut self, v: i128) -> &mut Self {
        self.sep();
        if v < 0 {
            write!(self.0, "-{:x}", -v).unwrap();
        } else {
            write!(self.0, "{:x}", v).unwrap();
        }
        self
    }
    pub fn u(&mut self, v: u64) -> &mut Self {
        self.i(v as i128)
    }
    pub fn b(&mut self, v: bool) -> &mut Self {
        self.i(v as i128)
    }
    /// f64 as bit pattern, every NaN canonicalised
    pub fn f64(&mut self, v: f64) -> &mut Self {
        let bits = if v.is_nan() { 0x7ff8_0000_0000_0000u64 } else { v.to_bits() };
        self.u(bits)
    }
    pub fn f32(&mut self, v: f32) -> &mut Self {
        let bits = if v.is_nan() { 0x7fc0_0000u32 } else { v.to_bits() };
        self.u(bits as u64)
    }
    /// string as length-prefixed code points
    pub fn s(&mut self, v: &str) -> &mut Self {
        self.i(v.chars().count() as i128);
        for c in v.chars() {
            self.i(c as u32 as i128);
        }
        self
    }
    /// raw code points without length prefix
    pub fn chars(&mut self, v: &str) -> &mut Self {
        for c in v.chars() {
            self.i(c as u32 as i128);
        }
        self
    }
}

/// JSON string escaping for stats output (no external crates)
pub fn json_str(s: &str) -> String {
    let mut o = String::from("\"");
    for c in s.chars() {
        match c {
            '"' => o.push_str("\\\""),
            '\\' => o.push_str("\\\\"),
            '\n' => o.push_str("\\n"),
            '\r' => o.push_str("\\r"),
            '\t' => o.push_str("\\t"),
            c if (c as u32) < 0x20 => write!(o, "\\u{:04x}", c as u32).unwrap(),
            c => o.push(c),
        }
    }
    o.push('"');
    o
}

//! C11: key/value, event and colour records — structured generator,
//! implementation run through the public `parse_*` functions, canonical dump
//! (same encoding as coq/Model/Sections.v `dump_*`), and an independent
//! table-driven reference written from the property text.
use crate::out::Out;
use crate::proto::Line;
use crate::rng::Rng;
use crate::util::guarded;
use rosu_map::section::colors::{Colors, ColorsState};
use rosu_map::section::difficulty::{Difficulty, DifficultyState};
use rosu_map::section::editor::{Editor, EditorState};
use rosu_map::section::events::{Events, EventsState};
use rosu_map::section::general::{General, GeneralState};
use rosu_map::section::metadata::{Metadata, MetadataState};
use rosu_map::{DecodeBeatmap, DecodeState};

#[derive(Clone, Copy, PartialEq, Eq, Debug)]
pub enum Sec {
    General,
    Editor,
    Metadata,
    Difficulty,
    Events,
    Colors,
}

impl Sec {
    fn id(self) -> i128 {
        self as i128
    }
    fn name(self) -> &'static str {
        match self {
            Sec::General => "General",
            Sec::Editor => "Editor",
            Sec::Metadata => "Metadata",
            Sec::Difficulty => "Difficulty",
            Sec::Events => "Events",
            Sec::Colors => "Colours",
        }
    }
}

/// one observable field of a section state, rendered in the dump encoding
type Fields = Vec<(&'static str, Option<Line>)>;

fn fl(f: impl FnOnce(&mut Line)) -> Option<Line> {
    let mut l = Line::new();
    f(&mut l);
    Some(l)
}

// ---------------------------------------------------------------------------
// implementation side
// ---------------------------------------------------------------------------

fn dump_general(s: &GeneralState) -> Fields {
    vec![
        ("audio_file", fl(|l| { l.s(&s.audio_file); })),
        ("audio_lead_in", fl(|l| { l.f64(s.audio_lead_in); })),
        ("preview_time", fl(|l| { l.i(s.preview_time as i128); })),
        ("default_sample_bank", fl(|l| { l.i(s.default_sample_bank as i128); })),
        ("default_sample_volume", fl(|l| { l.i(s.default_sample_volume as i128); })),
        ("stack_leniency", fl(|l| { l.f32(s.stack_leniency); })),
        ("mode", fl(|l| { l.i(s.mode as i128); })),
        ("letterbox_in_breaks", fl(|l| { l.b(s.letterbox_in_breaks); })),
        ("special_style", fl(|l| { l.b(s.special_style); })),
        ("widescreen_storyboard", fl(|l| { l.b(s.widescreen_storyboard); })),
        ("epilepsy_warning", fl(|l| { l.b(s.epilepsy_warning); })),
        ("samples_match_playback_rate", fl(|l| { l.b(s.samples_match_playback_rate); })),
        ("countdown", fl(|l| { l.i(s.countdown as i128); })),
        ("countdown_offset", fl(|l| { l.i(s.countdown_offset as i128); })),
    ]
}

fn dump_editor(s: &EditorState) -> Fields {
    vec![
        ("bookmarks", fl(|l| {
            l.i(s.bookmarks.len() as i128);
            for b in &s.bookmarks {
                l.i(*b as i128);
            }
        })),
        ("distance_spacing", fl(|l| { l.f64(s.distance_spacing); })),
        ("beat_divisor", fl(|l| { l.i(s.beat_divisor as i128); })),
        ("grid_size", fl(|l| { l.i(s.grid_size as i128); })),
        ("timeline_zoom", fl(|l| { l.f64(s.timeline_zoom); })),
    ]
}

fn dump_metadata(s: &MetadataState) -> Fields {
    vec![
        ("title", fl(|l| { l.s(&s.title); })),
        ("title_unicode", fl(|l| { l.s(&s.title_unicode); })),
        ("artist", fl(|l| { l.s(&s.artist); })),
        ("artist_unicode", fl(|l| { l.s(&s.artist_unicode); })),
        ("creator", fl(|l| { l.s(&s.creator); })),
        ("version", fl(|l| { l.s(&s.version); })),
        ("source", fl(|l| { l.s(&s.source); })),
        ("tags", fl(|l| { l.s(&s.tags); })),
        ("beatmap_id", fl(|l| { l.i(s.beatmap_id as i128); })),
        ("beatmap_set_id", fl(|l| { l.i(s.beatmap_set_id as i128); })),
    ]
}

fn dump_difficulty(s: &DifficultyState) -> Fields {
    let d = &s.difficulty;
    vec![
        ("has_approach_rate", fl(|l| { l.b(s.has_approach_rate); })),
        ("hp_drain_rate", fl(|l| { l.f32(d.hp_drain_rate); })),
        ("circle_size", fl(|l| { l.f32(d.circle_size); })),
        ("overall_difficulty", fl(|l| { l.f32(d.overall_difficulty); })),
        ("approach_rate", fl(|l| { l.f32(d.approach_rate); })),
        ("slider_multiplier", fl(|l| { l.f64(d.slider_multiplier); })),
        ("slider_tick_rate", fl(|l| { l.f64(d.slider_tick_rate); })),
    ]
}

fn dump_events(s: &EventsState) -> Fields {
    vec![
        ("background_file", fl(|l| { l.s(&s.background_file); })),
        ("breaks", fl(|l| {
            l.i(s.breaks.len() as i128);
            for b in &s.breaks {
                l.f64(b.start_time).f64(b.end_time);
            }
        })),
    ]
}

fn dump_colors(s: &ColorsState) -> Fields {
    vec![
        ("custom_combo_colors", fl(|l| {
            l.i(s.custom_combo_colors.len() as i128);
            for c in &s.custom_combo_colors {
                for k in 0..4 {
                    l.i(c.0[k] as i128);
                }
            }
        })),
        ("custom_colors", fl(|l| {
            l.i(s.custom_colors.len() as i128);
            for c in &s.custom_colors {
                l.s(&c.name);
                for k in 0..4 {
                    l.i(c.color.0[k] as i128);
                }
            }
        })),
    ]
}

/// (per-line rejected flags, final state fields)
fn run_impl(sec: Sec, lines: &[String]) -> Result<(Vec<bool>, Fields), String> {
    guarded(|| {
        let mut flags = vec![];
        let fields = match sec {
            Sec::General => {
                let mut st = <GeneralState as DecodeState>::create(14);
                for l in lines {
                    flags.push(General::parse_general(&mut st, l).is_err());
                }
                dump_general(&st)
            }
            Sec::Editor => {
                let mut st = <EditorState as DecodeState>::create(14);
                for l in lines {
                    flags.push(Editor::parse_editor(&mut st, l).is_err());
                }
                dump_editor(&st)
            }
            Sec::Metadata => {
                let mut st = <MetadataState as DecodeState>::create(14);
                for l in lines {
                    flags.push(Metadata::parse_metadata(&mut st, l).is_err());
                }
                dump_metadata(&st)
            }
            Sec::Difficulty => {
                let mut st = <DifficultyState as DecodeState>::create(14);
                for l in lines {
                    flags.push(Difficulty::parse_difficulty(&mut st, l).is_err());
                }
                dump_difficulty(&st)
            }
            Sec::Events => {
                let mut st = <EventsState as DecodeState>::create(14);
                for l in lines {
                    flags.push(Events::parse_events(&mut st, l).is_err());
                }
                dump_events(&st)
            }
            Sec::Colors => {
                let mut st = <ColorsState as DecodeState>::create(14);
                for l in lines {
                    flags.push(Colors::parse_colors(&mut st, l).is_err());
                }
                dump_colors(&st)
            }
        };
        (flags, fields)
    })
}

fn join_fields(f: &Fields) -> String {
    f.iter().filter_map(|(_, l)| l.as_ref().map(|l| l.0.clone())).collect::<Vec<_>>().join(" ")
}

// ---------------------------------------------------------------------------
// reference, written from the property text
// ---------------------------------------------------------------------------

/// Variants of the reference used ONLY to classify an observed deviation as
/// one of the recorded findings; the property is `Ref::default()`.
#[derive(Clone, Copy, Default, PartialEq, Eq)]
struct Ref {
    /// D14: f32 limit is 2^31 instead of 2^31-1
    f32_limit_pow31: bool,
}

/// The reference cannot judge this input from the property text alone.
struct Ambiguous;

const LIMIT: f64 = 2147483647.0;

fn strip_comment(s: &str) -> &str {
    match s.find("//") {
        Some(i) => &s[..i],
        None => s,
    }
}

/// key and value of a record: trimmed text before / after the FIRST colon
fn key_value(s: &str, _r: Ref) -> (String, Option<String>) {
    match s.find(':') {
        Some(i) => (s[..i].trim().to_string(), Some(s[i + 1..].trim().to_string())),
        None => (s.trim().to_string(), None),
    }
}

/// `[+-]? digit+`, value within +-(2^31-1)
fn ref_int(v: &str) -> Option<i64> {
    let b = v.as_bytes();
    let (neg, ds) = match b.first() {
        Some(b'+') => (false, &b[1..]),
        Some(b'-') => (true, &b[1..]),
        _ => (false, b),
    };
    if ds.is_empty() || !ds.iter().all(|c| c.is_ascii_digit()) {
        return None;
    }
    let mut n: i128 = 0;
    for c in ds {
        n = (n * 10 + (*c - b'0') as i128).min(1 << 100);
    }
    if n > 2147483647 {
        return None;
    }
    Some(if neg { -(n as i64) } else { n as i64 })
}

/// decimal float literal: `[+-]? (digit+ ('.' digit*)? | '.' digit+) ([eE] [+-]? digit+)?`
fn float_grammar(v: &str) -> bool {
    let b = v.as_bytes();
    let mut i = 0;
    if i < b.len() && (b[i] == b'+' || b[i] == b'-') {
        i += 1;
    }
    let mut nd = 0;
    while i < b.len() && b[i].is_ascii_digit() {
        i += 1;
        nd += 1;
    }
    if i < b.len() && b[i] == b'.' {
        i += 1;
        while i < b.len() && b[i].is_ascii_digit() {
            i += 1;
            nd += 1;
        }
    }
    if nd == 0 {
        return false;
    }
    if i < b.len() && (b[i] == b'e' || b[i] == b'E') {
        i += 1;
        if i < b.len() && (b[i] == b'+' || b[i] == b'-') {
            i += 1;
        }
        let mut ne = 0;
        while i < b.len() && b[i].is_ascii_digit() {
            i += 1;
            ne += 1;
        }
        if ne == 0 {
            return false;
        }
    }
    i == b.len()
}

/// Is the decimal text (already known to match `float_grammar`) within
/// +-(2^31-1) as an exact decimal?  Pure digit arithmetic, no rounding.
fn decimal_within_limit(v: &str) -> bool {
    let b = v.as_bytes();
    let mut i = 0;
    if b[i] == b'+' || b[i] == b'-' {
        i += 1;
    }
    let mut digits: Vec<u8> = vec![];
    while i < b.len() && b[i].is_ascii_digit() {
        digits.push(b[i] - b'0');
        i += 1;
    }
    let mut exp: i64 = 0;
    if i < b.len() && b[i] == b'.' {
        i += 1;
        while i < b.len() && b[i].is_ascii_digit() {
            digits.push(b[i] - b'0');
            exp -= 1;
            i += 1;
        }
    }
    if i < b.len() {
        i += 1; // e / E
        let mut neg = false;
        if b[i] == b'+' || b[i] == b'-' {
            neg = b[i] == b'-';
            i += 1;
        }
        let mut e: i64 = 0;
        while i < b.len() {
            e = (e * 10 + (b[i] - b'0') as i64).min(100_000_000);
            i += 1;
        }
        exp += if neg { -e } else { e };
    }
    let lead = digits.iter().take_while(|d| **d == 0).count();
    let d = &digits[lead..];
    if d.is_empty() {
        return true;
    }
    let int_digits = d.len() as i64 + exp;
    if int_digits <= 9 {
        return true;
    }
    if int_digits >= 11 {
        return false;
    }
    let lim = [2u8, 1, 4, 7, 4, 8, 3, 6, 4, 7];
    for k in 0..10 {
        let x = d.get(k).copied().unwrap_or(0);
        if x != lim[k] {
            return x < lim[k];
        }
    }
    d.iter().skip(10).all(|x| *x == 0)
}

/// f64 within +-(2^31-1).  Err: the decimal text and the parsed value fall on
/// different sides of the limit (the text does not say which one is meant).
fn ref_f64(v: &str, r: Ref) -> Result<Option<f64>, Ambiguous> {
    if !float_grammar(v) {
        return Ok(None);
    }
    let Ok(x) = v.parse::<f64>() else {
        return Ok(None);
    };
    let value_ok = x.is_finite() && x.abs() <= LIMIT;
    match (decimal_within_limit(v), value_ok) {
        (true, true) => Ok(Some(x)),
        (false, false) => Ok(None),
        // only when classifying a deviation under a recorded finding: the
        // reading "the parsed value lies within the limit"
        (false, true) if r != Ref::default() => Ok(Some(x)),
        (true, false) if r != Ref::default() => Ok(None),
        _ => Err(Ambiguous),
    }
}

fn ref_f32(v: &str, r: Ref) -> Result<Option<f32>, Ambiguous> {
    if !float_grammar(v) {
        return Ok(None);
    }
    let Ok(x) = v.parse::<f32>() else {
        return Ok(None);
    };
    if r.f32_limit_pow31 {
        return Ok(if x.is_finite() && (x as f64).abs() <= 2147483648.0 { Some(x) } else { None });
    }
    let value_ok = x.is_finite() && (x as f64).abs() <= LIMIT;
    match (decimal_within_limit(v), value_ok) {
        (true, true) => Ok(Some(x)),
        (false, false) => Ok(None),
        (false, true) if r != Ref::default() => Ok(Some(x)),
        (true, false) if r != Ref::default() => Ok(None),
        _ => Err(Ambiguous),
    }
}

fn ref_u8(v: &str) -> Option<u8> {
    let b = v.as_bytes();
    let ds = if b.first() == Some(&b'+') { &b[1..] } else { b };
    if ds.is_empty() || !ds.iter().all(|c| c.is_ascii_digit()) {
        return None;
    }
    let mut n: u32 = 0;
    for c in ds {
        n = (n * 10 + (*c - b'0') as u32).min(100_000);
    }
    if n > 255 {
        None
    } else {
        Some(n as u8)
    }
}

const SAMPLE_BANKS: [(&str, i128); 8] =
    [("0", 0), ("None", 0), ("1", 1), ("Normal", 1), ("2", 2), ("Soft", 2), ("3", 3), ("Drum", 3)];
const MODES: [(&str, i128); 4] = [("0", 0), ("1", 1), ("2", 2), ("3", 3)];
const COUNTDOWNS: [(&str, i128); 8] = [
    ("0", 0), ("None", 0), ("1", 1), ("Normal", 1), ("2", 2), ("Half speed", 2), ("3", 3), ("Double speed", 3),
];

fn table(t: &[(&str, i128)], v: &str) -> Option<i128> {
    t.iter().find(|(k, _)| *k == v).map(|(_, x)| *x)
}

/// documented conversion of a key
#[derive(Clone, Copy, PartialEq, Eq, Debug)]
enum Conv {
    Text,
    Path,
    I32,
    I32AsF64,
    F32,
    F64,
    Flag,
    Bank,
    Mode,
    Countdown,
    Bookmarks,
    Od,
    Ar,
    Clamp(u8),
}

fn keys_of(sec: Sec) -> &'static [(&'static str, &'static str, Conv)] {
    match sec {
        Sec::General => &[
            ("AudioFilename", "audio_file", Conv::Path),
            ("AudioLeadIn", "audio_lead_in", Conv::I32AsF64),
            ("PreviewTime", "preview_time", Conv::I32),
            ("SampleSet", "default_sample_bank", Conv::Bank),
            ("SampleVolume", "default_sample_volume", Conv::I32),
            ("StackLeniency", "stack_leniency", Conv::F32),
            ("Mode", "mode", Conv::Mode),
            ("LetterboxInBreaks", "letterbox_in_breaks", Conv::Flag),
            ("SpecialStyle", "special_style", Conv::Flag),
            ("WidescreenStoryboard", "widescreen_storyboard", Conv::Flag),
            ("EpilepsyWarning", "epilepsy_warning", Conv::Flag),
            ("SamplesMatchPlaybackRate", "samples_match_playback_rate", Conv::Flag),
            ("Countdown", "countdown", Conv::Countdown),
            ("CountdownOffset", "countdown_offset", Conv::I32),
        ],
        Sec::Editor => &[
            ("Bookmarks", "bookmarks", Conv::Bookmarks),
            ("DistanceSpacing", "distance_spacing", Conv::F64),
            ("BeatDivisor", "beat_divisor", Conv::I32),
            ("GridSize", "grid_size", Conv::I32),
            ("TimelineZoom", "timeline_zoom", Conv::F64),
        ],
        Sec::Metadata => &[
            ("Title", "title", Conv::Text),
            ("TitleUnicode", "title_unicode", Conv::Text),
            ("Artist", "artist", Conv::Text),
            ("ArtistUnicode", "artist_unicode", Conv::Text),
            ("Creator", "creator", Conv::Text),
            ("Version", "version", Conv::Text),
            ("Source", "source", Conv::Text),
            ("Tags", "tags", Conv::Text),
            ("BeatmapID", "beatmap_id", Conv::I32),
            ("BeatmapSetID", "beatmap_set_id", Conv::I32),
        ],
        Sec::Difficulty => &[
            ("HPDrainRate", "hp_drain_rate", Conv::F32),
            ("CircleSize", "circle_size", Conv::F32),
            ("OverallDifficulty", "overall_difficulty", Conv::Od),
            ("ApproachRate", "approach_rate", Conv::Ar),
            ("SliderMultiplier", "slider_multiplier", Conv::Clamp(0)),
            ("SliderTickRate", "slider_tick_rate", Conv::Clamp(1)),
        ],
        _ => &[],
    }
}

fn set(fields: &mut Fields, name: &str, v: Option<Line>) {
    for f in fields.iter_mut() {
        if f.0 == name {
            f.1 = v;
            return;
        }
    }
    unreachable!("field {name}");
}

fn get<'a>(fields: &'a Fields, name: &str) -> &'a Option<Line> {
    &fields.iter().find(|f| f.0 == name).unwrap().1
}

fn clamp_ref(x: f64, lo: f64, hi: f64) -> f64 {
    if x < lo {
        lo
    } else if x > hi {
        hi
    } else {
        x
    }
}

/// one key/value record against the reference state
fn ref_kv(sec: Sec, st: &mut Fields, line: &str, r: Ref) -> Result<(), Ambiguous> {
    let body = if sec == Sec::Metadata { line } else { strip_comment(line) };
    let (key, value) = key_value(body, r);
    let Some(&(_, field, conv)) = keys_of(sec).iter().find(|(k, _, _)| *k == key) else {
        return Ok(()); // unknown key: nothing changes
    };
    let Some(value) = value else {
        // a recognised key without any colon: the text does not say whether
        // this is a record with an empty value or no record at all
        return Err(Ambiguous);
    };
    let v = value.as_str();
    match conv {
        Conv::Text => set(st, field, fl(|l| { l.s(v); })),
        Conv::Path => set(st, field, fl(|l| { l.s(&v.replace('\\', "/")); })),
        Conv::I32 => {
            if let Some(n) = ref_int(v) {
                set(st, field, fl(|l| { l.i(n as i128); }));
            }
        }
        Conv::I32AsF64 => {
            if let Some(n) = ref_int(v) {
                set(st, field, fl(|l| { l.f64(n as f64); }));
            }
        }
        Conv::F32 | Conv::Od | Conv::Ar => {
            if let Some(x) = ref_f32(v, r)? {
                set(st, field, fl(|l| { l.f32(x); }));
                if conv == Conv::Od && get(st, "has_approach_rate").as_ref().unwrap().0 == "0" {
                    // approach rate follows overall difficulty until it is set itself
                    set(st, "approach_rate", fl(|l| { l.f32(x); }));
                }
                if conv == Conv::Ar {
                    set(st, "has_approach_rate", fl(|l| { l.b(true); }));
                }
            }
        }
        Conv::F64 => {
            if let Some(x) = ref_f64(v, r)? {
                set(st, field, fl(|l| { l.f64(x); }));
            }
        }
        Conv::Clamp(which) => {
            if let Some(x) = ref_f64(v, r)? {
                let (lo, hi) = if which == 0 { (0.4, 3.6) } else { (0.5, 8.0) };
                set(st, field, fl(|l| { l.f64(clamp_ref(x, lo, hi)); }));
            }
        }
        Conv::Flag => {
            // true only for the value 1; an invalid number is an invalid value
            if let Some(n) = ref_int(v) {
                set(st, field, fl(|l| { l.b(n == 1); }));
            }
        }
        Conv::Bank => {
            if let Some(x) = table(&SAMPLE_BANKS, v) {
                set(st, field, fl(|l| { l.i(x); }));
            }
        }
        Conv::Mode => {
            if let Some(x) = table(&MODES, v) {
                set(st, field, fl(|l| { l.i(x); }));
            }
        }
        Conv::Countdown => {
            if let Some(x) = table(&COUNTDOWNS, v) {
                set(st, field, fl(|l| { l.i(x); }));
            }
        }
        Conv::Bookmarks => {
            let mut out = vec![];
            // every element is a number of the format like any other: trimmed, within
            // +-(2^31-1); an element that is not is skipped (plain i32 parsing of the
            // elements -- no trim, -2147483648 accepted -- was finding D10, repaired)
            for piece in v.split(',') {
                if let Some(n) = ref_int(piece.trim()) {
                    out.push(n);
                }
            }
            set(st, field, fl(|l| {
                l.i(out.len() as i128);
                for n in &out {
                    l.i(*n as i128);
                }
            }));
        }
    }
    Ok(())
}

const EVENT_TYPES: [(&str, u8); 14] = [
    ("0", 0), ("Background", 0), ("1", 1), ("Video", 1), ("2", 2), ("Break", 2), ("3", 3), ("Colour", 3),
    ("4", 4), ("Sprite", 4), ("5", 5), ("Sample", 5), ("6", 6), ("Animation", 6),
];
const VIDEO_EXT: [&str; 7] = ["mp4", "mov", "avi", "flv", "mpg", "wmv", "m4v"];
const IMAGE_EXT: [&str; 6] = ["jpg", "jpeg", "png", "bmp", "gif", "webp"];

fn clean_filename_ref(s: &str) -> String {
    s.trim_matches('"').replace("\\\\", "\\").replace('\\', "/")
}

struct RefEvents {
    /// None: the text does not determine the background any more
    bg: Option<String>,
    breaks: Vec<(f64, f64)>,
}

fn ref_event(st: &mut RefEvents, line: &str, r: Ref) -> Result<(), Ambiguous> {
    let body = strip_comment(line).trim_end();
    let f: Vec<&str> = body.split(',').collect();
    if f.len() < 3 {
        return Ok(()); // not an event record
    }
    let Some(&(_, ty)) = EVENT_TYPES.iter().find(|(k, _)| *k == f[0]) else {
        let t = f[0].trim();
        if t != f[0] || EVENT_TYPES.iter().any(|(k, _)| k.eq_ignore_ascii_case(t)) {
            return Err(Ambiguous); // padded / differently cased type token
        }
        return Ok(());
    };
    match ty {
        0 => st.bg = Some(clean_filename_ref(f[2])),
        1 => {
            let name = clean_filename_ref(f[2]);
            let base = name.rsplit('/').next().unwrap_or("");
            match base.rfind('.') {
                Some(i) => {
                    let ext = base[i + 1..].to_ascii_lowercase();
                    if IMAGE_EXT.contains(&ext.as_str()) {
                        st.bg = Some(name);
                    } else if !VIDEO_EXT.contains(&ext.as_str()) {
                        st.bg = None;
                    }
                }
                None => st.bg = None,
            }
        }
        2 => {
            if f[1].trim() != f[1] || f[2].trim() != f[2] {
                return Err(Ambiguous); // the text trims values of key/value records only
            }
            if let (Some(s), Some(e)) = (ref_f64(f[1], r)?, ref_f64(f[2], r)?) {
                // a break never ends before it starts; otherwise the end is the number as written
                st.breaks.push((s, if e < s { s } else { e }));
            }
        }
        4 => {
            if let Some(bg) = &st.bg {
                if bg.is_empty() {
                    if let Some(name) = f.get(3) {
                        st.bg = Some(clean_filename_ref(name));
                    }
                }
            }
        }
        _ => {}
    }
    Ok(())
}

struct RefColors {
    combos: Vec<[u8; 4]>,
    custom: Vec<(String, [u8; 4])>,
}

const NAMED_COLOURS: [&str; 2] = ["SliderBorder", "SliderTrackOverride"];

fn ref_colour(st: &mut RefColors, line: &str, r: Ref) -> Result<(), Ambiguous> {
    let (key, value) = key_value(strip_comment(line), r);
    let Some(value) = value else {
        return Ok(()); // no colon: no colour value at all
    };
    let combo = key.starts_with("Combo");
    if !combo && !NAMED_COLOURS.contains(&key.as_str()) {
        return Err(Ambiguous); // the text names no rule for other keys
    }
    let p: Vec<&str> = value.split(',').map(str::trim).collect();
    if p.len() != 3 && p.len() != 4 {
        return Ok(());
    }
    let (Some(rr), Some(g), Some(b)) = (ref_u8(p[0]), ref_u8(p[1]), ref_u8(p[2])) else {
        return Ok(());
    };
    if p.len() == 4 && ref_u8(p[3]).is_none() {
        return Err(Ambiguous); // "ignored" alpha that is not a number
    }
    let c = [rr, g, b, 255];
    if combo {
        st.combos.push(c);
    } else if let Some(old) = st.custom.iter_mut().find(|(n, _)| *n == key) {
        old.1 = c;
    } else {
        st.custom.push((key, c));
    }
    Ok(())
}

/// final state according to the reference; None = not judged
fn reference(sec: Sec, lines: &[String], r: Ref) -> Option<Fields> {
    match sec {
        Sec::General | Sec::Editor | Sec::Metadata | Sec::Difficulty => {
            let mut st = match sec {
                Sec::General => dump_general(&<GeneralState as DecodeState>::create(14)),
                Sec::Editor => dump_editor(&<EditorState as DecodeState>::create(14)),
                Sec::Metadata => dump_metadata(&<MetadataState as DecodeState>::create(14)),
                _ => dump_difficulty(&<DifficultyState as DecodeState>::create(14)),
            };
            for l in lines {
                ref_kv(sec, &mut st, l, r).ok()?;
            }
            Some(st)
        }
        Sec::Events => {
            let mut st = RefEvents { bg: Some(String::new()), breaks: vec![] };
            for l in lines {
                ref_event(&mut st, l, r).ok()?;
            }
            Some(vec![
                ("background_file", st.bg.as_ref().and_then(|b| fl(|l| { l.s(b); }))),
                ("breaks", fl(|l| {
                    l.i(st.breaks.len() as i128);
                    for (s, e) in &st.breaks {
                        l.f64(*s).f64(*e);
                    }
                })),
            ])
        }
        Sec::Colors => {
            let mut st = RefColors { combos: vec![], custom: vec![] };
            for l in lines {
                ref_colour(&mut st, l, r).ok()?;
            }
            Some(vec![
                ("custom_combo_colors", fl(|l| {
                    l.i(st.combos.len() as i128);
                    for c in &st.combos {
                        for k in c {
                            l.i(*k as i128);
                        }
                    }
                })),
                ("custom_colors", fl(|l| {
                    l.i(st.custom.len() as i128);
                    for (n, c) in &st.custom {
                        l.s(n);
                        for k in c {
                            l.i(*k as i128);
                        }
                    }
                })),
            ])
        }
    }
}

/// the implementation's fields in the form the reference is compared in
/// (break times bit for bit: the end is the written number unless that lies
/// before the start, so a zero keeps its sign -- `2,-0,0` and `2,0,-0` are
/// stored as written; a start.max(end) that drops the sign is a failure)
fn comparable(sec: Sec, lines: &[String]) -> Option<Fields> {
    if sec != Sec::Events {
        return run_impl(sec, lines).ok().map(|x| x.1);
    }
    guarded(|| {
        let mut st = <EventsState as DecodeState>::create(14);
        for l in lines {
            let _ = Events::parse_events(&mut st, l);
        }
        vec![
            ("background_file", fl(|l| { l.s(&st.background_file); })),
            ("breaks", fl(|l| {
                l.i(st.breaks.len() as i128);
                for b in &st.breaks {
                    l.f64(b.start_time).f64(b.end_time);
                }
            })),
        ]
    })
    .ok()
}

fn differing(a: &Fields, want: &Fields) -> Vec<String> {
    let mut d = vec![];
    for ((n, x), (_, y)) in a.iter().zip(want.iter()) {
        if let (Some(x), Some(y)) = (x, y) {
            if x.0 != y.0 {
                d.push(format!("{n}: implementation [{}] reference [{}]", x.0, y.0));
            }
        }
    }
    d
}

// ---------------------------------------------------------------------------
// one case
// ---------------------------------------------------------------------------

struct Known {
    d14: u32,
}

fn run_case(sec: Sec, lines: &[String], tag: &str, out: &mut Out, known: &mut Known) {
    let mut case = Line::entry("c11");
    case.i(sec.id());
    for l in lines {
        case.s(l);
    }
    let desc = format!("[{}] {:?}", sec.name(), lines);
    let (res, nontrivial) = match run_impl(sec, lines) {
        Ok((flags, fields)) => {
            let mut res = Line::new();
            res.i(flags.len() as i128);
            for f in &flags {
                res.b(*f);
            }
            let dump = join_fields(&fields);
            let default = join_fields(&reference(sec, &[], Ref::default()).unwrap());
            let nrej = flags.iter().filter(|x| **x).count();
            out.count_n(&format!("{}.lines", sec.name()), lines.len() as u64);
            out.count_n(&format!("{}.lines.rejected", sec.name()), nrej as u64);
            let changed = dump != default;
            out.count(&format!("{}.case.{}", sec.name(), if changed { "state_changed" } else if nrej > 0 { "only_rejections" } else { "no_effect" }));
            (format!("{} {}", res.0, dump), changed || nrej > 0)
        }
        Err(p) => {
            out.fail("", &desc, &format!("panic in parse function: {p}"));
            ("panic".to_string(), true)
        }
    };
    out.count(&format!("stream.{tag}"));
    out.case(case.0, res, desc.clone(), nontrivial);

    // oracle
    let Some(want) = reference(sec, lines, Ref::default()) else {
        out.count("oracle.skipped_ambiguous");
        return;
    };
    let Some(got) = comparable(sec, lines) else {
        return;
    };
    out.oracle_checks += 1;
    let diff = differing(&got, &want);
    if diff.is_empty() {
        return;
    }
    // classify against the recorded findings: the deviation must be exactly
    // the one the finding describes
    let variants = [("D14", Ref { f32_limit_pow31: true })];
    let mut class = "";
    // A deviation in where a record is cut (first colon), in how the elements of
    // a Bookmarks value are read (trimmed, within the limits) or in a break's end
    // time has no class: it is a violation.
    for (id, v) in variants {
        if let Some(w) = reference(sec, lines, v) {
            if differing(&got, &w).is_empty() {
                class = id;
                break;
            }
        }
    }
    let slot = match class {
        "D14" => Some(&mut known.d14),
        _ => None,
    };
    if let Some(n) = slot {
        *n += 1;
        out.count(&format!("oracle.known.{class}"));
        if *n > 12 {
            return; // keep room in the failure list for anything unlisted
        }
    }
    out.fail(class, &desc, &diff.join("; "));
}

// ---------------------------------------------------------------------------
// generators
// ---------------------------------------------------------------------------

fn big_digits(n: usize) -> String {
    let mut s = String::from("1");
    for i in 1..n {
        s.push((b'0' + ((i * 7) % 10) as u8) as char);
    }
    s
}

fn int_values() -> Vec<(String, &'static str)> {
    let mut v: Vec<(String, &'static str)> = vec![];
    for s in ["0", "1", "2", "3", "5", "-1", "42", "100", "-100", "12345"] {
        v.push((s.into(), "valid"));
    }
    for s in ["2147483647", "-2147483647", "2147483646", "2147483648", "-2147483648", "-2147483649"] {
        v.push((s.into(), "boundary"));
    }
    for s in ["99999999999", "-99999999999", "4294967296", "18446744073709551617"] {
        v.push((s.into(), "overflow"));
    }
    v.push((big_digits(400), "overflow"));
    v.push((format!("-{}", big_digits(400)), "overflow"));
    for s in ["nan", "NaN", "inf", "-inf", "infinity", "+Infinity"] {
        v.push((s.into(), "naninf"));
    }
    v.push(("".into(), "empty"));
    for s in ["+7", "+0", "-0", "007", "-007", "+", "-", "--1", "+-1", "1e5", "1.0", ".5", "5.", "0x10", "0b1", "1_000", "1 2", "abc", "1a", "\u{ff11}", "\u{663}", "1\u{a0}2", "1,5"] {
        v.push((s.into(), "form"));
    }
    v
}

fn float_values() -> Vec<(String, &'static str)> {
    let mut v: Vec<(String, &'static str)> = vec![];
    for s in [
        "0", "1", "5", "9.3", "1.4", "0.7", "0.1", "0.4", "3.6", "0.5", "8", "0.39999999999999997", "0.3999",
        "3.6000000000000001", "3.61", "0.49", "8.000001", "10", "-5", "-1.5", "2.5", "7", "1.7999999999999998",
        "0.30000000000000004", "123456.789", "16777217", "0.1234567890123456789012345678901234567890",
        "9007199254740993", "1.00000005960464477539", "1.00000017881393432617187500001",
    ] {
        v.push((s.into(), "valid"));
    }
    for s in [
        "2147483647", "-2147483647", "2147483647.0000001", "2147483647.5", "2147483648", "-2147483648",
        "2147483520", "2147483583", "2147483584", "2147483585", "2147483776", "2147483777", "-2147483776",
        "-2147483777", "2147483646.9999999", "2.147483647e9", "2.147483648e9", "0.2147483647e10",
        "21474836470e-1", "2147483904",
    ] {
        v.push((s.into(), "boundary"));
    }
    for s in [
        "1e10", "-1e10", "1e39", "1e309", "1e400", "-1e400", "1e999999", "-1e999999", "1e99999999999999999999",
        "4e38", "3.5e38", "1.8e308",
    ] {
        v.push((s.into(), "overflow"));
    }
    v.push((big_digits(400), "overflow"));
    v.push((format!("0.{}", big_digits(400)), "valid"));
    v.push((format!("{}e-399", big_digits(400)), "valid"));
    v.push((format!("{}e-395", big_digits(400)), "valid"));
    v.push((format!("0.{}1e400", "0".repeat(399)), "valid"));
    v.push((format!("0.{}1", "0".repeat(400)), "valid"));
    for s in [
        "1e-5", "1E5", "1e+2", "1e5", "1.5e3", "5e-324", "2e-324", "2.5e-324", "2.4703282292062328e-324",
        "2.4703282292062327e-324", "4.9e-324", "1e-999999", "-1e-999999", "1e-45", "7e-46", "7.1e-46",
        "1.17549435e-38", "1.1754942e-38", "2.2250738585072014e-308", "2.2250738585072011e-308", "0e999999",
        "-0e0", "0.0e-5", "1e0", "1e-0", "1e+0", "1e23", "8.5e22", "3.4028235e10", "1e-400",
    ] {
        v.push((s.into(), "exponent"));
    }
    for s in ["nan", "NaN", "NAN", "-nan", "+nan", "inf", "-inf", "+inf", "INF", "Inf", "infinity", "Infinity", "-INFINITY", "infinit", "infinityy", "in", "na"] {
        v.push((s.into(), "naninf"));
    }
    v.push(("".into(), "empty"));
    for s in [
        "-0", "+0", "-0.0", "+1.5", ".5", "5.", "-.5", "+.5", "5.e2", ".5e1", ".", "+.", "-.", "e5", ".e5", "1e",
        "1e+", "1e-", "1.5.2", "1e5.5", "1e5e5", "0x10", "0x1p3", "1_0", "1 2", "1,5", "abc", "1a", "1f", "1d",
        "\u{ff11}", "1\u{3000}2", "++1", "--1", "+-1", "007.50", "00000000000000000000001",
    ] {
        v.push((s.into(), "form"));
    }
    v
}

fn enum_values() -> Vec<(String, &'static str)> {
    let mut v: Vec<(String, &'static str)> = vec![];
    for s in ["0", "1", "2", "3", "None", "Normal", "Soft", "Drum", "Half speed", "Double speed"] {
        v.push((s.into(), "valid"));
    }
    for s in ["4", "-1", "01", "+1", "1.0", "normal", "NORMAL", "Half  speed", "Halfspeed", "Taiko", "osu", "2147483647", "abc"] {
        v.push((s.into(), "form"));
    }
    v.push(("".into(), "empty"));
    v
}

fn text_values() -> Vec<(String, &'static str)> {
    let mut v: Vec<(String, &'static str)> = vec![];
    for s in [
        "audio.mp3", "Some Title", "a\\b\\c.mp3", "dir\\\\file.ogg", "\u{65e5}\u{672c}\u{8a9e} \u{30bf}\u{30a4}\u{30c8}\u{30eb}",
        "peppy", "tag1 tag2  tag3", "\"quoted\"", "x", "1", "a,b,c", "caf\u{e9}", "\u{1F3B5} song",
    ] {
        v.push((s.into(), "valid"));
    }
    for s in ["Re:Zero", "a:b:c", "http://x.y/z", ":", "::", "12:30", "a : b"] {
        v.push((s.into(), "colons"));
    }
    for s in ["a / b", "a /", "/"] {
        v.push((s.into(), "valid"));
    }
    v.push(("".into(), "empty"));
    v
}

fn bookmark_values() -> Vec<(String, &'static str)> {
    let mut v: Vec<(String, &'static str)> = vec![];
    for s in ["1000", "1,2,3", "100,200,300,400", "5,,6", "1,x,3", "", ",", "3,2,1", "7,7,7", "-5,5", "+4,4", "1.5,2", "1e3,2"] {
        v.push((s.into(), "valid"));
    }
    for s in ["2147483647,1", "-2147483647", "2147483648,2", "99999999999,3"] {
        v.push((s.into(), "boundary"));
    }
    for s in ["-2147483648", "1,-2147483648,2", "2147483648", "-2147483647,2147483647", "1,+2147483648,-2147483649,2"] {
        v.push((s.into(), "limit"));
    }
    for s in ["1, 2,3", "1 ,2", "1,\t2", "1,2 ,3", "1,\u{a0}2", " 7 , 8 ,\u{3000}9", "1, 2 ,-2147483648,2147483647,x,,3", "1, ,2", " -2147483647 , 2147483648 "] {
        v.push((s.into(), "padded"));
    }
    v
}

fn values_for(c: Conv) -> Vec<(String, &'static str)> {
    match c {
        Conv::Text | Conv::Path => text_values(),
        Conv::I32 | Conv::I32AsF64 | Conv::Flag => int_values(),
        Conv::F32 | Conv::F64 | Conv::Od | Conv::Ar | Conv::Clamp(_) => float_values(),
        Conv::Bank | Conv::Mode | Conv::Countdown => enum_values(),
        Conv::Bookmarks => bookmark_values(),
    }
}

const DECORATIONS: [&str; 16] = [
    "plain", "space", "pad-spaces", "pad-tab", "pad-nbsp", "pad-ideographic", "pad-mixed", "comment", "comment-tight",
    "extra-colon-tail", "extra-colon-double", "extra-colon-end", "key-spaces", "key-tab", "line-indent", "pad-inner-key",
];

fn decorate(key: &str, val: &str, deco: &str) -> String {
    match deco {
        "plain" => format!("{key}:{val}"),
        "space" => format!("{key}: {val}"),
        "pad-spaces" => format!("{key}:   {val}   "),
        "pad-tab" => format!("{key}:\t{val}\t"),
        "pad-nbsp" => format!("{key}:\u{a0}{val}\u{a0}"),
        "pad-ideographic" => format!("{key}:\u{3000}{val}\u{3000}"),
        "pad-mixed" => format!("{key}: \t\u{2003}{val}\u{85}\u{2028} "),
        "comment" => format!("{key}: {val} // x"),
        "comment-tight" => format!("{key}:{val}//x:y"),
        "extra-colon-tail" => format!("{key}: {val}:tail"),
        "extra-colon-double" => format!("{key}::{val}"),
        "extra-colon-end" => format!("{key}: {val} :"),
        "key-spaces" => format!("  {key}  : {val}"),
        "key-tab" => format!("{key}\t:{val}"),
        "line-indent" => format!("\u{3000} {key}:{val}"),
        "pad-inner-key" => format!("{} {}:{val}", &key[..1], &key[1..]),
        _ => unreachable!(),
    }
}

fn valid_value(c: Conv, r: &mut Rng) -> String {
    match c {
        Conv::Text => r.pick(&["Title", "Some Artist", "creator", "Insane", "src", "a b c"]).to_string(),
        Conv::Path => r.pick(&["audio.mp3", "dir\\song.ogg", "a.wav"]).to_string(),
        Conv::I32 | Conv::I32AsF64 => r.pick(&["0", "1", "500", "-1", "12345", "100"]).to_string(),
        Conv::Flag => r.pick(&["0", "1", "1", "2"]).to_string(),
        Conv::F32 | Conv::Od | Conv::Ar => r.pick(&["5", "9.3", "0.7", "7", "8.5", "3.25", "10", "0"]).to_string(),
        Conv::F64 => r.pick(&["1", "0.8", "1.5", "2", "1.2"]).to_string(),
        Conv::Clamp(_) => r.pick(&["1.4", "1.8", "1", "2", "0.2", "4", "9", "0.4", "3.6", "0.5", "8"]).to_string(),
        Conv::Bank => r.pick(&["0", "1", "2", "3", "None", "Normal", "Soft", "Drum"]).to_string(),
        Conv::Mode => r.pick(&["0", "1", "2", "3"]).to_string(),
        Conv::Countdown => r.pick(&["0", "1", "2", "3", "None", "Normal", "Half speed", "Double speed"]).to_string(),
        Conv::Bookmarks => r.pick(&["1000,2000", "5", "1,2,3,4", ""]).to_string(),
    }
}

const UNKNOWN_KEYS: [&str; 10] = [
    "Unknown", "audiofilename", "MODE", "title", "Titel", "", "OverallDifficulty2", "Combo1", "AudioFilename2", "ApproachRat",
];

fn random_kv_line(sec: Sec, r: &mut Rng, out: &mut Out) -> String {
    let keys = keys_of(sec);
    let roll = r.below(100);
    if roll < 8 {
        out.count("line.unknown_key");
        let k = *r.pick(&UNKNOWN_KEYS);
        return format!("{k}: {}", r.pick(&["1", "x", "", "5.5"]));
    }
    let (key, _, conv) = *r.pick(keys);
    if roll < 12 {
        out.count("line.key_case_variant");
        let k = if r.chance(1, 2) { key.to_lowercase() } else { key.to_uppercase() };
        return format!("{k}: {}", valid_value(conv, r));
    }
    if roll < 15 {
        out.count("line.no_colon");
        return if r.chance(1, 2) { key.to_string() } else { format!("{key} {}", valid_value(conv, r)) };
    }
    if roll < 17 {
        out.count("line.blank_or_comment");
        return r.pick(&["", "   ", "// comment", "//", "\t"]).to_string();
    }
    let (val, class) = if roll < 65 {
        (valid_value(conv, r), "valid")
    } else {
        let vs = values_for(conv);
        let (v, c) = r.pick(&vs).clone();
        (v, c)
    };
    out.count(&format!("value.{class}"));
    let deco = if r.chance(3, 5) { *r.pick(&DECORATIONS[..2]) } else { *r.pick(&DECORATIONS) };
    out.count(&format!("deco.{deco}"));
    decorate(key, &val, deco)
}

fn event_file_names() -> Vec<&'static str> {
    vec![
        "bg.jpg", "\"bg.jpg\"", "\"BG.PNG\"", "\"dir\\\\sub\\\\bg.png\"", "\"dir\\bg.jpeg\"", "\"video.mp4\"", "\"VIDEO.MP4\"",
        "\"clip.AvI\"", "\"a.mov\"", "\"a.flv\"", "\"a.mpg\"", "\"a.wmv\"", "\"a.m4v\"", "\"a.mpeg\"", "\"xmp4\"", "\"mp4\"", "\"ab\"",
        "\"a\"", "\"\"", "", "\"\u{e9}\"", "\"\u{e9}a\"", "\"\u{65e5}\"", "\"\u{65e5}\u{672c}.png\"", "\"\u{65e5}\u{672c}.mp4\"",
        "\"x.\u{ff4d}p4\"", "\"a\u{e9}\"", "\"\u{1F3B5}\"", "\"caf\u{e9}.jpg\"", "\"\"\"q.png\"\"\"", "\"a\"b.png\"", "bg.gif", "\"bg.bmp\"",
        "\"a.b.webp\"", "\"noext\"", "\"dir.d/file\"", "\"sb\\\\\\\\x.png\"", " \"bg.jpg\"", "\"bg.jpg\" ",
    ]
}

fn random_event_line(r: &mut Rng, out: &mut Out) -> String {
    let names = event_file_names();
    let fv = float_values();
    let num = |r: &mut Rng| -> String {
        if r.chance(3, 4) {
            r.pick(&["0", "1000", "2500.5", "-500", "100", "99999", "-0", "0.0"]).to_string()
        } else {
            r.pick(&fv).0.clone()
        }
    };
    let roll = r.below(100);
    let line = if roll < 22 {
        out.count("event.background");
        let ty = *r.pick(&["0", "0", "Background"]);
        format!("{ty},0,{},0,0", r.pick(&names))
    } else if roll < 42 {
        out.count("event.video");
        let ty = *r.pick(&["1", "Video"]);
        format!("{ty},{},{}", r.pick(&["0", "-200", "x"]), r.pick(&names))
    } else if roll < 62 {
        out.count("event.break");
        let ty = *r.pick(&["2", "2", "Break"]);
        format!("{ty},{},{}", num(r), num(r))
    } else if roll < 77 {
        out.count("event.sprite");
        let ty = *r.pick(&["4", "Sprite"]);
        match r.below(4) {
            0 => format!("{ty},Background,Centre"),
            _ => format!("{ty},Background,Centre,{},320,240", r.pick(&names)),
        }
    } else if roll < 85 {
        out.count("event.other_type");
        let ty = *r.pick(&["3", "Colour", "5", "Sample", "6", "Animation"]);
        format!("{ty},100,{},50", r.pick(&names))
    } else if roll < 93 {
        out.count("event.malformed");
        r.pick(&[
            "", "0", "0,0", "2,100", "7,0,\"x.png\"", "-1,0,x", "background,0,\"x.png\"", " 0,0,\"pad.png\"", "0 ,0,\"pad.png\"",
            "BREAK,1,2", "2,,", ",,", "Video,0", "4,a", "00,0,\"x.png\"", "+0,0,\"x.png\"", "0.0,0,\"x.png\"", "Color,1,2",
            "// 0,0,\"c.png\"", "2,1e999999,5", "2,5,nan", "2,inf,5",
        ])
        .to_string()
    } else {
        out.count("event.comment_suffixed");
        match r.below(4) {
            0 => format!("0,0,{} // comment", r.pick(&names)),
            1 => format!("2,{},{}//c", num(r), num(r)),
            2 => format!("0,0,\"http://x/y.png\",0,0"),
            _ => format!("2,{} ,{}   ", num(r), num(r)),
        }
    };
    line
}

fn colour_values() -> Vec<(String, &'static str)> {
    let mut v: Vec<(String, &'static str)> = vec![];
    for s in ["255,192,0", "0,202,0", "18,124,255", "242,24,57", "1,2,3", "0,0,0", "255,255,255", "7,8,9,10", "1,2,3,255", "1,2,3,0"] {
        v.push((s.into(), "valid"));
    }
    for s in ["1, 2, 3", " 1 ,2,\t3 ", "1,2,3, 4 ", "1,\u{a0}2,\u{3000}3"] {
        v.push((s.into(), "padded"));
    }
    for s in ["256,0,0", "0,256,0", "0,0,256", "-1,0,0", "0,0,-0", "1,2,3,256", "1,2,3,-1", "999999999999,0,0", "255,255,255,999"] {
        v.push((s.into(), "boundary"));
    }
    for s in [
        "", "1", "1,2", "1,2,3,4,5", "1,2,3,4,5,6", "1,2,3,", "1,2,,3", ",,", ",,,", "a,b,c", "1.0,2,3", "1e1,2,3", "+1,+2,+3", "01,002,0003",
        "0x10,0,0", "1,2,3,x", "1,2,3,,", "1 2,3,4", "\u{ff11},2,3", "nan,0,0",
    ] {
        v.push((s.into(), "form"));
    }
    v
}

const COLOUR_KEYS: [&str; 14] = [
    "Combo1", "Combo2", "Combo3", "Combo8", "Combo", "ComboX", "Combo1 2", "SliderBorder", "SliderTrackOverride", "SliderBorder",
    "combo1", "Unknown", "", "COMBO1",
];

fn random_colour_line(r: &mut Rng, out: &mut Out) -> String {
    let key = *r.pick(&COLOUR_KEYS);
    let vs = colour_values();
    let (val, class) = if r.chance(3, 5) { (r.pick(&vs[..10]).0.clone(), "valid") } else { let x = r.pick(&vs); (x.0.clone(), x.1) };
    out.count(&format!("colour.value.{class}"));
    out.count(&format!("colour.key.{}", if key.starts_with("Combo") { "combo" } else if NAMED_COLOURS.contains(&key) { "named" } else { "other" }));
    let deco = if r.chance(2, 3) { *r.pick(&DECORATIONS[..2]) } else { *r.pick(&DECORATIONS[..15]) };
    if key.is_empty() && deco == "pad-inner-key" {
        return format!(":{val}");
    }
    decorate(key, &val, deco)
}

fn random_line(sec: Sec, r: &mut Rng, out: &mut Out) -> String {
    match sec {
        Sec::Events => random_event_line(r, out),
        Sec::Colors => random_colour_line(r, out),
        _ => random_kv_line(sec, r, out),
    }
}


// ---------------------------------------------------------------------------
// numeric stress: decimal texts chosen to be hard for a decimal -> binary
// conversion (exact ties between neighbouring floats, one digit above / below
// a tie, subnormals, long digit strings, shortest and over-long renderings)
// ---------------------------------------------------------------------------

/// exact decimal expansion of m * 2^e (m > 0), by digit arithmetic
fn exact_decimal(m: u64, e: i32) -> String {
    let mut d: Vec<u8> = m.to_string().bytes().map(|b| b - b'0').rev().collect(); // least significant first
    let mul = |d: &mut Vec<u8>, k: u8| {
        let mut carry = 0u32;
        for x in d.iter_mut() {
            let v = *x as u32 * k as u32 + carry;
            *x = (v % 10) as u8;
            carry = v / 10;
        }
        while carry > 0 {
            d.push((carry % 10) as u8);
            carry /= 10;
        }
    };
    if e >= 0 {
        for _ in 0..e {
            mul(&mut d, 2);
        }
        return d.iter().rev().map(|x| (b'0' + x) as char).collect();
    }
    let k = (-e) as usize;
    for _ in 0..k {
        mul(&mut d, 5);
    }
    while d.len() <= k {
        d.push(0);
    }
    let s: String = d.iter().rev().map(|x| (b'0' + x) as char).collect();
    let (ip, fp) = s.split_at(s.len() - k);
    let fp = fp.trim_end_matches('0');
    if fp.is_empty() {
        ip.to_string()
    } else {
        format!("{ip}.{fp}")
    }
}

/// (mantissa, exponent) of a positive finite f64 / f32: x = m * 2^e
fn decompose64(x: f64) -> (u64, i32) {
    let b = x.to_bits();
    let ex = ((b >> 52) & 0x7ff) as i32;
    let fr = b & ((1u64 << 52) - 1);
    if ex == 0 {
        (fr, -1074)
    } else {
        (fr | (1u64 << 52), ex - 1075)
    }
}
fn decompose32(x: f32) -> (u64, i32) {
    let b = x.to_bits();
    let ex = ((b >> 23) & 0xff) as i32;
    let fr = (b & ((1u32 << 23) - 1)) as u64;
    if ex == 0 {
        (fr, -149)
    } else {
        (fr | (1u64 << 23), ex - 150)
    }
}

/// texts around the tie between x and the next float above it
fn tie_texts(m: u64, e: i32, r: &mut Rng) -> Vec<String> {
    let tie = exact_decimal(2 * m + 1, e - 1);
    let mut v = vec![tie.clone()];
    // one unit in a far digit above / below the tie
    v.push(format!("{tie}{}1", "0".repeat(r.below(6))));
    if let Some(body) = tie.strip_suffix('5') {
        v.push(format!("{body}4{}", "9".repeat(1 + r.below(30))));
    }
    v
}

fn rand_pos_f64(r: &mut Rng) -> f64 {
    match r.below(8) {
        0 => f64::from_bits(r.next() % (1u64 << 53)),                                  // subnormal / tiny
        1 => f64::from_bits((r.next() % (1u64 << 52)) | ((r.below(40) as u64 + 1) << 52)), // near the smallest normals
        2 => (r.next() % (1u64 << 31)) as f64 + r.unit(),                              // anywhere within the limit
        3 => 2147483647.0 - r.unit() * 4.0,                                            // just below the limit
        4 => 2147483647.0 + r.unit() * 400.0,                                          // around / above the limit
        5 => r.unit() * 10.0,
        6 => f64::from_bits(0x3ff0_0000_0000_0000 - 0x0350_0000_0000_0000 + (r.next() % 0x0550_0000_0000_0000)), // 2^-53 .. 2^32
        _ => f64::from_bits(r.next() & 0x7fef_ffff_ffff_ffff),                         // any finite
    }
}

fn numeric_text(r: &mut Rng, out: &mut Out) -> String {
    let x = rand_pos_f64(r);
    let neg = if r.chance(1, 5) { "-" } else { "" };
    let body = match r.below(10) {
        0 => {
            out.count("numeric.tie64");
            let (m, e) = decompose64(x);
            if m == 0 { "0".to_string() } else { let tt = tie_texts(m, e, r); r.pick(&tt).clone() }
        }
        1 | 2 => {
            out.count("numeric.tie32");
            let y = x as f32;
            let y = if y.is_finite() { y } else { 1.5f32 };
            let (m, e) = decompose32(y);
            if m == 0 { "0".to_string() } else { let tt = tie_texts(m, e, r); r.pick(&tt).clone() }
        }
        3 => {
            out.count("numeric.exact64");
            let (m, e) = decompose64(x);
            if m == 0 { "0".to_string() } else { exact_decimal(m, e) }
        }
        4 => {
            out.count("numeric.shortest");
            format!("{x}")
        }
        5 => {
            out.count("numeric.scientific");
            if r.chance(1, 2) { format!("{x:e}") } else { format!("{x:E}") }
        }
        6 => {
            out.count("numeric.fixed_digits");
            let p = r.below(40);
            if x < 1e30 { format!("{x:.p$}") } else { format!("{x:.p$e}") }
        }
        7 => {
            out.count("numeric.shortest32");
            format!("{}", x as f32)
        }
        _ => {
            out.count("numeric.random_digits");
            let n = 1 + r.below(30);
            let mut s = String::new();
            let dot = r.below(n + 1);
            for i in 0..n {
                if i == dot && r.chance(2, 3) {
                    s.push('.');
                }
                s.push((b'0' + r.below(10) as u8) as char);
            }
            if r.chance(1, 2) {
                s.push(*r.pick(&['e', 'E']));
                s.push_str(*r.pick(&["", "+", "-"]));
                let top = if r.chance(1, 4) { 400 } else { 40 };
                s.push_str(&format!("{}", r.below(top)));
            }
            s
        }
    };
    format!("{neg}{body}")
}

const SECTIONS: [Sec; 6] = [Sec::General, Sec::Editor, Sec::Metadata, Sec::Difficulty, Sec::Events, Sec::Colors];

pub const RULE: &str = "sequences of section lines run through the public parse_general/parse_editor/parse_metadata/parse_difficulty/parse_events/parse_colors on a fresh state: (a) matrix: every recognised key x value class table (valid, boundary +-2147483647/8, overflow incl. 400 digits and 1e999999, NaN/inf, empty, forms such as +7 -0 1e5 .5 5. 0x10) x 16 decorations (plain, padded with space/tab/U+00A0/U+3000/mixed Unicode white space, comment-suffixed, three extra-colon shapes, white space around the key, indented line), each alone and after a valid record of the same key; (b) event lines (all types, quoted/backslashed/non-ASCII file names, video and image extensions in both cases, short names, break boundary numerics) and colour lines (combo/named/other keys x 3/4/5-component values); (b') numeric stress: decimal texts of exact ties between neighbouring f32/f64 values and one digit above/below them, exact expansions, subnormals, shortest / scientific / over-long renderings, random digit strings with exponents, integers around +-2^31, through an f64, an f32 and an i32 field and break times; (b'') sweep over code points (quick: Latin-1 and the Unicode space blocks; thorough: every BMP scalar value and every 257th astral one) placed around key and value; (c) random sequences of 1-10 lines, mostly valid, with duplicates, unknown keys, case variants, missing colons, blank and comment lines. non-trivial = the final state differs from the default or at least one line was rejected; distinct = distinct case lines";

pub fn generate(tier: &str, seed: u64, out: &mut Out) {
    let thorough = tier == "thorough";
    let mut r = Rng::new(seed ^ 0xC11);
    let mut known = Known { d14: 0 };
    let s = |x: &str| x.to_string();

    // corpus: recorded findings and readings first
    run_case(Sec::Metadata, &[s("Title:Re:Zero")], "corpus", out, &mut known);
    run_case(Sec::General, &[s("AudioFilename: C:\\a.mp3")], "corpus", out, &mut known);
    run_case(Sec::Metadata, &[s("Tags:a:b:c"), s("Source: http://x.y/z // kept"), s("Version::"), s("Creator: a : b ")], "corpus", out, &mut known);
    run_case(Sec::Colors, &[s("Combo1:1,2,3:4"), s("Combo2: 1,2,3"), s("SliderBorder:4,5,6:")], "corpus", out, &mut known);
    run_case(Sec::Difficulty, &[s("CircleSize:4"), s("CircleSize:4:5"), s("SliderMultiplier::2")], "corpus", out, &mut known);
    run_case(Sec::Editor, &[s("GridSize:4:5"), s("Bookmarks:1,2:3,4"), s("BeatDivisor: 8 : ")], "corpus", out, &mut known);
    run_case(Sec::Editor, &[s("Bookmarks: -2147483648")], "corpus", out, &mut known);
    run_case(Sec::Editor, &[s("Bookmarks: 1, 5,7 ,9")], "corpus", out, &mut known);
    run_case(Sec::Editor, &[s("Bookmarks: 1, 2 ,-2147483648,2147483647,x,,3")], "corpus", out, &mut known);
    run_case(Sec::Editor, &[s("Bookmarks: 2147483648, -2147483647 ,+5,0x10,1e3,")], "corpus", out, &mut known);
    run_case(Sec::General, &[s("StackLeniency: 2147483648")], "corpus", out, &mut known);
    run_case(Sec::Difficulty, &[s("OverallDifficulty:8"), s("ApproachRate:9"), s("OverallDifficulty:7")], "corpus", out, &mut known);
    run_case(Sec::Difficulty, &[s("SliderMultiplier:3.7"), s("SliderTickRate:0.1")], "corpus", out, &mut known);
    run_case(Sec::Events, &[s("4,Background,Centre,\"sb.png\",320,240"), s("4,Background,Centre,\"sb2.png\",320,240"), s("1,0,\"old.jpg\""), s("0,0,\"bg.png\",0,0")], "corpus", out, &mut known);
    run_case(Sec::Events, &[s("2,500,100"), s("2,-0,0"), s("2,0,-0")], "corpus", out, &mut known);
    // breaks between the two zeros (both sign orders), equal start and end, reversed breaks
    for l in ["2,-0,0", "2,0,-0", "2,-0,-0", "2,0,0", "Break,-0.0,0e5", "2,100,100", "2,-7.5,-7.5", "2,900,100", "2,0,-5", "2,-0,-5e-324", "2,5e-324,-0"] {
        run_case(Sec::Events, &[s(l)], "corpus.break", out, &mut known);
    }
    run_case(Sec::Colors, &[s("Combo1 : 1,2,3"), s("SliderBorder: 4,5,6,7"), s("SliderBorder: 8,9,10")], "corpus", out, &mut known);

    // (a) the key x value x decoration matrix
    for sec in [Sec::General, Sec::Editor, Sec::Metadata, Sec::Difficulty] {
        for &(key, _, conv) in keys_of(sec) {
            let vals = values_for(conv);
            for (val, class) in &vals {
                for deco in DECORATIONS {
                    // quick tier: every value plain, and a third of the decorated forms
                    if !thorough && deco != "plain" && !r.chance(1, 5) {
                        continue;
                    }
                    let line = decorate(key, val, deco);
                    out.count(&format!("matrix.value.{class}"));
                    out.count(&format!("matrix.deco.{deco}"));
                    if r.chance(1, 2) || deco == "plain" {
                        run_case(sec, &[line.clone()], "matrix.single", out, &mut known);
                    }
                    if thorough || r.chance(1, 3) {
                        let first = decorate(key, &valid_value(conv, &mut r), "space");
                        run_case(sec, &[first, line], "matrix.after_valid", out, &mut known);
                    }
                }
            }
        }
    }
    // (a') comment stripping next to single slashes: every key, values that contain lone
    // slashes, every shape of trailing comment (always run, both tiers)
    for sec in [Sec::General, Sec::Editor, Sec::Metadata, Sec::Difficulty] {
        for &(key, _, conv) in keys_of(sec) {
            for val in ["a/b", "dir/a.mp3", "/", "a/", "/a", "1/2", "a/b/c", "a / b", "7", "1.5"] {
                for tail in [" // x", "//x", " //", "/// x", " // / //", " / // x", "/ /", " /", "// a/b"] {
                    let line = format!("{key}: {val}{tail}");
                    out.count("slash.kv");
                    run_case(sec, &[line.clone()], "slash.single", out, &mut known);
                    if thorough || r.chance(1, 4) {
                        let first = decorate(key, &valid_value(conv, &mut r), "space");
                        run_case(sec, &[first, line], "slash.after_valid", out, &mut known);
                    }
                }
            }
        }
    }
    for name in ["\"dir/bg.jpg\"", "dir/bg.jpg", "\"a/b/c.png\"", "\"/bg.jpg\"", "\"bg.jpg/\"", "\"d/v.mp4\"", "\"d\\e/f.png\""] {
        for tail in [" // c", "//c", " //", " / // c", ",0,0 // c", ",0,0 / // c"] {
            for ty in ["0", "Video", "4"] {
                let line = if ty == "4" { format!("4,Background,Centre,{name}{tail}") } else { format!("{ty},0,{name}{tail}") };
                out.count("slash.event");
                run_case(Sec::Events, &[line.clone()], "slash.event", out, &mut known);
                run_case(Sec::Events, &[s("0,0,\"first.png\",0,0"), line], "slash.event", out, &mut known);
            }
        }
    }
    for key in COLOUR_KEYS {
        for line in [format!("{key} : 1,2,3 // x"), format!("{key} : 1,2,3 / // x"), format!("{key} : 1/2,2,3 // x"), format!("{key} : 10,20,30// / x")] {
            out.count("slash.colour");
            run_case(Sec::Colors, &[s("SliderBorder: 9,9,9"), line], "slash.colour", out, &mut known);
        }
    }
    // colour matrix
    for key in COLOUR_KEYS {
        for (val, _) in colour_values() {
            for deco in &DECORATIONS[..15] {
                if *deco != "plain" && !(thorough || r.chance(1, 8)) {
                    continue;
                }
                let line = decorate(key, &val, deco);
                run_case(Sec::Colors, &[s("SliderBorder: 9,9,9"), line], "matrix.colour", out, &mut known);
            }
        }
    }
    // event matrix: every file name under every file-carrying event, with and
    // without an earlier background
    for name in event_file_names() {
        for ty in ["0", "Background", "1", "Video", "4", "Sprite"] {
            let line = if ty == "4" || ty == "Sprite" { format!("{ty},Background,Centre,{name},320,240") } else { format!("{ty},0,{name},0,0") };
            run_case(Sec::Events, &[line.clone()], "matrix.event", out, &mut known);
            run_case(Sec::Events, &[s("0,0,\"first.png\",0,0"), line.clone()], "matrix.event", out, &mut known);
            if thorough {
                run_case(Sec::Events, &[line.clone(), s("4,Background,Centre,\"later.png\",320,240")], "matrix.event", out, &mut known);
                run_case(Sec::Events, &[format!("{line} // c")], "matrix.event", out, &mut known);
            }
        }
    }
    {
        let fv = float_values();
        for (a, _) in &fv {
            if thorough || r.chance(1, 2) {
                run_case(Sec::Events, &[format!("2,{a},1000")], "matrix.break", out, &mut known);
                run_case(Sec::Events, &[format!("2,1000,{a}")], "matrix.break", out, &mut known);
            }
        }
    }

    // (b') numeric stress through an f64 field, an f32 field and an i32 field
    let n = if thorough { 40000 } else { 2500 };
    for i in 0..n {
        let text = numeric_text(&mut r, out);
        match i % 5 {
            0 | 1 => run_case(Sec::Editor, &[format!("DistanceSpacing:{text}")], "numeric", out, &mut known),
            2 | 3 => run_case(Sec::Difficulty, &[format!("HPDrainRate: {text}")], "numeric", out, &mut known),
            _ => run_case(Sec::Events, &[format!("2,{text},{}", numeric_text(&mut r, out))], "numeric", out, &mut known),
        }
    }
    for _ in 0..(if thorough { 5000 } else { 500 }) {
        let n: i64 = match r.below(4) {
            0 => r.range(-300, 300),
            1 => 2147483647 - r.range(-3, 3),
            2 => -2147483647 + r.range(-3, 3),
            _ => (r.next() % (1u64 << 33)) as i64 - (1i64 << 32),
        };
        let text = if r.chance(1, 6) { format!("+{n}") } else if r.chance(1, 6) { format!("{:03}", n) } else { format!("{n}") };
        run_case(Sec::General, &[format!("PreviewTime:{text}"), format!("AudioLeadIn: {text} ")], "numeric.int", out, &mut known);
        run_case(Sec::Colors, &[format!("Combo1:{text},{},{}", n.rem_euclid(300), n.rem_euclid(256))], "numeric.int", out, &mut known);
    }

    // (b'') which characters are trimmed around a key and a value: sweep over code points
    {
        let mut cps: Vec<u32> = vec![];
        if thorough {
            cps.extend(0..=0xFFFFu32);
            cps.extend((0x10000..=0x10FFFFu32).step_by(257));
        } else {
            cps.extend(0..=0xFFu32);
            cps.extend(0x1670..=0x1690u32);
            cps.extend(0x2000..=0x2070u32);
            cps.extend(0x2FF0..=0x3010u32);
            cps.extend([0x180E, 0xFEFF, 0xE000, 0xFFFD, 0x10000, 0x10FFFF]);
        }
        for cp in cps {
            let Some(c) = char::from_u32(cp) else { continue };
            if c == ':' {
                continue; // covered by the extra-colon shapes
            }
            out.count(if c.is_whitespace() { "trim_sweep.white_space" } else { "trim_sweep.other" });
            run_case(Sec::Metadata, &[format!("{c}BeatmapID{c}:{c}7{c}"), format!("Title:{c}t{c}")], "trim_sweep", out, &mut known);
        }
    }

    // (c) random sequences
    let n = if thorough { 30000 } else { 2500 };
    for i in 0..n {
        let sec = SECTIONS[i % 6];
        let len = if i % 17 == 0 { r.range(10, 24) } else { r.range(1, 8) } as usize;
        let mut lines: Vec<String> = vec![];
        for _ in 0..len {
            if !lines.is_empty() && r.chance(1, 8) {
                // duplicate of an earlier line (last valid occurrence wins)
                let l = r.pick(&lines).clone();
                out.count("line.duplicate");
                lines.push(l);
            } else {
                lines.push(random_line(sec, &mut r, out));
            }
        }
        run_case(sec, &lines, "random", out, &mut known);
    }
    out.count_n("oracle.known.D14.total", known.d14 as u64);
}

//! C17: computed paths follow the exact curves within tolerance.
//! Correspondence goes through the `c16` entry (bit-exact vertex lists incl.
//! arcs); the oracle measures the path against exactly evaluated curves
//! (de Casteljau, circumcircle, Catmull-Rom polynomial, all in f64).
use crate::out::Out;
use crate::registry::c16::{
    all_layouts, case_line, describe, dump_curve, has_nan_inf, impl_curve, make, positions, Coord, Cp, CurveCase, Shape,
};
use crate::proto::Line;
use crate::rng::Rng;
use rosu_map::util::Pos;

pub const RULE: &str = "a case is non-trivial when at least one segment is a Bezier, arc or Catmull segment with a path of more than 2 vertices";

type P2 = (f64, f64);

fn p2(c: &Cp) -> P2 {
    (c.x as f64, c.y as f64)
}
fn sub(a: P2, b: P2) -> P2 {
    (a.0 - b.0, a.1 - b.1)
}
fn norm(a: P2) -> f64 {
    (a.0 * a.0 + a.1 * a.1).sqrt()
}
fn seg_dist(p: P2, a: P2, b: P2) -> f64 {
    let ab = sub(b, a);
    let l2 = ab.0 * ab.0 + ab.1 * ab.1;
    if l2 == 0.0 {
        return norm(sub(p, a));
    }
    let t = (((p.0 - a.0) * ab.0 + (p.1 - a.1) * ab.1) / l2).clamp(0.0, 1.0);
    norm(sub(p, (a.0 + ab.0 * t, a.1 + ab.1 * t)))
}
fn poly_dist(p: P2, poly: &[P2]) -> f64 {
    if poly.len() == 1 {
        return norm(sub(p, poly[0]));
    }
    poly.windows(2).map(|w| seg_dist(p, w[0], w[1])).fold(f64::INFINITY, f64::min)
}

/// the segments of a control-point list, from the property text: a typed
/// point ends the running segment and starts the next one; the last point
/// ends the last segment.  (kind, points)
pub fn segments(pts: &[Cp]) -> Vec<(u8, Vec<Cp>)> {
    let mut v = vec![];
    let n = pts.len();
    let mut start = 0usize;
    for i in 0..n {
        if pts[i].ty == 0 && i + 1 < n {
            continue;
        }
        let seg = pts[start..=i].to_vec();
        let kind = if pts[start].ty == 0 { 3 } else { pts[start].ty };
        v.push((kind, seg));
        start = i;
    }
    v
}

fn bezier_eval(ctrl: &[P2], t: f64) -> P2 {
    let mut w = ctrl.to_vec();
    let n = w.len();
    for k in 1..n {
        for j in 0..n - k {
            w[j] = (w[j].0 * (1.0 - t) + w[j + 1].0 * t, w[j].1 * (1.0 - t) + w[j + 1].1 * t);
        }
    }
    w[0]
}

fn catmull_eval(v1: P2, v2: P2, v3: P2, v4: P2, t: f64) -> P2 {
    let f = |a: f64, b: f64, c: f64, d: f64| {
        0.5 * (2.0 * b + (-a + c) * t + (2.0 * a - 5.0 * b + 4.0 * c - d) * t * t + (-a + 3.0 * b - 3.0 * c + d) * t * t * t)
    };
    (f(v1.0, v2.0, v3.0, v4.0), f(v1.1, v2.1, v3.1, v4.1))
}
/// sup of |B''| over [0,1] for one Catmull span (B'' is linear in t)
fn catmull_second(v1: P2, v2: P2, v3: P2, v4: P2) -> f64 {
    let s = |a: f64, b: f64, c: f64, d: f64, t: f64| 0.5 * (2.0 * (2.0 * a - 5.0 * b + 4.0 * c - d) + 6.0 * (-a + 3.0 * b - 3.0 * c + d) * t);
    let at = |t: f64| norm((s(v1.0, v2.0, v3.0, v4.0, t), s(v1.1, v2.1, v3.1, v4.1, t)));
    at(0.0).max(at(1.0))
}

struct Exact {
    /// dense samples of the exact curve
    samples: Vec<P2>,
    /// bound for path-vertex -> curve, and for curve -> path
    bound_v: f64,
    bound_c: f64,
    kind: &'static str,
    checked: bool,
    /// known-finding class of failures on this segment ("" = none)
    class: &'static str,
}

const EPS32: f64 = 1.1920929e-7;

/// exact arc through a, b, c (None: collinear)
fn exact_arc(a: P2, b: P2, c: P2) -> Option<(P2, f64, f64, f64, f64)> {
    let d = 2.0 * (a.0 * (b.1 - c.1) + b.0 * (c.1 - a.1) + c.0 * (a.1 - b.1));
    if d == 0.0 {
        return None;
    }
    let sq = |p: P2| p.0 * p.0 + p.1 * p.1;
    let cx = (sq(a) * (b.1 - c.1) + sq(b) * (c.1 - a.1) + sq(c) * (a.1 - b.1)) / d;
    let cy = (sq(a) * (c.0 - b.0) + sq(b) * (a.0 - c.0) + sq(c) * (b.0 - a.0)) / d;
    let r = norm(sub(a, (cx, cy)));
    let ta = (a.1 - cy).atan2(a.0 - cx);
    let mut tc = (c.1 - cy).atan2(c.0 - cx);
    while tc < ta {
        tc += 2.0 * std::f64::consts::PI;
    }
    let mut range = tc - ta;
    let mut dir = 1.0;
    // b must lie on the arc: side of AC on which B lies
    let ortho = (c.1 - a.1, -(c.0 - a.0));
    if ortho.0 * (b.0 - a.0) + ortho.1 * (b.1 - a.1) < 0.0 {
        dir = -1.0;
        range = 2.0 * std::f64::consts::PI - range;
    }
    Some(((cx, cy), r, ta, dir, range))
}

fn exact_of(kind: u8, seg: &[Cp], osu: bool) -> Exact {
    let c: Vec<P2> = seg.iter().map(p2).collect();
    let mag = c.iter().fold(0.0f64, |m, p| m.max(p.0.abs()).max(p.1.abs()));
    let slack = 0.02 + 2e-5 * mag;
    let poly_len: f64 = c.windows(2).map(|w| norm(sub(w[1], w[0]))).sum();
    let nsamp = ((poly_len * 4.0) as usize).clamp(64, 20000);
    let bez = |c: &[P2]| -> Exact {
        let n = (c.len() - 1) as f64;
        // flat pieces: every second difference <= 0.5 (length_squared <= 4 * 0.25^2):
        // control points within n^2/8 * 0.5 and curve within n(n-1)/8 * 0.5 of the chord
        // Proved in exact arithmetic for the whole subdivision loop: coq/Properties/C17.v,
        // C17_bezier_hausdorff with Kbez n = n (2n - 1) / 8 * (2 * 0.25) -- the first term below,
        // both ways (vertex -> curve, curve -> polyline).  `slack` is the allowance for the
        // binary32 evaluation, which the theorem (over the reals) does not cover.
        let b = 0.5 * n * (2.0 * n - 1.0) / 8.0 + slack;
        Exact {
            samples: (0..=nsamp).map(|i| bezier_eval(c, i as f64 / nsamp as f64)).collect(),
            bound_v: b,
            bound_c: b,
            kind: "bezier",
            checked: true,
            class: "",
        }
    };
    match kind {
        3 => Exact { samples: c.clone(), bound_v: slack, bound_c: slack, kind: "linear", checked: true, class: "" },
        2 => bez(&c),
        4 => {
            if c.len() != 3 {
                return bez(&c);
            }
            // the implementation's own collinearity test decides the fall-back;
            // exactly collinear points have no circle at all
            let det32 = ((seg[1].y - seg[0].y) * (seg[2].x - seg[0].x) - (seg[1].x - seg[0].x) * (seg[2].y - seg[0].y)).abs();
            match exact_arc(c[0], c[1], c[2]) {
                Some((ctr, r, ta, dir, range)) if det32 > f32::EPSILON => {
                    // enormous arcs (>= 1000 sub-points) fall back to Bezier
                    let per = if 2.0 * r <= 0.1 { f64::INFINITY } else { 2.0 * (1.0 - 0.1 / r).acos() };
                    let want = if per > 0.0 { range / per } else { 0.0 };
                    // D14: beyond a circum-radius of ~1e6 the f32 expression 1 - 0.1/r is 1, the
                    // sub-point count degenerates to 2 and the vertices carry errors of ulp(r):
                    // measured against the tolerance-only bound, failures are the known class
                    let huge = r > 1.0e6;
                    if want > 1100.0 {
                        let mut e = bez(&c);
                        e.kind = if huge { "perfect-radius>1e6(enormous)" } else { "perfect-enormous->bezier" };
                        e.class = if huge { "D19" } else { "" };
                        return e;
                    }
                    if want > 900.0 && !huge {
                        // too close to the cap to predict which routine ran
                        return Exact { samples: vec![], bound_v: 0.0, bound_c: 0.0, kind: "perfect-near-cap", checked: false, class: "" };
                    }
                    let side = c.windows(2).map(|w| norm(sub(w[1], w[0]))).fold(norm(sub(c[2], c[0])), f64::max);
                    let d = 2.0 * (c[0].0 * (c[1].1 - c[2].1) + c[1].0 * (c[2].1 - c[0].1) + c[2].0 * (c[0].1 - c[1].1));
                    // f32 evaluation of the circum-centre: conditioning of the two quotients
                    let cond = 8.0 * EPS32 * mag * side / d.abs() * (mag + norm(ctr)) + 8.0 * EPS32 * (norm(ctr) + r);
                    let sl = if huge { slack } else { slack + cond };
                    let steps = ((range * r / 0.25).max(range / 0.002) as usize).clamp(64, 20000);
                    Exact {
                        samples: (0..=steps)
                            .map(|i| {
                                let th = ta + dir * range * (i as f64 / steps as f64);
                                (ctr.0 + r * th.cos(), ctr.1 + r * th.sin())
                            })
                            .collect(),
                        // vertices lie on the circle.  The polyline's sagitta: the tolerance 0.1 is met
                        // for `sub_points` *segments*, the code emits sub_points *points*, i.e. one segment
                        // less: the angle per segment grows by n/(n-1) <= 2, the sagitta by <= 4
                        // (+ the f32 quantisation of 1 - 0.1/r before acos)
                        // Proved in exact arithmetic: C17_arc_hausdorff -- vertices ON the arc (bound_v is
                        // rounding slack only), arc and chords within 4 * 0.1 = 0.4 of each other (sharp form
                        // 4 tol - 2 tol^2 / r); C17_arc_tolerance_0_1_refuted: 0.38 is reached at r = 1, so
                        // 0.1 itself would be a false alarm.  0.45 = 0.4 + 0.05 for the f32 quantisation above.
                        bound_v: sl,
                        bound_c: 0.45 + sl,
                        kind: if huge { "arc-radius>1e6" } else { "arc" },
                        checked: huge || sl < 5.0,
                        class: if huge { "D19" } else { "" },
                    }
                }
                other => {
                    let mut e = bez(&c);
                    e.kind = "perfect-collinear->bezier";
                    // exactly collinear points (infinite radius) whose determinant, rounded in f32,
                    // is not within f32::EPSILON of 0: the code does not fall back -- D14 as well
                    if other.is_none() && det32 > f32::EPSILON {
                        e.kind = "perfect-collinear(f32 det nonzero)";
                        e.class = "D19";
                    }
                    e
                }
            }
        }
        _ => {
            // uniform Catmull-Rom, 50 steps per span
            let n = c.len();
            let mut samples = vec![];
            let mut second = 0.0f64;
            for i in 0..n - 1 {
                let v1 = if i > 0 { c[i - 1] } else { c[i] };
                let v2 = c[i];
                let v3 = c[i + 1];
                let v4 = if i + 2 < n { c[i + 2] } else { (v3.0 * 2.0 - v2.0, v3.1 * 2.0 - v2.1) };
                second = second.max(catmull_second(v1, v2, v3, v4));
                let per = (nsamp / (n - 1)).max(200);
                for k in 0..=per {
                    samples.push(catmull_eval(v1, v2, v3, v4, k as f64 / per as f64));
                }
            }
            // Proved in exact arithmetic: C17_catmull_span_hausdorff -- the vertices are ON the
            // Catmull-Rom curve (bound_v is rounding slack only) and chord k stays within
            // S / 8 / 2500 of the curve, S >= |P''(0)|, |P''(1)| (P'' is affine: `second` is that S);
            // C17_catmull_simplification_hausdorff -- kept and full polyline within 6 px, both ways.
            let chord = second / 8.0 / 2500.0; // (1/50)^2 * sup|B''| / 8
            let simp = if osu { 6.0 } else { 0.0 }; // osu!: vertices within 6 px of the last kept one are dropped
            Exact { samples, bound_v: slack + 10.0 * EPS32 * 12.0 * mag, bound_c: chord + simp + slack + 10.0 * EPS32 * 12.0 * mag, kind: "catmull", checked: true, class: "" }
        }
    }
}

pub fn run_case(c: &CurveCase, out: &mut Out) {
    let line = case_line(c);
    let cur = impl_curve(c);
    let mut res = Line::new();
    let desc = describe(c);
    let cv = match &cur {
        Ok(cv) => {
            res.u(0);
            dump_curve(&mut res, cv.path(), cv.lengths());
            cv
        }
        Err(e) => {
            res.u(1);
            out.fail("", &desc, &format!("panic: {}", e));
            out.case(line.0, res.0, desc, false);
            return;
        }
    };
    let path: Vec<P2> = cv.path().iter().map(|p| (p.x as f64, p.y as f64)).collect();
    let segs = segments(&c.pts);
    let mut nontrivial = false;
    let in_quant = !has_nan_inf(&c.pts) && c.len.is_none() && !c.pts.is_empty();
    if in_quant {
        let osu = c.mode == 0;
        let exact: Vec<Exact> = segs.iter().filter(|(_, s)| s.len() >= 2).map(|(k, s)| exact_of(*k, s, osu)).collect();
        for e in &exact {
            out.count(&format!("segment:{}", e.kind));
            if e.kind != "linear" && path.len() > 2 {
                nontrivial = true;
            }
        }
        let all_checked = exact.iter().all(|e| e.checked);
        let class = if exact.iter().any(|e| e.class == "D19") { "D19" } else { "" };
        let mut fail = |out: &mut Out, det: String| {
            if class == "D19" {
                out.count("oracle:D14");
                if out.dist.get("oracle:D14").copied().unwrap_or(0) > 30 {
                    return;
                }
            }
            out.fail(class, &desc, &det);
        };
        if !all_checked {
            out.count("oracle:ill-conditioned-arc(not measured)");
        }
        if all_checked && !path.is_empty() {
            // (1) every path vertex lies within the bound of the exact curves
            out.oracle_checks += 1;
            let single: Vec<P2> = if exact.is_empty() { vec![p2(&c.pts[0])] } else { vec![] };
            let mut worst = 0.0f64;
            for (i, v) in path.iter().enumerate() {
                let mut best = f64::INFINITY;
                let mut slack_of_best = 0.0;
                for e in &exact {
                    let d = poly_dist(*v, &e.samples) - e.bound_v;
                    if d < best {
                        best = d;
                        slack_of_best = e.bound_v;
                    }
                }
                if !single.is_empty() {
                    best = norm(sub(*v, single[0])) - 1e-6;
                }
                worst = worst.max(best + slack_of_best);
                if !(best <= 0.0) {
                    fail(out, format!("path vertex {} ({}, {}) is {:e} beyond the bound {:e} from the exact curve", i, v.0, v.1, best, slack_of_best));
                    break;
                }
            }
            // (2) the exact curve lies within the bound of the path
            out.oracle_checks += 1;
            'outer: for e in &exact {
                let step = (e.samples.len() / 1500).max(1);
                for (k, s) in e.samples.iter().enumerate() {
                    if k % step != 0 && k + 1 != e.samples.len() {
                        continue;
                    }
                    let d = poly_dist(*s, &path);
                    if !(d <= e.bound_c) {
                        fail(out, format!("exact {} curve point ({}, {}) is {:e} from the path, bound {:e}", e.kind, s.0, s.1, d, e.bound_c));
                        break 'outer;
                    }
                }
            }
            let _ = worst;
        }
        // (3) segment boundaries: each segment starts at its first control point and ends at its last
        out.oracle_checks += 1;
        if !path.is_empty() && all_checked {
            let mut from = 0usize;
            let mut bounds: Vec<(P2, f64)> = vec![];
            let slack_of = |k: u8, s: &[Cp]| exact_of(k, s, false).bound_v.max(1e-6);
            bounds.push((p2(&c.pts[0]), 1e-6));
            for (k, s) in &segs {
                if s.len() >= 2 {
                    let sl = match *k {
                        3 | 2 => 1e-9,
                        4 if !exact_of(*k, s, false).kind.starts_with("arc") => 1e-9,
                        _ => slack_of(*k, s),
                    };
                    bounds.push((p2(&s[0]), sl));
                    bounds.push((p2(&s[s.len() - 1]), sl));
                }
            }
            for (b, sl) in bounds {
                match (from..path.len()).find(|&i| norm(sub(path[i], b)) <= sl) {
                    Some(i) => from = i,
                    None => {
                        fail(out, format!("no path vertex at the segment boundary ({}, {}) (slack {:e}) after index {}", b.0, b.1, sl, from));
                        break;
                    }
                }
            }
        }
        // (4) composition: the path is the concatenation of the segments' own paths,
        // a joint vertex produced identically by two consecutive segments appearing once;
        // perfect-curve fall-backs equal the Bezier of the same points
        let arc_free = exact.iter().all(|e| !e.kind.starts_with("arc") && e.kind != "perfect-near-cap");
        if arc_free && segs.len() >= 1 {
            out.oracle_checks += 1;
            let mut expect: Vec<Pos> = vec![];
            let mut ok = true;
            for (k, s) in &segs {
                let mut sp = s.clone();
                for q in sp.iter_mut() {
                    q.ty = 0;
                }
                // fall-back: a perfect curve here is, by the checks above, not an arc
                sp[0].ty = if *k == 4 { 2 } else { *k };
                let piece = match impl_curve(&CurveCase { mode: c.mode, pts: sp, len: None }) {
                    Ok(p) => p,
                    Err(_) => {
                        ok = false;
                        break;
                    }
                };
                for (j, v) in piece.path().iter().enumerate() {
                    if j == 0 && expect.last().map_or(false, |l| l == v) {
                        continue;
                    }
                    expect.push(*v);
                }
            }
            let bits = |p: &Pos| (p.x.to_bits(), p.y.to_bits());
            if ok && (expect.len() != cv.path().len() || expect.iter().zip(cv.path()).any(|(a, b)| bits(a) != bits(b))) {
                fail(out, format!("path ({} vertices) is not the joint-deduplicated concatenation of its segments' paths ({} vertices)", cv.path().len(), expect.len()));
            }
        }
    } else {
        out.count("oracle:outside-quantifier");
    }
    out.count(&format!("mode:{}", c.mode));
    out.count(&format!("segments:{}", segs.len().min(6)));
    out.case(line.0, res.0, desc, nontrivial);
}

fn cheap(pts: &[Cp], budget: usize) -> bool {
    !crate::registry::c16::too_expensive(pts, budget)
}

pub fn generate(tier: &str, seed: u64, out: &mut Out) {
    let mut r = Rng::new(seed ^ 0xC17);
    let thorough = tier == "thorough";
    let z = |x: f32, y: f32, ty: u8| Cp { x, y, ty, deg: 0 };

    // ---- corpus: fall-backs and special arcs
    let corpus: Vec<Vec<Cp>> = vec![
        // collinear perfect curve -> Bezier
        vec![z(0.0, 0.0, 4), z(5.0, 5.0, 0), z(10.0, 10.0, 0)],
        // perfect curve with 2 and 4 points -> Bezier
        vec![z(0.0, 0.0, 4), z(5.0, 7.0, 0)],
        vec![z(0.0, 0.0, 4), z(5.0, 7.0, 0), z(9.0, 1.0, 0), z(12.0, 6.0, 0)],
        // enormous arc (>= 1000 sub-points) -> Bezier
        vec![z(-100000.0, 0.0, 4), z(0.0, 100000.0, 0), z(100000.0, 0.0, 0)],
        // tiny radius (2r <= tolerance): two points
        vec![z(0.0, 0.0, 4), z(0.02, 0.02, 0), z(0.04, 0.0, 0)],
        // half circle, both orientations
        vec![z(0.0, 0.0, 4), z(50.0, 50.0, 0), z(100.0, 0.0, 0)],
        vec![z(0.0, 0.0, 4), z(50.0, -50.0, 0), z(100.0, 0.0, 0)],
        // more than half a circle
        vec![z(0.0, 0.0, 4), z(50.0, 120.0, 0), z(10.0, 0.0, 0)],
        // near-collinear, huge radius
        vec![z(-4096.0, 0.0, 4), z(0.0, 2.5, 0), z(4096.0, 0.0, 0)],
        vec![z(-4096.0, 0.0, 4), z(0.0, 0.25, 0), z(4096.0, 0.0, 0)],
        // D14: exactly collinear as f32 values but a non-zero f32 determinant; vertex 700 px off; NaN vertex
        vec![z(-141.525, -227.33333, 4), z(-166.24374, -138.25, 0), z(-67.368744, -494.5833, 0)],
        vec![z(717.0, 307.0, 4), z(585.0, -6966.999, 0), z(684.0, -1511.5, 0)],
        vec![z(-164.325, 621.3334, 4), z(-224.025, -27.333334, 0), z(-209.09999, 134.83334, 0)],
        // joint produced identically by two segments
        vec![z(0.0, 0.0, 3), z(10.0, 0.0, 2), z(10.0, 10.0, 0), z(20.0, 15.0, 3), z(30.0, 15.0, 0)],
        // Catmull with repeated points
        vec![z(0.0, 0.0, 1), z(0.0, 0.0, 0), z(30.0, 10.0, 0), z(30.0, 10.0, 0), z(60.0, -10.0, 0)],
    ];
    for pts in corpus {
        for mode in [0u8, 1] {
            run_case(&CurveCase { mode, pts: pts.clone(), len: None }, out);
        }
    }

    // ---- exhaustive small integer grid for three-point arcs
    let g: Vec<i32> = if thorough { (-4..=4).collect() } else { vec![-3, -1, 0, 2, 4] };
    let mut cnt = 0usize;
    for &bx in &g {
        for &by in &g {
            for &cx in &g {
                for &cy in &g {
                    cnt += 1;
                    if !thorough && cnt % 2 == 0 {
                        continue;
                    }
                    let pts = vec![z(0.0, 0.0, 4), z(bx as f32, by as f32, 0), z(cx as f32, cy as f32, 0)];
                    out.count("source:arc-grid");
                    run_case(&CurveCase { mode: (cnt % 4) as u8, pts, len: None }, out);
                }
            }
        }
    }

    // ---- arcs: all orientations, near-collinear, tiny and huge radii
    let n_arc = if thorough { 4000 } else { 500 };
    for i in 0..n_arc {
        let k = *r.pick(&[Coord::Playfield, Coord::Large, Coord::Fractional, Coord::Tiny, Coord::SmallInt]);
        let s = *r.pick(&[Shape::Free, Shape::Free, Shape::NearCollinear, Shape::Collinear, Shape::Duplicates]);
        let pos = positions(&mut r, 3, k, s);
        let pts = make(&pos, &[(4, 0), (0, 0), (0, 0)]);
        if !cheap(&pts, 80_000) {
            continue;
        }
        out.count("source:arc-random");
        run_case(&CurveCase { mode: (i % 4) as u8, pts, len: None }, out);
    }
    // constructed: three points on a circle of chosen radius
    for i in 0..(if thorough { 1200 } else { 150 }) {
        let rad = *r.pick(&[0.03f64, 0.2, 1.0, 7.0, 60.0, 400.0, 3000.0, 20000.0, 150000.0, 2.0e6]);
        let (cx, cy) = (r.range(-500, 500) as f64, r.range(-400, 400) as f64);
        let t0 = r.unit() * 6.28;
        let span = r.unit() * (if rad > 3000.0 { 4000.0 / rad } else { 5.5 }) + 1e-3;
        let dir = if r.chance(1, 2) { 1.0 } else { -1.0 };
        let f = |t: f64| Cp { x: (cx + rad * t.cos()) as f32, y: (cy + rad * t.sin()) as f32, ty: 0, deg: 0 };
        let mut pts = vec![f(t0), f(t0 + dir * span * r.unit()), f(t0 + dir * span)];
        pts[0].ty = 4;
        if !cheap(&pts, 80_000) {
            continue;
        }
        out.count("source:arc-on-circle");
        run_case(&CurveCase { mode: (i % 4) as u8, pts, len: None }, out);
    }

    // ---- Bezier with 2..10 control points, Catmull with 2..8, linear
    let n_b = if thorough { 3500 } else { 400 };
    for i in 0..n_b {
        let (ty, n) = match i % 3 {
            0 => (2u8, r.range(2, 10) as usize),
            1 => (1u8, r.range(2, 8) as usize),
            _ => (*r.pick(&[3u8, 2, 1]), r.range(2, 6) as usize),
        };
        let k = *r.pick(&[Coord::Playfield, Coord::Playfield, Coord::Large, Coord::Fractional, Coord::SmallInt, Coord::Tiny]);
        let s = *r.pick(&[Shape::Free, Shape::Free, Shape::Free, Shape::Duplicates, Shape::Collinear, Shape::NearCollinear]);
        let pos = positions(&mut r, n, k, s);
        let mut lay = vec![(0u8, 0i32); n];
        lay[0] = (ty, if ty == 2 && r.chance(1, 3) { r.range(1, 4) as i32 } else { 0 });
        let pts = make(&pos, &lay);
        if !cheap(&pts, 60_000) {
            continue;
        }
        out.count("source:single-segment");
        run_case(&CurveCase { mode: (i % 4) as u8, pts, len: None }, out);
    }

    // ---- multi-segment combinations: every type layout on short lists, random ones on longer lists
    let lays = all_layouts(4);
    let step = if thorough { 3 } else { 17 };
    for (li, lay) in lays.iter().enumerate() {
        if li % step != 0 {
            continue;
        }
        let pos = positions(&mut r, 4, Coord::Playfield, if li % 5 == 0 { Shape::Duplicates } else { Shape::Free });
        let pts = make(&pos, lay);
        if !cheap(&pts, 60_000) {
            continue;
        }
        out.count("source:layouts4");
        run_case(&CurveCase { mode: (li % 4) as u8, pts, len: None }, out);
    }
    for i in 0..(if thorough { 2500 } else { 300 }) {
        let pts = crate::registry::c16::random_points(&mut r, 12);
        if crate::registry::c16::max_abs(&pts) > 5000.0 {
            continue;
        }
        out.count("source:multi-segment-random");
        run_case(&CurveCase { mode: (i % 4) as u8, pts, len: None }, out);
    }
}

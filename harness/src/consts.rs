//! `rmh consts <out.json> [Generated.v]`: the constants and tables of
//! `coq/Gen/Generated.v` re-derived from the COMPILED crate by execution
//! (public API plus the `verif-hooks` re-exports), independently of the
//! source text the translator reads.
//!
//! Output: one JSON object, one entry per `Definition` of Generated.v:
//!   {"value": "<text identical to the right-hand side in Generated.v>", "how": "..."}
//!   {"value": null, "why": "..."}                      (not observable)
//!   {"value": null, "why": "...", "partial": {...}}    (only a function of the value is observable)
//! Optional fields: "f64_bits"/"f32_bits" (one hex word per decimal component: the binary value
//! observed, for comparison by value when the decimal text differs), "f64_interval" ([lo, hi) in
//! which the constant was located when only an interval is observable), "unordered" (the list is
//! reported in a canonical order; compare as a set).
//!
//! Scalars are derived without looking at the kept values.  Tables over an infinite domain cannot
//! be enumerated by execution: their candidate rows are the rows kept in Generated.v (read at run
//! time, falling back to the copy embedded at build time) plus built-in negative probes; the
//! reported table is "the kept rows that behave as kept (with the observed right-hand sides), plus
//! every other probe that was accepted".
use crate::util::guarded;
use std::collections::BTreeMap;
use std::io::{BufRead, Read};
use std::str::FromStr;

use rosu_map::section::colors::{Color, Colors, ColorsKey};
use rosu_map::section::difficulty::{Difficulty, DifficultyKey};
use rosu_map::section::editor::{Editor, EditorKey};
use rosu_map::section::events::{BreakPeriod, EventType, Events};
use rosu_map::section::general::{CountdownType, GameMode, General, GeneralKey};
use rosu_map::section::hit_objects::hit_samples::{
    HitSampleInfo, HitSoundType, SampleBank, SampleBankInfo,
};
use rosu_map::section::hit_objects::{
    Curve, CurveBuffers, HitObjectKind, HitObjectType, HitObjects, PathControlPoint, PathType,
    SliderEventType, SliderEventsIter, SplineType,
};
use rosu_map::section::metadata::{Metadata, MetadataKey};
use rosu_map::section::timing_points::{
    DifficultyPoint, EffectFlags, SamplePoint, TimeSignature, TimingPoint, TimingPoints,
};
use rosu_map::section::Section;
use rosu_map::util::{ParseNumber, Pos, StrExt};
use rosu_map::{verif_hooks, DecodeBeatmap, DecodeState};

const EMBEDDED_GENERATED: &str = include_str!("../../coq/Gen/Generated.v");

// ---------------------------------------------------------------------------------------------
// entries and JSON
// ---------------------------------------------------------------------------------------------

#[derive(Clone, Debug, Default)]
pub struct Entry {
    value: Option<String>,
    /// "how" when value is Some, "why" when None
    note: String,
    /// extra fields, already rendered as JSON values
    extra: Vec<(String, String)>,
}

fn js(s: &str) -> String {
    let mut o = String::from("\"");
    for c in s.chars() {
        match c {
            '"' => o.push_str("\\\""),
            '\\' => o.push_str("\\\\"),
            '\n' => o.push_str("\\n"),
            '\t' => o.push_str("\\t"),
            '\r' => o.push_str("\\r"),
            c if (c as u32) < 0x20 => o.push_str(&format!("\\u{:04x}", c as u32)),
            c => o.push(c),
        }
    }
    o.push('"');
    o
}

fn js_list(items: &[String]) -> String {
    format!("[{}]", items.join(", "))
}

fn val(text: impl Into<String>, how: impl Into<String>) -> Entry {
    Entry { value: Some(text.into()), note: how.into(), extra: vec![] }
}

fn none(why: impl Into<String>) -> Entry {
    Entry { value: None, note: why.into(), extra: vec![] }
}

/// the kept value is refuted by a probe but the new value cannot be determined by execution
fn refuted(what: impl Into<String>, how: impl Into<String>) -> Entry {
    val(format!("REFUTED({})", what.into()), how)
}

impl Entry {
    fn with(mut self, k: &str, json: String) -> Self {
        self.extra.push((k.to_string(), json));
        self
    }
    fn f64_bits(self, xs: &[f64]) -> Self {
        let l: Vec<String> = xs.iter().map(|x| js(&format!("0x{:016x}", x.to_bits()))).collect();
        self.with("f64_bits", js_list(&l))
    }
    fn f32_bits(self, xs: &[f32]) -> Self {
        let l: Vec<String> = xs.iter().map(|x| js(&format!("0x{:08x}", x.to_bits()))).collect();
        self.with("f32_bits", js_list(&l))
    }
    fn interval(self, lo: f64, hi: f64) -> Self {
        let l = vec![js(&format!("0x{:016x}", lo.to_bits())), js(&format!("0x{:016x}", hi.to_bits()))];
        self.with("f64_interval", js_list(&l))
    }
    fn unordered(self) -> Self {
        self.with("unordered", "true".to_string())
    }
    fn render(&self) -> String {
        let mut parts = vec![];
        match &self.value {
            Some(v) => {
                parts.push(format!("\"value\": {}", js(v)));
                parts.push(format!("\"how\": {}", js(&self.note)));
            }
            None => {
                parts.push("\"value\": null".to_string());
                parts.push(format!("\"why\": {}", js(&self.note)));
            }
        }
        for (k, v) in &self.extra {
            parts.push(format!("{}: {}", js(k), v));
        }
        format!("{{{}}}", parts.join(", "))
    }
}

// ---------------------------------------------------------------------------------------------
// the kept definitions (Generated.v)
// ---------------------------------------------------------------------------------------------

pub struct Kept {
    pub names: Vec<String>,
    pub rhs: BTreeMap<String, String>,
    pub source: String,
}

fn parse_generated(text: &str, source: &str) -> Kept {
    let mut names = vec![];
    let mut rhs = BTreeMap::new();
    for line in text.lines() {
        let Some(rest) = line.strip_prefix("Definition ") else { continue };
        let Some((head, body)) = rest.split_once(" := ") else { continue };
        let name = head.split_whitespace().next().unwrap_or("").to_string();
        let body = body.trim_end();
        let body = body.strip_suffix('.').unwrap_or(body);
        names.push(name.clone());
        rhs.insert(name, body.to_string());
    }
    Kept { names, rhs, source: source.to_string() }
}

fn load_kept(explicit: Option<&str>) -> Kept {
    let mut cands: Vec<String> = vec![];
    if let Some(p) = explicit {
        cands.push(p.to_string());
    }
    if let Ok(root) = std::env::var("VERIF_ROOT") {
        cands.push(format!("{root}/coq/Gen/Generated.v"));
    }
    if let Ok(exe) = std::env::current_exe() {
        // <root>/harness/target/release/rmh
        if let Some(root) = exe.ancestors().nth(4) {
            cands.push(root.join("coq/Gen/Generated.v").to_string_lossy().to_string());
        }
    }
    for c in cands {
        if let Ok(t) = std::fs::read_to_string(&c) {
            return parse_generated(&t, &c);
        }
    }
    parse_generated(EMBEDDED_GENERATED, "copy embedded at build time")
}

/// every `"..."` of a Coq list/tuple text (`""` is an escaped quote)
fn coq_strings(text: &str) -> Vec<String> {
    let cs: Vec<char> = text.chars().collect();
    let mut out = vec![];
    let mut i = 0;
    while i < cs.len() {
        if cs[i] == '"' {
            let mut s = String::new();
            i += 1;
            while i < cs.len() {
                if cs[i] == '"' {
                    if i + 1 < cs.len() && cs[i + 1] == '"' {
                        s.push('"');
                        i += 2;
                        continue;
                    }
                    break;
                }
                s.push(cs[i]);
                i += 1;
            }
            out.push(s);
        }
        i += 1;
    }
    out
}

fn coq_str(s: &str) -> String {
    format!("\"{}\"", s.replace('"', "\"\""))
}

fn coq_string_list(v: &[String]) -> String {
    format!("[{}]", v.iter().map(|s| coq_str(s)).collect::<Vec<_>>().join("; "))
}

fn coq_pair_list(v: &[(String, i64)]) -> String {
    format!("[{}]", v.iter().map(|(a, b)| format!("({}, {})", coq_str(a), b)).collect::<Vec<_>>().join("; "))
}

// ---------------------------------------------------------------------------------------------
// decimals
// ---------------------------------------------------------------------------------------------

/// The decimal triple the translator writes for a float literal, from the shortest decimal text
/// that reads back as the observed binary value (Rust's shortest `Display`, with ".0" appended to
/// a whole number: the way such a literal is written in Rust source).
fn dec_of_text(s: &str) -> String {
    let (neg, s) = match s.strip_prefix('-') {
        Some(r) => (true, r),
        None => (false, s),
    };
    let (ip, fp) = s.split_once('.').unwrap_or((s, ""));
    let digits = format!("{ip}{fp}");
    let mant = digits.trim_start_matches('0');
    let mant = if mant.is_empty() { "0" } else { mant };
    format!("({}, {}, ({}))", if neg { "true" } else { "false" }, mant, -(fp.len() as i64))
}

fn lit_text(display: String) -> String {
    if display.contains('.') || !display.chars().all(|c| c.is_ascii_digit() || c == '-') {
        display
    } else {
        format!("{display}.0")
    }
}

fn dec64(x: f64) -> String {
    dec_of_text(&lit_text(format!("{x}")))
}

fn dec32(x: f32) -> String {
    dec_of_text(&lit_text(format!("{x}")))
}

fn tuple(parts: &[String]) -> String {
    if parts.len() == 1 {
        parts[0].clone()
    } else {
        format!("({})", parts.join(", "))
    }
}

const DEC_HOW: &str = "decimal = Rust's shortest Display of the observed binary value (\".0\" appended to whole numbers), digits with the dot removed and exponent = -(fractional digits); when the text differs from the kept decimal compare by value with *_bits";

/// the decimal with the fewest significant digits in [lo, hi)
fn shortest_in(lo: f64, hi: f64) -> Option<f64> {
    let mid = lo + (hi - lo) / 2.0;
    for p in 0..=17usize {
        for base in [mid, lo, hi] {
            let s = format!("{:.*e}", p, base);
            if let Ok(c) = s.parse::<f64>() {
                if lo <= c && c < hi {
                    return Some(c);
                }
            }
        }
    }
    None
}

// ---------------------------------------------------------------------------------------------
// searches
// ---------------------------------------------------------------------------------------------

/// largest n in [lo, hi] with ok(n), given ok(lo) and monotone acceptance (None if !ok(lo))
fn bisect_max(lo: i64, hi: i64, ok: impl Fn(i64) -> bool) -> Option<i64> {
    if !ok(lo) {
        return None;
    }
    if ok(hi) {
        return Some(hi);
    }
    let (mut a, mut b) = (lo, hi);
    while b - a > 1 {
        let m = a + (b - a) / 2;
        if ok(m) {
            a = m;
        } else {
            b = m;
        }
    }
    Some(a)
}

/// adjacent positive f64 (a, b) with !p(a) && p(b), given !p(lo) && p(hi) and p monotone
fn bisect_f64(lo: f64, hi: f64, p: impl Fn(f64) -> bool) -> Option<(f64, f64)> {
    if !(lo >= 0.0 && hi > lo) || p(lo) || !p(hi) {
        return None;
    }
    let (mut a, mut b) = (lo.to_bits(), hi.to_bits());
    while b - a > 1 {
        let m = a + (b - a) / 2;
        if p(f64::from_bits(m)) {
            b = m;
        } else {
            a = m;
        }
    }
    Some((f64::from_bits(a), f64::from_bits(b)))
}

fn bisect_f32(lo: f32, hi: f32, p: impl Fn(f32) -> bool) -> Option<(f32, f32)> {
    if !(lo >= 0.0 && hi > lo) || p(lo) || !p(hi) {
        return None;
    }
    let (mut a, mut b) = (lo.to_bits(), hi.to_bits());
    while b - a > 1 {
        let m = a + (b - a) / 2;
        if p(f32::from_bits(m)) {
            b = m;
        } else {
            a = m;
        }
    }
    Some((f32::from_bits(a), f32::from_bits(b)))
}

/// The section headers as the compiled crate reads them: for every section the probes below write
/// its usual header; should the crate read that section under another spelling (found among the
/// case variants and near misses of the usual one, `Colors` for `Colours`, ...), the observed
/// spelling is used instead, so that a changed header shows up in `section_table` only.
fn observed_headers() -> &'static Vec<(&'static str, String)> {
    static H: std::sync::OnceLock<Vec<(&'static str, String)>> = std::sync::OnceLock::new();
    H.get_or_init(|| {
        let usual: [(&str, Section); 8] = [
            ("General", Section::General), ("Editor", Section::Editor), ("Metadata", Section::Metadata), ("Difficulty", Section::Difficulty),
            ("Events", Section::Events), ("TimingPoints", Section::TimingPoints), ("Colours", Section::Colors), ("HitObjects", Section::HitObjects),
        ];
        usual.iter().map(|(name, sec)| {
            let reads = |n: &str| guarded(|| Section::try_from_line(&format!("[{n}]"))).ok().flatten() == Some(*sec);
            let mut cands = vec![name.to_string(), format!("{sec:?}")];
            cands.extend(mutations(name));
            cands.extend(["Colors", "Colours", "Colour", "Color"].iter().map(|s| s.to_string()));
            (*name, cands.into_iter().find(|c| reads(c)).unwrap_or_else(|| name.to_string()))
        }).collect()
    })
}

thread_local! {
    /// usual headers written by a probe although the compiled crate reads no spelling of them we know
    static MISSING: std::cell::RefCell<Vec<String>> = const { std::cell::RefCell::new(Vec::new()) };
}

fn decode<D: DecodeBeatmap>(text: &str) -> Option<D> {
    let mut t = String::with_capacity(text.len() + 8);
    for line in text.split_inclusive('\n') {
        let bare = line.trim_end_matches('\n');
        match observed_headers().iter().find(|(usual, _)| bare.strip_prefix('[').and_then(|x| x.strip_suffix(']')) == Some(*usual)) {
            Some((usual, seen)) => {
                if guarded(|| Section::try_from_line(&format!("[{seen}]"))).ok().flatten().is_none() {
                    MISSING.with(|m| {
                        let mut m = m.borrow_mut();
                        if !m.iter().any(|x| x == usual) {
                            m.push(usual.to_string());
                        }
                    });
                }
                t.push('[');
                t.push_str(seen);
                t.push(']');
                t.push_str(&line[bare.len()..]);
            }
            None => t.push_str(line),
        }
    }
    guarded(|| rosu_map::from_str::<D>(&t)).ok().and_then(Result::ok)
}

/// case variants and near misses of a word (never the word itself)
fn mutations(w: &str) -> Vec<String> {
    let mut v = vec![
        w.to_lowercase(),
        w.to_uppercase(),
        format!("{w}s"),
        format!("{w} "),
        format!(" {w}"),
        format!("{w}0"),
        format!("_{w}"),
        w.replace(' ', ""),
        w.replace(' ', "_"),
    ];
    if !w.is_empty() {
        let cs: Vec<char> = w.chars().collect();
        v.push(cs[..cs.len() - 1].iter().collect());
        v.push(cs[1..].iter().collect());
        let mut sw = cs.clone();
        sw[0] = if sw[0].is_uppercase() { sw[0].to_ascii_lowercase() } else { sw[0].to_ascii_uppercase() };
        v.push(sw.iter().collect());
        // title-case every word / lower-case every word after the first
        let title: Vec<String> = w
            .split(' ')
            .map(|p| {
                let mut c: Vec<char> = p.chars().collect();
                if !c.is_empty() {
                    c[0] = c[0].to_ascii_uppercase();
                }
                c.iter().collect()
            })
            .collect();
        v.push(title.join(" "));
    }
    v.retain(|m| m != w);
    v.sort();
    v.dedup();
    v
}

// ---------------------------------------------------------------------------------------------
// tables
// ---------------------------------------------------------------------------------------------

/// Observed `(key, index)` table: the kept rows in kept order with the observed right-hand side
/// (rows whose key is rejected are dropped), then every accepted negative probe.
fn probe_table(
    kept_rows: &[String],
    extra_pos: &[&str],
    negatives: &[String],
    probe: &dyn Fn(&str) -> Option<i64>,
) -> (Vec<(String, i64)>, String) {
    let mut rows = vec![];
    let mut seen = std::collections::BTreeSet::new();
    for k in kept_rows.iter().cloned().chain(extra_pos.iter().map(|s| s.to_string())) {
        if !seen.insert(k.clone()) {
            continue;
        }
        if let Some(i) = probe(&k) {
            rows.push((k, i));
        }
    }
    let mut nneg = 0;
    for n in negatives {
        if seen.contains(n) {
            continue;
        }
        seen.insert(n.clone());
        nneg += 1;
        if let Some(i) = probe(n) {
            rows.push((n.clone(), i));
        }
    }
    let how = format!(
        "validated rows + {nneg} negative probes (case variants, near misses, keys of the neighbouring tables); a table over strings cannot be enumerated by execution"
    );
    (rows, how)
}

/// variant names by index from (index, Debug name) observations; None unless 0..n-1 all seen once
fn variants_by_index(obs: &[(i64, String)]) -> Option<Vec<String>> {
    let mut m: BTreeMap<i64, String> = BTreeMap::new();
    for (i, n) in obs {
        if let Some(old) = m.insert(*i, n.clone()) {
            if &old != n {
                return None;
            }
        }
    }
    let n = m.len() as i64;
    if n == 0 || m.keys().next() != Some(&0) || m.keys().last() != Some(&(n - 1)) {
        return None;
    }
    Some(m.into_values().collect())
}

fn negatives_for(keys: &[String], others: &[&str]) -> Vec<String> {
    let mut v: Vec<String> = vec![];
    for k in keys {
        v.extend(mutations(k));
    }
    v.extend(others.iter().map(|s| s.to_string()));
    for s in ["", " ", "-1", "00", "01", "+1", "1.0", "4", "5", "7", "8", "9", "10", "255", "256", "abc", "\u{ff11}"] {
        v.push(s.to_string());
    }
    v.retain(|n| !keys.contains(n));
    v.sort();
    v.dedup();
    v
}

struct VerProbe(i32);
struct VerState(i32);
impl DecodeState for VerState {
    fn create(version: i32) -> Self {
        VerState(version)
    }
}
impl From<VerState> for VerProbe {
    fn from(s: VerState) -> Self {
        VerProbe(s.0)
    }
}
#[derive(Debug)]
struct NoErr;
impl std::fmt::Display for NoErr {
    fn fmt(&self, f: &mut std::fmt::Formatter<'_>) -> std::fmt::Result {
        f.write_str("none")
    }
}
impl std::error::Error for NoErr {}
macro_rules! noop {
    ($($n:ident),*) => { $( fn $n(_: &mut Self::State, _: &str) -> Result<(), Self::Error> { Ok(()) } )* };
}
impl DecodeBeatmap for VerProbe {
    type Error = NoErr;
    type State = VerState;
    noop!(parse_general, parse_editor, parse_metadata, parse_difficulty, parse_events, parse_timing_points,
          parse_colors, parse_hit_objects, parse_variables, parse_catch_the_beat, parse_mania);
}

fn basics(k: &Kept, e: &mut BTreeMap<String, Entry>) {
    // ---- max_parse_value
    let fok = |n: i64| <f64 as ParseNumber>::parse(&n.to_string()).is_ok();
    let iok = |n: i64| <i32 as ParseNumber>::parse(&n.to_string()).is_ok();
    let fmax = bisect_max(0, 1 << 40, fok);
    let fmin = bisect_max(0, 1 << 40, |n| fok(-n)).map(|n| -n);
    let imax = bisect_max(0, 1 << 40, iok);
    let imin = bisect_max(0, 1 << 40, |n| iok(-n)).map(|n| -n);
    let pmax = bisect_max(0, 1 << 40, |n| n.to_string().parse_num::<f64>().is_ok());
    let cst = i64::from(rosu_map::util::MAX_PARSE_VALUE);
    e.insert("max_parse_value".into(), match (fmax, fmin, imax, imin, pmax) {
        (Some(a), Some(b), Some(c), Some(d), Some(p)) if a == -b && c == -d && c == a.min(i64::from(i32::MAX)) && p == a && a == cst =>
            val(a.to_string(), "bisection on acceptance of integer texts by f64::parse (ParseNumber) and StrExt::parse_num, both signs; i32::parse agrees; equals the public MAX_PARSE_VALUE"),
        other => refuted(format!("{other:?} const={cst}"), "bisections on f64::parse / i32::parse / parse_num and the public constant disagree"),
    });

    // ---- version_prefix / latest_format_version
    let seed = "osu file format v14";
    let hook = |l: &str| guarded(|| verif_hooks::version_from_line(l)).ok().flatten();
    let mut prefix = None;
    if hook(seed) == Some(Ok(14)) {
        let cs: Vec<char> = seed.chars().collect();
        for n in 0..=cs.len() {
            let p: String = cs[..n].iter().collect();
            if hook(&format!("{p}7")) == Some(Ok(7)) {
                prefix = Some(p);
                break;
            }
        }
    }
    e.insert("version_prefix".into(), match prefix {
        Some(p) => {
            let mut bad = vec![];
            for m in mutations(&p) {
                if m.starts_with(&p) {
                    continue;
                }
                if matches!(hook(&format!("{m}7")), Some(Ok(_))) {
                    bad.push(m);
                }
            }
            for n in [0i32, 1, 5, 14, 128, 2147483647] {
                if hook(&format!("{p}{n}")) != Some(Ok(n)) {
                    bad.push(format!("{p}{n}"));
                }
            }
            if bad.is_empty() {
                val(coq_str(&p), "shortest prefix p of the line \"osu file format v14\" for which version_from_line(p ++ \"7\") = 7; its case variants and near misses are not version lines; p ++ n reads n for six values of n")
            } else {
                refuted(format!("{bad:?}"), "version prefix probes")
            }
        }
        None => refuted(format!("{seed:?} is not read as version 14"), "version_from_line on the seed line"),
    });
    let from_empty = decode::<VerProbe>("").map(|v| v.0);
    let from_junk = decode::<VerProbe>("not a version line\n[General]\n").map(|v| v.0);
    let c = rosu_map::LATEST_FORMAT_VERSION;
    e.insert("latest_format_version".into(), if from_empty == Some(c) && from_junk == Some(c) {
        val(c.to_string(), "version handed to DecodeState::create when decoding an input without a version line (empty input, and input whose first line is not a version line); equals the public LATEST_FORMAT_VERSION")
    } else {
        refuted(format!("create got {from_empty:?}/{from_junk:?}, constant {c}"), "DecodeState::create on inputs without a version")
    });

    // ---- sections
    let kept_rows = coq_strings(k.rhs.get("section_table").map_or("", |s| s));
    let builtin = ["General", "Editor", "Metadata", "Difficulty", "Events", "TimingPoints", "Colours", "HitObjects", "Variables", "CatchTheBeat", "Mania"];
    let sec = |name: &str| guarded(|| Section::try_from_line(&format!("[{name}]"))).ok().flatten();
    let mut negs = negatives_for(&kept_rows, &["Colors", "Colour", "Color", "HitObject", "TimingPoint", "Storyboard", "Fonts", "Catch", "Taiko", "Osu", "[General]", "General]", "[General"]);
    negs.extend(coq_strings(k.rhs.get("section_variants").map_or("", |s| s)));
    negs.retain(|n| !kept_rows.contains(n) && !builtin.contains(&n.as_str()));
    let (mut rows, how) = probe_table(&kept_rows, &builtin, &negs, &|n| sec(n).map(|s| s as i64));
    // the brackets are part of the header: the bare name, or one bracket only, is no header
    for r in kept_rows.iter() {
        for l in [r.clone(), format!("[{r}"), format!("{r}]"), format!("[{r}] "), format!(" [{r}]"), format!("[{r}]]"), format!("[[{r}]")] {
            if let Ok(Some(s)) = guarded(|| Section::try_from_line(&l)) {
                rows.push((format!("<line {l:?}>"), s as i64));
            }
        }
    }
    let obs: Vec<(i64, String)> = rows.iter().filter_map(|(n, i)| sec(n).map(|s| (*i, format!("{s:?}")))).collect();
    e.insert("section_table".into(), val(coq_pair_list(&rows), format!("Section::try_from_line on \"[name]\": {how}; plus bracket near-misses of every kept row")));
    e.insert("section_variants".into(), match variants_by_index(&obs) {
        Some(v) => val(coq_string_list(&v), "Debug names of the Section values reached through the header table, by discriminant (0..n-1 all reached); a variant no header reaches cannot be seen"),
        None => none(format!("the discriminants reached through the header table are not 0..n-1, so some variant is reached by no header tried and its name cannot be seen: {obs:?}")),
    });

    // ---- key enums
    fn keys<K: FromStr + Copy>(kept: &Kept, name: &str, others: &[&str], idx: impl Fn(K) -> (i64, String)) -> Entry {
        let kept_rows = coq_strings(kept.rhs.get(name).map_or("", |s| s));
        let negs = negatives_for(&kept_rows, others);
        let (rows, how) = probe_table(&kept_rows, &[], &negs, &|n| K::from_str(n).ok().map(|k| idx(k).0));
        // the list is the accepted names by discriminant; as_str must give the name back
        let mut sorted = rows.clone();
        sorted.sort_by_key(|r| r.1);
        let contiguous = sorted.iter().enumerate().all(|(i, r)| r.1 == i as i64);
        let names_ok = sorted.iter().all(|(n, _)| K::from_str(n).ok().map(|k| idx(k).1).as_deref() == Some(n.as_str()));
        if contiguous && names_ok {
            val(coq_string_list(&sorted.into_iter().map(|r| r.0).collect::<Vec<_>>()),
                format!("FromStr of the key enum, names listed by discriminant (contiguous from 0, as_str gives the name back): {how}"))
        } else {
            refuted(format!("{sorted:?}"), "accepted key names do not have the discriminants 0..n-1")
        }
    }
    let all_keys: Vec<String> = ["general_keys", "editor_keys", "metadata_keys", "difficulty_keys"].iter().flat_map(|n| coq_strings(k.rhs.get(*n).map_or("", |s| s))).collect();
    let all_refs: Vec<&str> = all_keys.iter().map(String::as_str).collect();
    e.insert("general_keys".into(), keys::<GeneralKey>(k, "general_keys", &all_refs, |x| (x as i64, x.as_str().to_string())));
    e.insert("editor_keys".into(), keys::<EditorKey>(k, "editor_keys", &all_refs, |x| (x as i64, x.as_str().to_string())));
    e.insert("metadata_keys".into(), keys::<MetadataKey>(k, "metadata_keys", &all_refs, |x| (x as i64, x.as_str().to_string())));
    e.insert("difficulty_keys".into(), keys::<DifficultyKey>(k, "difficulty_keys", &all_refs, |x| (x as i64, x.as_str().to_string())));

    // ---- from_str tables
    let t = |name: &str, extra: &[&str], others: &[&str], probe: &dyn Fn(&str) -> Option<i64>, what: &str| -> (Entry, Vec<(String, i64)>) {
        let kept_rows = coq_strings(k.rhs.get(name).map_or("", |s| s));
        let negs = negatives_for(&kept_rows, others);
        let (rows, how) = probe_table(&kept_rows, extra, &negs, probe);
        (val(coq_pair_list(&rows), format!("{what}: {how}")), rows)
    };
    let (en, _) = t("game_mode_table", &["0", "1", "2", "3"], &["osu", "Osu", "Taiko", "Catch", "Mania", "osu!", "fruits", "ctb"],
        &|s| GameMode::from_str(s).ok().map(|m| m as i64), "GameMode::from_str, index = discriminant");
    e.insert("game_mode_table".into(), en);
    let (en, _) = t("countdown_table", &["0", "None", "1", "Normal", "2", "Half speed", "3", "Double speed"], &["HalfSpeed", "DoubleSpeed", "Half", "Double", "Slow", "Fast"],
        &|s| CountdownType::from_str(s).ok().map(|m| m as i64), "CountdownType::from_str, index = discriminant");
    e.insert("countdown_table".into(), en);
    let (en, rows) = t("event_type_table", &["0", "Background", "1", "Video", "2", "Break", "3", "Colour", "4", "Sprite", "5", "Sample", "6", "Animation"], &["Color", "Colours", "Colors", "Audio", "Storyboard"],
        &|s| EventType::from_str(s).ok().map(|m| m as i64), "EventType::from_str, index = discriminant");
    e.insert("event_type_table".into(), en);
    let obs: Vec<(i64, String)> = rows.iter().filter_map(|(n, i)| EventType::from_str(n).ok().map(|v| (*i, format!("{v:?}")))).collect();
    e.insert("event_type_variants".into(), match variants_by_index(&obs) {
        Some(v) => val(coq_string_list(&v), "Debug names of the EventType values reached through from_str, by discriminant (0..n-1 all reached)"),
        None => none(format!("the discriminants reached through EventType::from_str are not 0..n-1, so some variant is reached by no spelling tried and its name cannot be seen: {obs:?}")),
    });
    let (en, rows) = t("sample_bank_table", &["0", "None", "1", "Normal", "2", "Soft", "3", "Drum"], &["none", "normal", "soft", "drum", "Auto", "All"],
        &|s| SampleBank::from_str(s).ok().map(|m| m as i64), "SampleBank::from_str, index = discriminant");
    e.insert("sample_bank_table".into(), en);
    let obs: Vec<(i64, String)> = rows.iter().filter_map(|(n, i)| SampleBank::from_str(n).ok().map(|v| (*i, format!("{v:?}")))).collect();
    e.insert("sample_bank_variants".into(), match variants_by_index(&obs) {
        Some(v) => val(coq_string_list(&v), "Debug names of the SampleBank values reached through from_str, by discriminant (0..n-1 all reached)"),
        None => none(format!("the discriminants reached through SampleBank::from_str are not 0..n-1, so some variant is reached by no spelling tried and its name cannot be seen: {obs:?}")),
    });
    let mut ints: Vec<i64> = (-70000..=70000).collect();
    ints.extend([i64::from(i32::MIN), i64::from(i32::MIN) + 1, i64::from(i32::MAX), i64::from(i32::MAX) - 1, 1 << 16, 1 << 24, 1 << 30, -(1 << 16), -(1 << 24)]);
    let rows: Vec<String> = ints.iter().filter_map(|&i| SampleBank::try_from(i as i32).ok().map(|b| format!("({}, {})", i, b as i64))).collect();
    e.insert("sample_bank_of_int".into(), val(format!("[{}]", rows.join("; ")), "SampleBank::try_from(i32) for every i in [-70000, 70000] and 9 extreme values; accepted rows in ascending order").unordered());
}

// ---------------------------------------------------------------------------------------------
// defaults, clamps, flags
// ---------------------------------------------------------------------------------------------

fn pair64(a: f64, b: f64, how: &str) -> Entry {
    val(tuple(&[dec64(a), dec64(b)]), format!("{how}; {DEC_HOW}")).f64_bits(&[a, b])
}

fn one64(a: f64, how: &str) -> Entry {
    val(dec64(a), format!("{how}; {DEC_HOW}")).f64_bits(&[a])
}

fn one32(a: f32, how: &str) -> Entry {
    val(dec32(a), format!("{how}; {DEC_HOW}")).f32_bits(&[a])
}

/// (the character that marks a timing line as uninherited, one that does not), as observed; the
/// usual ('1', '0') when the probe finds no single such character
fn change_chars() -> (char, char) {
    static C: std::sync::OnceLock<(char, char)> = std::sync::OnceLock::new();
    *C.get_or_init(|| {
        let hits: Vec<char> = (0x21u8..0x7f).map(char::from).filter(|c| *c != ',').filter(|c| {
            tp(0, &format!("0,500,4,1,0,100,{c}")).map_or(false, |t| !t.control_points.timing_points.is_empty())
        }).collect();
        let u = if hits.len() == 1 { hits[0] } else { '1' };
        (u, if u == '0' { '1' } else { '0' })
    })
}

fn tp(mode: u8, lines: &str) -> Option<TimingPoints> {
    decode::<TimingPoints>(&format!("[General]\nMode: {mode}\n[TimingPoints]\n{lines}\n"))
}

fn defaults_and_clamps(_k: &Kept, e: &mut BTreeMap<String, Entry>) {
    // ---- difficulty
    let dflt = Difficulty::default();
    let dec_dflt = decode::<Difficulty>("");
    let same = dec_dflt.as_ref() == Some(&dflt);
    let dh = "Difficulty::default(), equal to the Difficulty decoded from an empty input";
    let chk = |en: Entry| if same { en } else { refuted("Difficulty::default() differs from the decoded empty input", dh) };
    e.insert("default_hp_drain_rate_dec".into(), chk(one32(dflt.hp_drain_rate, dh)));
    e.insert("default_circle_size_dec".into(), chk(one32(dflt.circle_size, dh)));
    e.insert("default_overall_difficulty_dec".into(), chk(one32(dflt.overall_difficulty, dh)));
    e.insert("default_approach_rate_dec".into(), chk(one32(dflt.approach_rate, dh)));
    e.insert("default_slider_multiplier_dec".into(), chk(one64(dflt.slider_multiplier, dh)));
    e.insert("default_slider_tick_rate_dec".into(), chk(one64(dflt.slider_tick_rate, dh)));

    let sat = |key: &str, f: &dyn Fn(&Difficulty) -> f64| -> Option<(f64, f64)> {
        let mut lo = vec![];
        let mut hi = vec![];
        for t in ["-2000000000", "-1000000", "-1", "0", "1e-300", "-0.0"] {
            lo.push(f(&decode::<Difficulty>(&format!("[Difficulty]\n{key}: {t}\n"))?));
        }
        for t in ["2000000000", "1000000", "1e9", "2147483647"] {
            hi.push(f(&decode::<Difficulty>(&format!("[Difficulty]\n{key}: {t}\n"))?));
        }
        // saturation: every far-out value gives the same stored field
        let l = lo.iter().cloned().fold(f64::INFINITY, f64::min);
        let h = hi.iter().cloned().fold(f64::NEG_INFINITY, f64::max);
        (lo.iter().all(|x| *x == l) && hi.iter().all(|x| *x == h) && l < h).then_some((l, h))
    };
    let sat_how = "saturation: the stored field for six values at or below 0 (down to -2e9) and four huge ones (up to 2147483647) in a [Difficulty] line";
    // the lower bound must actually bind: a value just inside reads back unchanged
    let inside = |key: &str, x: f64, f: &dyn Fn(&Difficulty) -> f64| decode::<Difficulty>(&format!("[Difficulty]\n{key}: {x}\n")).map(|d| f(&d)) == Some(x);
    e.insert("slider_mult_clamp".into(), match sat("SliderMultiplier", &|d| d.slider_multiplier) {
        Some((l, h)) if inside("SliderMultiplier", (l + h) / 2.0, &|d| d.slider_multiplier) => pair64(l, h, sat_how),
        other => refuted(format!("{other:?}"), sat_how),
    });
    e.insert("tick_rate_clamp".into(), match sat("SliderTickRate", &|d| d.slider_tick_rate) {
        Some((l, h)) if inside("SliderTickRate", (l + h) / 2.0, &|d| d.slider_tick_rate) => pair64(l, h, sat_how),
        other => refuted(format!("{other:?}"), sat_how),
    });

    // ---- general
    let g = General::default();
    let gsame = decode::<General>("").as_ref() == Some(&g);
    let gh = "General::default(), equal to the General decoded from an empty input";
    let chk = |en: Entry| if gsame { en } else { refuted("General::default() differs from the decoded empty input", gh) };
    e.insert("default_preview_time".into(), chk(val(g.preview_time.to_string(), gh)));
    e.insert("default_sample_volume".into(), chk(val(g.default_sample_volume.to_string(), gh)));
    e.insert("default_stack_leniency_dec".into(), chk(one32(g.stack_leniency, gh)));
    e.insert("default_countdown".into(), chk(val((g.countdown as i64).to_string(), format!("{gh}: discriminant of the countdown field"))));

    // flags: which integer makes a flag true, and which fields are such flags
    type Getter = fn(&General) -> bool;
    let fields: [(&str, Getter); 5] = [
        ("letterbox_in_breaks", |g| g.letterbox_in_breaks),
        ("special_style", |g| g.special_style),
        ("widescreen_storyboard", |g| g.widescreen_storyboard),
        ("epilepsy_warning", |g| g.epilepsy_warning),
        ("samples_match_playback_rate", |g| g.samples_match_playback_rate),
    ];
    let mut key_names: Vec<(i64, String)> = vec![];
    for cand in coq_strings(_k.rhs.get("general_keys").map_or("", |s| s)).into_iter().chain(
        ["LetterboxInBreaks", "SpecialStyle", "WidescreenStoryboard", "EpilepsyWarning", "SamplesMatchPlaybackRate", "StoryFireInFront", "UseSkinSprites"].iter().map(|s| s.to_string())) {
        if let Ok(kk) = GeneralKey::from_str(&cand) {
            if !key_names.iter().any(|x| x.1 == cand) {
                key_names.push((kk as i64, cand));
            }
        }
    }
    key_names.sort();
    let mut probes: Vec<i64> = (-20..=300).collect();
    probes.extend([256, 257, 511, 65535, 65536, 65537, 1 << 24, i64::from(i32::MAX), -i64::from(i32::MAX)]);
    let mut flag_fields: Vec<String> = vec![];
    let mut true_values: Vec<Vec<i64>> = vec![];
    let mut odd = vec![];
    for (_, key) in &key_names {
        let mut touched: Vec<&str> = vec![];
        let mut trues = vec![];
        for &v in &probes {
            let Some(d) = decode::<General>(&format!("[General]\n{key}: {v}\n")) else { continue };
            for (fname, get) in fields.iter() {
                if get(&d) != get(&g) {
                    if !touched.contains(fname) {
                        touched.push(fname);
                    }
                    if !trues.contains(&v) {
                        trues.push(v);
                    }
                }
            }
        }
        match touched.len() {
            0 => {}
            1 => {
                flag_fields.push(touched[0].to_string());
                true_values.push(trues);
            }
            _ => odd.push(format!("{key} changes {touched:?}")),
        }
    }
    let fh = format!("for every General key (by discriminant), `Key: v` for {} integers v (-20..300 and 8 larger ones): which bool field of General leaves its default, and for which v", probes.len());
    let all_default_false = fields.iter().all(|(_, get)| !get(&g));
    let tv: Vec<i64> = true_values.first().cloned().unwrap_or_default();
    e.insert("flag_true_value".into(), if odd.is_empty() && all_default_false && tv.len() == 1 && true_values.iter().all(|t| *t == tv) && !true_values.is_empty() {
        val(tv[0].to_string(), format!("{fh}; exactly one v turns each flag on, the same for all flags"))
    } else {
        refuted(format!("true for {true_values:?} {odd:?}"), fh.clone())
    });
    e.insert("general_flag_fields".into(), if odd.is_empty() { val(coq_string_list(&flag_fields), format!("{fh}; field names (as the harness spells the public fields) in the order of the keys' discriminants")) } else { refuted(format!("{odd:?}"), fh) });

    // ---- editor / metadata
    let ed = Editor::default();
    let esame = decode::<Editor>("").as_ref() == Some(&ed);
    let eh = "Editor::default(), equal to the Editor decoded from an empty input";
    let chk = |en: Entry| if esame { en } else { refuted("Editor::default() differs from the decoded empty input", eh) };
    e.insert("default_distance_spacing_dec".into(), chk(one64(ed.distance_spacing, eh)));
    e.insert("default_beat_divisor".into(), chk(val(ed.beat_divisor.to_string(), eh)));
    e.insert("default_timeline_zoom_dec".into(), chk(one64(ed.timeline_zoom, eh)));
    let md = Metadata::default();
    let msame = decode::<Metadata>("").as_ref() == Some(&md);
    e.insert("default_beatmap_id".into(), if msame { val(md.beatmap_id.to_string(), "Metadata::default(), equal to the Metadata decoded from an empty input") } else { refuted("Metadata::default() differs from the decoded empty input", "Metadata::default()") });

    // ---- colours
    let combo = |s: &str| matches!(ColorsKey::from_str(s), Ok(ColorsKey::Combo));
    let seed = "Combo1";
    let cs: Vec<char> = seed.chars().collect();
    let p = (0..=cs.len()).map(|n| cs[..n].iter().collect::<String>()).find(|p| combo(p));
    e.insert("colors_combo_prefix".into(), match p {
        Some(p) => {
            let mut bad = vec![];
            for suffix in ["", "1", "8", "9", "10", " 1", "X", "combo"] {
                if !combo(&format!("{p}{suffix}")) {
                    bad.push(format!("{p}{suffix} is not Combo"));
                }
            }
            for m in mutations(&p).into_iter().chain(["SliderBorder", "SliderTrackOverride", "", "1"].iter().map(|s| s.to_string())) {
                if !m.starts_with(&p) && combo(&m) {
                    bad.push(format!("{m} is Combo"));
                }
            }
            // and through the decoder
            let c = decode::<Colors>(&format!("[Colours]\n{p}7 : 1,2,3\nX{p} : 4,5,6\n"));
            if c.as_ref().map(|c| (c.custom_combo_colors.len(), c.custom_colors.len())) != Some((1, 1)) {
                bad.push("decoded [Colours] lines".to_string());
            }
            if bad.is_empty() {
                val(coq_str(&p), "shortest prefix p of \"Combo1\" that ColorsKey::from_str reads as Combo; p followed by 8 different suffixes is Combo, 14 case variants/near misses/other keys are names; confirmed through a decoded [Colours] section")
            } else {
                refuted(format!("{bad:?}"), "ColorsKey::from_str probes")
            }
        }
        None => refuted("\"Combo1\" is not a combo key", "ColorsKey::from_str on the seed key"),
    });
    let a1 = Color::from_str("1,2,3").ok().map(|c| c.alpha());
    let a2 = decode::<Colors>("[Colours]\nCombo1 : 10,20,30\nOther : 9,8,7\n").map(|c| (c.custom_combo_colors.first().map(|c| c.alpha()), c.custom_colors.first().map(|c| c.color.alpha())));
    e.insert("color_default_alpha".into(), match (a1, a2) {
        (Some(a), Some((Some(b), Some(c)))) if a == b && b == c => val(a.to_string(), "alpha of a colour written with three components: Color::from_str, a decoded combo colour and a decoded named colour agree"),
        other => refuted(format!("{other:?}"), "alpha of three-component colours"),
    });

    // ---- events
    let cst = BreakPeriod::MIN_BREAK_DURATION;
    let b = bisect_f64(0.0, 1e12, |d| BreakPeriod { start_time: 0.0, end_time: d }.has_effect());
    e.insert("min_break_duration_dec".into(), match b {
        Some((_, d)) if d == cst => one64(d, "bisection (over all f64 in [0, 1e12]) for the shortest break with has_effect(); equals the public BreakPeriod::MIN_BREAK_DURATION"),
        other => refuted(format!("{other:?} const={cst}"), "bisection on BreakPeriod::has_effect vs the public constant"),
    });
    let kept_ext = coq_strings(_k.rhs.get("video_extensions").map_or("", |s| s));
    let others = ["mp4", "mov", "avi", "flv", "mpg", "wmv", "m4v", "mkv", "ogv", "ogg", "webm", "mpeg", "3gp", "ts", "mts", "vob", "asf", "divx", "f4v", "rm", "rmvb", "swf", "gif", "png", "jpg", "jpeg", "bmp",
        "tga", "mp3", "wav", "osb", "osu", "txt", "mp5", "mo4", "av1", "mpv", "m4a", "m4p", "wma", "fla", "p4", "4v", "", "mp"];
    let is_video = |ext: &str| -> Option<bool> {
        let d = decode::<Events>(&format!("[Events]\n1,0,\"clip.{ext}\"\n"))?;
        Some(d.background_file.is_empty())
    };
    let mut list = vec![];
    let mut n = 0;
    for x in kept_ext.iter().cloned().chain(others.iter().map(|s| s.to_string())) {
        if list.contains(&x) {
            continue;
        }
        n += 1;
        if is_video(&x) == Some(true) {
            list.push(x);
        }
    }
    // upper/mixed case of an extension behaves like the extension
    let case_ok = list.iter().all(|x| is_video(&x.to_uppercase()) == Some(true));
    e.insert("video_extensions".into(), if case_ok {
        val(coq_string_list(&list), format!("for {n} extensions (the kept ones and common video/image/audio extensions and near misses) decode `1,0,\"clip.EXT\"` and see whether the background stays empty; the kept ones first in kept order; upper case behaves alike; the set of 3-byte strings cannot be enumerated through a decode each"))
    } else {
        refuted("an extension is not matched case-insensitively", "video extension probes")
    });
}

// ---------------------------------------------------------------------------------------------
// timing points
// ---------------------------------------------------------------------------------------------

fn timing(_k: &Kept, e: &mut BTreeMap<String, Entry>) {
    let sig4 = TimeSignature::new_simple_quadruple();
    // ---- beat_len clamp: constructor and decoded line
    let lo_c = TimingPoint::new(0.0, f64::NEG_INFINITY, false, sig4).beat_len;
    let hi_c = TimingPoint::new(0.0, f64::INFINITY, false, sig4).beat_len;
    let lo_l: Vec<Option<f64>> = ["0", "-0.0", "1e-300", "1e-9"].iter().map(|t| tp(0, &format!("0,{t}")).and_then(|t| t.control_points.timing_points.first().map(|p| p.beat_len))).collect();
    let hi_l: Vec<Option<f64>> = ["2147483647", "1e9", "2000000000"].iter().map(|t| tp(0, &format!("0,{t}")).and_then(|t| t.control_points.timing_points.first().map(|p| p.beat_len))).collect();
    let h = "saturation: TimingPoint::new with beat_len -inf/+inf, and the stored beat_len of decoded timing lines `0,B` for four B in [0, 1e-9] and three B >= 1e9";
    e.insert("beat_len_clamp".into(), if lo_l.iter().all(|x| *x == Some(lo_c)) && hi_l.iter().all(|x| *x == Some(hi_c)) && lo_c < hi_c {
        pair64(lo_c, hi_c, h)
    } else {
        refuted(format!("{lo_c} {hi_c} {lo_l:?} {hi_l:?}"), h)
    });

    // ---- default beat len: only the quotient is observable
    let d = TimingPoint::DEFAULT_BEAT_LEN;
    let d2 = TimingPoint::default().beat_len;
    e.insert("default_beat_len_dec".into(), none("the kept value is the pair (numerator, denominator) of a constant expression; execution only shows the quotient (TimingPoint::DEFAULT_BEAT_LEN = TimingPoint::default().beat_len), given under \"partial\"")
        .with("partial", format!("{{\"kind\": \"pair_quotient_f64\", \"f64_bits\": [{}], \"consistent\": {}}}", js(&format!("0x{:016x}", d.to_bits())), d.to_bits() == d2.to_bits())));

    // ---- slider velocity clamp
    let lo_c = DifficultyPoint::new(0.0, 1.0, f64::NEG_INFINITY).slider_velocity;
    let hi_c = DifficultyPoint::new(0.0, 1.0, f64::INFINITY).slider_velocity;
    let (unin, inh) = change_chars();
    let sv_of = |b: &str| tp(0, &format!("0,500\n10,{b},4,1,0,100,{inh},0")).and_then(|t| t.control_points.difficulty_points.last().map(|p| p.slider_velocity));
    let lo_l: Vec<Option<f64>> = ["-2147483647", "-1e9", "-1e8"].iter().map(|b| sv_of(b)).collect();
    let hi_l: Vec<Option<f64>> = ["-1e-300", "-1e-9", "-0.0001"].iter().map(|b| sv_of(b)).collect();
    let h = "saturation: DifficultyPoint::new with speed multiplier -inf/+inf, and the slider_velocity stored for decoded inherited lines with beat_len in {-2147483647, -1e9, -1e8} and {-1e-300, -1e-9, -1e-4}";
    let sv_clamp = if lo_l.iter().all(|x| *x == Some(lo_c)) && hi_l.iter().all(|x| *x == Some(hi_c)) && lo_c < hi_c { Some((lo_c, hi_c)) } else { None };
    e.insert("slider_velocity_clamp".into(), match sv_clamp {
        Some((a, b)) => pair64(a, b, h),
        None => refuted(format!("{lo_c} {hi_c} {lo_l:?} {hi_l:?}"), h),
    });

    // ---- sample volume clamp
    let lo_c = SamplePoint::new(0.0, SampleBank::Normal, i32::MIN, 0).sample_volume;
    let hi_c = SamplePoint::new(0.0, SampleBank::Normal, i32::MAX, 0).sample_volume;
    let vol_of = |v: &str| tp(0, &format!("0,500,4,1,0,{v},{unin},0")).and_then(|t| t.control_points.sample_points.first().map(|p| p.sample_volume));
    let lo_l: Vec<Option<i32>> = ["-2147483647", "-100000", "-1"].iter().map(|v| vol_of(v)).collect();
    let hi_l: Vec<Option<i32>> = ["2147483647", "100000", "5000"].iter().map(|v| vol_of(v)).collect();
    let h = "saturation: SamplePoint::new with volume i32::MIN/i32::MAX, and the volume stored for decoded timing lines with volumes {-2147483647, -100000, -1} and {2147483647, 100000, 5000}";
    e.insert("sample_volume_clamp".into(), if lo_l.iter().all(|x| *x == Some(lo_c)) && hi_l.iter().all(|x| *x == Some(hi_c)) && lo_c < hi_c {
        val(format!("({lo_c}, {hi_c})"), h)
    } else {
        refuted(format!("{lo_c} {hi_c} {lo_l:?} {hi_l:?}"), h)
    });

    // ---- scroll speed: modes and clamp
    let scroll = |mode: u8, b: &str| -> Option<Option<f64>> {
        let t = tp(mode, &format!("0,500\n10,{b},4,1,0,100,{inh},0"))?;
        Some(t.control_points.effect_points.last().map(|p| p.scroll_speed))
    };
    let mut modes = vec![];
    let mut clamps: Vec<(f64, f64)> = vec![];
    let mut bad = vec![];
    for m in 0u8..=3 {
        // beat_len -50: speed multiplier 2 (if the numerator is 100); anything but the default 1 shows the mode scrolls
        let mid = scroll(m, "-64");
        let los: Vec<Option<Option<f64>>> = ["-2147483647", "-1e9"].iter().map(|b| scroll(m, b)).collect();
        let his: Vec<Option<Option<f64>>> = ["-1e-300", "-1e-9"].iter().map(|b| scroll(m, b)).collect();
        let applies = matches!(mid, Some(Some(x)) if x != 1.0);
        if applies {
            modes.push(m);
            match (los[0], his[0]) {
                (Some(Some(l)), Some(Some(h))) if los.iter().all(|x| *x == Some(Some(l))) && his.iter().all(|x| *x == Some(Some(h))) && l < h => clamps.push((l, h)),
                other => bad.push(format!("mode {m}: {other:?}")),
            }
        } else if !matches!(mid, Some(None)) || los.iter().chain(his.iter()).any(|x| !matches!(x, Some(None))) {
            bad.push(format!("mode {m}: partly applied {mid:?} {los:?} {his:?}"));
        }
    }
    // GameMode discriminants are the values of `Mode:`
    let disc_ok = (0u8..=3).all(|m| decode::<General>(&format!("[General]\nMode: {m}\n")).map(|g| g.mode as u8) == Some(m));
    let h = "for Mode 0..3: an inherited line at a new time leaves an effect point whose scroll_speed differs from the default exactly in these modes (ascending; Mode: m decodes to the GameMode with discriminant m)";
    let reads_lines = tp(0, "0,500").map_or(false, |t| !t.control_points.timing_points.is_empty());
    if !reads_lines {
        bad.push("the timing line `0,500` leaves no timing point".to_string());
    }
    e.insert("tp_scroll_modes".into(), if bad.is_empty() && disc_ok {
        val(format!("[{}]", modes.iter().map(|m| m.to_string()).collect::<Vec<_>>().join("; ")), h).unordered()
    } else {
        refuted(format!("{bad:?} disc_ok={disc_ok}"), h)
    });
    let h = "saturation in every scrolling mode: scroll_speed of the effect point left by inherited lines with beat_len in {-2147483647, -1e9} and {-1e-300, -1e-9}; all scrolling modes agree";
    e.insert("scroll_speed_clamp".into(), match clamps.first() {
        Some(&(l, hh)) if bad.is_empty() && clamps.iter().all(|c| *c == (l, hh)) => pair64(l, hh, h),
        _ => refuted(format!("{clamps:?} {bad:?}"), h),
    });

    // ---- speed multiplier numerator: slider_velocity * (-beat_len) for powers of two strictly inside the clamp
    let mut nums: Vec<f64> = vec![];
    if let Some((lo, hi)) = sv_clamp {
        for kx in -12i32..=20 {
            let b = 2f64.powi(kx);
            if let Some(sv) = sv_of(&format!("-{b}")) {
                if sv > lo && sv < hi {
                    nums.push(sv * b);
                }
            }
        }
    }
    let h = "slider_velocity stored for inherited lines with beat_len = -2^k, k in -12..20, times 2^k (exact), for every k whose velocity lies strictly inside the observed clamp; all agree";
    e.insert("tp_speed_num_dec".into(), match nums.first() {
        Some(&n) if nums.len() >= 3 && nums.iter().all(|x| *x == n) => one64(n, h),
        _ => refuted(format!("{nums:?}"), h),
    });

    // ---- first characters
    let mut skip = vec![];
    let mut change = vec![];
    for c in (0x20u8..0x7f).map(char::from).chain(['\t', '\u{ff10}', '\u{ff11}', '\u{660}']) {
        if c == ',' {
            continue;
        }
        // a time signature field that is no number: accepted only when the field is skipped
        if let Some(t) = tp(0, &format!("0,500,{c}zz")) {
            if let Some(p) = t.control_points.timing_points.first() {
                if p.time_signature == sig4 {
                    skip.push(c);
                }
            }
        }
        if let Some(t) = tp(0, &format!("0,500,4,1,0,100,{c}zz")) {
            if !t.control_points.timing_points.is_empty() {
                change.push(c);
            }
        }
    }
    let h = "timing lines whose time-signature field is `czz` for every printable ASCII c (and 4 others): the line is accepted (with the default signature) for exactly one c";
    e.insert("tp_sig_skip_char".into(), if skip.len() == 1 { val((skip[0] as u32).to_string(), h) } else { refuted(format!("{skip:?}"), h) });
    let h = "timing lines whose uninherited field is `czz` for every printable ASCII c (and 4 others): a timing point is produced for exactly one c";
    e.insert("tp_timing_change_char".into(), if change.len() == 1 { val((change[0] as u32).to_string(), h) } else { refuted(format!("{change:?}"), h) });

    // ---- defaults of a minimal line
    let t = tp(0, "0,500");
    let cb = t.as_ref().and_then(|t| t.control_points.sample_points.first().map(|p| p.custom_sample_bank));
    let sg = t.as_ref().and_then(|t| t.control_points.timing_points.first().map(|p| p.time_signature.numerator.get()));
    let skip_field = if skip.len() == 1 { format!("0,500,{}", skip[0]) } else { "0,500".to_string() };
    let sg2 = tp(0, &skip_field).and_then(|t| t.control_points.timing_points.first().map(|p| p.time_signature.numerator.get()));
    e.insert("tp_default_custom_bank".into(), match cb { Some(c) => val(c.to_string(), "custom_sample_bank of the sample point left by the two-field timing line `0,500`"), None => refuted("no sample point", "line `0,500`") });
    e.insert("tp_default_signature".into(), match (sg, sg2) {
        (Some(a), Some(b)) if a == b && a == sig4.numerator.get() => val(a.to_string(), "time signature of the timing point left by `0,500` and by `0,500,c` with c the observed skip character; equals TimeSignature::new_simple_quadruple()"),
        other => refuted(format!("{other:?}"), "time signature of minimal lines"),
    });

    // ---- effect flags
    let mut kiai = vec![];
    let mut omit = vec![];
    for b in 0..31 {
        if let Some(t) = tp(0, &format!("0,500,4,1,0,100,{unin},{}", 1i64 << b)) {
            if t.control_points.effect_points.iter().any(|p| p.kiai) {
                kiai.push(1i64 << b);
            }
            if t.control_points.timing_points.iter().any(|p| p.omit_first_bar_line) {
                omit.push(1i64 << b);
            }
        }
    }
    let h = "timing lines with the effects field 2^b, b in 0..30: the bit that yields a kiai effect point / an omit-first-bar-line timing point; equals the public EffectFlags constant";
    e.insert("effect_kiai".into(), if kiai == vec![i64::from(EffectFlags::KIAI)] { val(kiai[0].to_string(), h) } else { refuted(format!("{kiai:?} const={}", EffectFlags::KIAI), h) });
    e.insert("effect_omit_first_bar_line".into(), if omit == vec![i64::from(EffectFlags::OMIT_FIRST_BAR_LINE)] { val(omit[0].to_string(), h) } else { refuted(format!("{omit:?} const={}", EffectFlags::OMIT_FIRST_BAR_LINE), h) });
    let none_ok = !EffectFlags::from(EffectFlags::NONE).has_flag(-1);
    e.insert("effect_none".into(), if none_ok { val(EffectFlags::NONE.to_string(), "the public constant EffectFlags::NONE (it has no flag set; nothing in the decoder depends on it)") } else { refuted("EffectFlags::NONE has a flag set", "public constant") });

    // ---- precision adjusted beat length: only ratios are observable
    let f = |sv: f64, m: GameMode| guarded(|| verif_hooks::precision_adjusted_beat_len(sv, 1.0, m)).ok();
    let part = |a: GameMode, b: GameMode| -> String {
        let lo = [f(1e300, a), f(1e200, a), f(1e300, b), f(1e200, b)];
        let hi = [f(1e-300, a), f(1e-200, a), f(1e-300, b), f(1e-200, b)];
        let ok = lo.iter().all(|x| x.is_some() && *x == lo[0]) && hi.iter().all(|x| x.is_some() && *x == hi[0]);
        format!("{{\"kind\": \"triple_over_third_f64\", \"f64_bits\": [{}, {}], \"consistent\": {}}}",
            js(&format!("0x{:016x}", lo[0].unwrap_or(f64::NAN).to_bits())), js(&format!("0x{:016x}", hi[0].unwrap_or(f64::NAN).to_bits())), ok)
    };
    let why = "the kept value is (lower bound, upper bound, divisor); the hook precision_adjusted_beat_len only shows lower/divisor and upper/divisor (its value for beat_len 1 at slider velocities 1e300, 1e200 and 1e-300, 1e-200, both modes of the pair agreeing), given under \"partial\"";
    e.insert("bpm_clamp_std".into(), none(why).with("partial", part(GameMode::Osu, GameMode::Catch)));
    e.insert("bpm_clamp_tm".into(), none(why).with("partial", part(GameMode::Taiko, GameMode::Mania)));
}

// ---------------------------------------------------------------------------------------------
// hit objects
// ---------------------------------------------------------------------------------------------

fn ho(lines: &str) -> Option<HitObjects> {
    decode::<HitObjects>(&format!("[HitObjects]\n{lines}\n"))
}

fn hit_objects(_k: &Kept, e: &mut BTreeMap<String, Entry>) {
    // ---- coordinate limit
    let n_obj = |l: String| ho(&l).map_or(0, |h| h.hit_objects.len());
    let top = 1i64 << 40;
    let probes: Vec<(&str, Box<dyn Fn(i64) -> bool>)> = vec![
        ("x of a circle", Box::new(move |v| n_obj(format!("{v},0,0,1,0")) == 1)),
        ("-x of a circle", Box::new(move |v| n_obj(format!("-{v},0,0,1,0")) == 1)),
        ("y of a circle", Box::new(move |v| n_obj(format!("0,{v},0,1,0")) == 1)),
        ("-y of a circle", Box::new(move |v| n_obj(format!("0,-{v},0,1,0")) == 1)),
        ("x of a slider anchor", Box::new(move |v| n_obj(format!("0,0,0,2,0,L|{v}:0,1,100")) == 1)),
        ("-y of a slider anchor", Box::new(move |v| n_obj(format!("0,0,0,2,0,L|0:-{v},1,100")) == 1)),
        ("length of a slider", Box::new(move |v| n_obj(format!("0,0,0,2,0,L|100:0,1,{v}")) == 1)),
        ("-length of a slider", Box::new(move |v| n_obj(format!("0,0,0,2,0,L|100:0,1,-{v}")) == 1)),
    ];
    let found: Vec<Option<i64>> = probes.iter().map(|(_, p)| bisect_max(0, top, p)).collect();
    let h = "bisection for the largest accepted integer in [0, 2^40] as: x, -x, y, -y of a circle line, x and -y of a slider anchor, length and -length of a slider (HitObjects decoded from one line); all eight agree";
    e.insert("max_coordinate_value".into(), match found[0] {
        Some(v) if found.iter().all(|x| *x == Some(v)) && v < top => val(v.to_string(), h),
        _ => refuted(format!("{found:?}"), h),
    });

    // ---- repeat cap: exponential search upwards (an accepted count allocates that many nodes), then bisection
    let accepts = |r: i64| n_obj(format!("0,0,0,2,0,L|100:0,{r},100")) == 1;
    let mut hi = 1i64;
    while hi <= (1 << 17) && accepts(hi) {
        hi *= 2;
    }
    let h = "largest repeat count a slider line accepts: doubling from 1 until rejected (at most 2^17), then bisection; the counts 2^31-1 and 10^6 are rejected";
    e.insert("repeat_cap".into(), if hi > (1 << 17) {
        refuted("a repeat count above 131072 is accepted", h)
    } else {
        match bisect_max(hi / 2, hi, accepts) {
            Some(c) if !accepts(i64::from(i32::MAX)) && !accepts(1_000_000) && accepts(0) && accepts(-5) => val(c.to_string(), h),
            other => refuted(format!("{other:?}"), h),
        }
    });

    // ---- control point leniency: which sample point reaches an object shortly before it
    let vol_at = |t: f64| -> Option<i32> {
        let d = decode::<HitObjects>(&format!("[TimingPoints]\n0,500,4,1,0,10,{u},0\n1048576,500,4,1,0,20,{u},0\n[HitObjects]\n0,0,{t},1,0\n", u = change_chars().0))?;
        d.hit_objects.first()?.samples.first().map(|s| s.volume)
    };
    let t0 = 1048576.0f64;
    let b = bisect_f64(0.0, t0, |t| vol_at(t) == Some(20));
    let h = "two sample points (volume 10 at 0, volume 20 at T = 2^20): bisection over all f64 start times in [0, T] for the earliest circle that gets volume 20; leniency = T - that time (exact)";
    e.insert("control_point_leniency_dec".into(), match b {
        Some((a, t)) if vol_at(a) == Some(10) && t < t0 => one64(t0 - t, h),
        other => refuted(format!("{other:?}"), h),
    });

    // ---- spinner centre: only the quotients are observable
    let sp = ho("7,9,1000,8,0,2000").and_then(|h| match h.hit_objects.first().map(|o| o.kind.clone()) {
        Some(HitObjectKind::Spinner(s)) => Some(s.pos),
        _ => None,
    });
    let sp2 = ho("-300,40000,5,12,0,6").and_then(|h| match h.hit_objects.first().map(|o| o.kind.clone()) {
        Some(HitObjectKind::Spinner(s)) => Some(s.pos),
        _ => None,
    });
    let p = sp.unwrap_or(Pos::new(f32::NAN, f32::NAN));
    e.insert("spinner_pos_dec".into(), none("the kept value is (x numerator, x denominator, y numerator, y denominator) of two constant expressions; execution only shows the two quotients (the position of a decoded spinner, whatever the line says), given under \"partial\"")
        .with("partial", format!("{{\"kind\": \"quad_quotients_f32\", \"f32_bits\": [{}, {}], \"consistent\": {}}}", js(&format!("0x{:08x}", p.x.to_bits())), js(&format!("0x{:08x}", p.y.to_bits())), sp.is_some() && sp == sp2)));

    // ---- base scoring distance: velocity * adjusted beat length / slider multiplier on exact values
    let vel = |mult: &str, bl: &str, mode: u8| -> Option<f64> {
        let d = decode::<HitObjects>(&format!("[General]\nMode: {mode}\n[Difficulty]\nSliderMultiplier: {mult}\n[TimingPoints]\n0,{bl},4,1,0,100,{u},0\n[HitObjects]\n0,0,0,2,0,L|100:0,1,100\n", u = change_chars().0))?;
        match &d.hit_objects.first()?.kind {
            HitObjectKind::Slider(s) => Some(s.velocity),
            _ => None,
        }
    };
    let mut vals = vec![];
    for (mult, m) in [("1", 1.0), ("2", 2.0), ("0.5", 0.5)] {
        for (bl, b) in [("1024", 1024.0), ("512", 512.0), ("4096", 4096.0)] {
            for mode in [0u8, 1, 2, 3] {
                let gm = GameMode::from(mode);
                let adj = guarded(|| verif_hooks::precision_adjusted_beat_len(1.0, b, gm)).ok();
                if let (Some(v), Some(adj)) = (vel(mult, bl, mode), adj) {
                    if adj == b {
                        vals.push(v * adj / m);
                    }
                }
            }
        }
    }
    let h = "velocity of a decoded slider times the precision-adjusted beat length (hook) over the slider multiplier, for multipliers {1, 2, 0.5} x beat lengths {1024, 512, 4096} (all powers of two, so the arithmetic is exact) x four modes; all agree. The constant is an f32";
    e.insert("base_scoring_dist_dec".into(), match vals.first() {
        Some(&v) if vals.len() >= 9 && vals.iter().all(|x| *x == v) && f64::from(v as f32) == v => one32(v as f32, h),
        _ => refuted(format!("{vals:?}"), h),
    });

    // ---- hit object type bits
    let kind_of = |l: String| -> Option<&'static str> {
        ho(&l).and_then(|h| h.hit_objects.first().map(|o| match o.kind {
            HitObjectKind::Circle(_) => "circle",
            HitObjectKind::Slider(_) => "slider",
            HitObjectKind::Spinner(_) => "spinner",
            HitObjectKind::Hold(_) => "hold",
        }))
    };
    let mut bit: BTreeMap<&str, Vec<i64>> = BTreeMap::new();
    for b in 0..31 {
        let t = 1i64 << b;
        for l in [format!("0,0,1000,{t},0"), format!("0,0,1000,{t},0,L|100:0,1,100"), format!("0,0,1000,{t},0,2000")] {
            if let Some(kd) = kind_of(l) {
                let v = bit.entry(kd).or_default();
                if !v.contains(&t) {
                    v.push(t);
                }
            }
        }
    }
    let single = |kd: &str| bit.get(kd).filter(|v| v.len() == 1).map(|v| v[0]);
    let h = "hit-object lines whose type is 2^b, b in 0..30, in three shapes (bare, with a slider path, with an end time): the one bit that decodes to this kind; equals the public HitObjectType constant";
    for (name, kd, c) in [("hot_circle", "circle", HitObjectType::CIRCLE), ("hot_slider", "slider", HitObjectType::SLIDER), ("hot_spinner", "spinner", HitObjectType::SPINNER), ("hot_hold", "hold", HitObjectType::HOLD)] {
        e.insert(name.into(), match single(kd) {
            Some(v) if v == i64::from(c) => val(v.to_string(), h),
            other => refuted(format!("{other:?} all={:?} const={c}", bit.get(kd)), h),
        });
    }
    let circle = single("circle").unwrap_or(1);
    let second = |t: i64| -> Option<(bool, i32)> {
        let d = ho(&format!("0,0,0,{circle},0\n0,0,1000,{t},0"))?;
        match d.hit_objects.get(1)?.kind {
            HitObjectKind::Circle(ref c) => Some((c.new_combo, c.combo_offset)),
            _ => None,
        }
    };
    let nc: Vec<i64> = (0..31).map(|b| 1i64 << b).filter(|t| *t != circle && matches!(second(circle | t), Some((true, _)))).collect();
    let h = "second circle of a two-circle input with type circle|2^b: the one bit that makes it a new combo; equals HitObjectType::NEW_COMBO";
    e.insert("hot_new_combo".into(), if nc == vec![i64::from(HitObjectType::NEW_COMBO)] { val(nc[0].to_string(), h) } else { refuted(format!("{nc:?} const={}", HitObjectType::NEW_COMBO), h) });
    let ncb = nc.first().copied().unwrap_or(4);
    let mask: i64 = (0..31).map(|b| 1i64 << b).filter(|t| *t != circle && *t != ncb && matches!(second(circle | ncb | t), Some((_, o)) if o != 0)).sum();
    let h = "second circle with type circle|new-combo|2^b: the union of the bits that give a non-zero combo offset; equals HitObjectType::COMBO_OFFSET";
    e.insert("hot_combo_offset".into(), if mask == i64::from(HitObjectType::COMBO_OFFSET) { val(mask.to_string(), h) } else { refuted(format!("{mask} const={}", HitObjectType::COMBO_OFFSET), h) });

    // ---- hit sound bits
    let names = |st: u8| -> (Vec<&'static str>, bool) {
        let v = SampleBankInfo::default().convert_sound_type(HitSoundType::from(st));
        let layered = v.first().map_or(false, |s| s.is_layered);
        (v.iter().map(|s| if s.name == HitSampleInfo::HIT_WHISTLE { "whistle" } else if s.name == HitSampleInfo::HIT_FINISH { "finish" } else if s.name == HitSampleInfo::HIT_CLAP { "clap" } else { "normal" }).collect(), layered)
    };
    let bits_for = |what: &str| -> Vec<i64> { (0..8).map(|b| 1u8 << b).filter(|t| names(*t).0.contains(&what)).map(i64::from).collect() };
    let h = "SampleBankInfo::convert_sound_type on the sound types 2^b, b in 0..7: the one bit that adds this sample; equals the public HitSoundType constant";
    for (name, what, c) in [("hitsound_whistle", "whistle", HitSoundType::WHISTLE), ("hitsound_finish", "finish", HitSoundType::FINISH), ("hitsound_clap", "clap", HitSoundType::CLAP)] {
        let v = bits_for(what);
        e.insert(name.into(), if v == vec![i64::from(c)] { val(v[0].to_string(), h) } else { refuted(format!("{v:?} const={c}"), h) });
    }
    // NORMAL: the bits under which the first sample is not layered; NONE: the value 0 is not layered either
    let not_layered: Vec<i64> = (0..8).map(|b| 1u8 << b).filter(|t| !names(*t).1).map(i64::from).collect();
    let h = "convert_sound_type on 2^b: the one bit under which the base sample is not layered; equals HitSoundType::NORMAL";
    e.insert("hitsound_normal".into(), if not_layered == vec![i64::from(HitSoundType::NORMAL)] { val(not_layered[0].to_string(), h) } else { refuted(format!("{not_layered:?} const={}", HitSoundType::NORMAL), h) });
    let unl: Vec<i64> = (0..=255u8).filter(|t| !names(*t).1 && names(*t).0.len() == 1 && (i64::from(*t) & not_layered.first().copied().unwrap_or(1)) == 0).map(i64::from).collect();
    let h = "convert_sound_type on all 256 sound types: the one value without the NORMAL bit that yields a single, not layered sample; equals HitSoundType::NONE";
    e.insert("hitsound_none".into(), if unl == vec![i64::from(HitSoundType::NONE)] { val(unl[0].to_string(), h) } else { refuted(format!("{unl:?} const={}", HitSoundType::NONE), h) });

    // ---- path type letters: every char
    let mut bs = vec![];
    let mut lin = vec![];
    let mut per = vec![];
    let mut n = 0u32;
    for c in (0..=0x10FFFFu32).filter_map(char::from_u32) {
        n += 1;
        let s1 = c.to_string();
        let s3 = format!("{c}3");
        let p1 = PathType::new_from_str(&s1);
        let p3 = PathType::new_from_str(&s3);
        if p3.kind == SplineType::BSpline && p3.degree.map(|d| d.get()) == Some(3) && p1 == PathType::BEZIER {
            bs.push(c as i64);
        } else if p1.kind == SplineType::BSpline || p3.kind == SplineType::BSpline {
            bs.push(-(c as i64));
        }
        if p1 == PathType::LINEAR {
            lin.push(c as i64);
        }
        if p1 == PathType::PERFECT_CURVE {
            per.push(c as i64);
        }
    }
    let h = format!("PathType::new_from_str on `c` and `c3` for all {n} chars: the one char read as this path type (for the b-spline letter: `c` is BEZIER and `c3` is the b-spline of degree 3); every other char is CATMULL; confirmed by a decoded slider line");
    let via_line = |c: i64| -> Option<SplineType> {
        let ch = char::from_u32(c as u32)?;
        let d = ho(&format!("0,0,0,2,0,{ch}|100:0|200:50|300:0,1,100"))?;
        match &d.hit_objects.first()?.kind {
            HitObjectKind::Slider(s) => s.path.control_points().first()?.path_type.map(|p| p.kind),
            _ => None,
        }
    };
    for (name, v, kind) in [("path_letter_bspline", &bs, SplineType::BSpline), ("path_letter_linear", &lin, SplineType::Linear), ("path_letter_perfect", &per, SplineType::PerfectCurve)] {
        e.insert(name.into(), if v.len() == 1 && v[0] > 0 && (v[0] >= 128 || !(v[0] as u8 as char).is_ascii_alphabetic() || via_line(v[0]) == Some(kind) || (kind == SplineType::PerfectCurve && via_line(v[0]).is_some())) {
            val(v[0].to_string(), h.clone())
        } else {
            refuted(format!("{v:?}"), h.clone())
        });
    }
}

// ---------------------------------------------------------------------------------------------
// slider events
// ---------------------------------------------------------------------------------------------

fn slider_events(_k: &Kept, e: &mut BTreeMap<String, Entry>) {
    let ticks = |vel: f64, td: f64, total: f64| -> Option<usize> {
        guarded(|| {
            let mut buf = Vec::new();
            SliderEventsIter::new(0.0, 1000.0, vel, td, total, 1, &mut buf).filter(|ev| ev.kind == SliderEventType::Tick).count()
        })
        .ok()
    };
    // ---- MAX_LEN: with an enormous path and velocity 0 a tick at distance t exists iff t < len
    let mut k2 = 1000;
    while k2 > -1000 && ticks(0.0, 2f64.powi(k2), 1e300) == Some(0) {
        k2 -= 1;
    }
    let h = "SliderEventsIter on a path of length 1e300, velocity 0, one span: tick distances 2^k downwards until a tick appears, then bisection over all f64 for the smallest tick distance without a tick = the length the path is capped to";
    e.insert("slider_max_len_dec".into(), match bisect_f64(2f64.powi(k2), 2f64.powi(k2 + 1), |t| ticks(0.0, t, 1e300) == Some(0)) {
        Some((_, len)) if k2 > -1000 && ticks(0.0, len, f64::INFINITY) == Some(0) => one64(len, h),
        other => refuted(format!("{other:?}"), h),
    });
    // ---- min_dist_from_end = velocity * factor: on a path of length L = 2^20 a tick at t exists iff t < L - factor*velocity
    let cap = match e.get("slider_max_len_dec").and_then(|en| en.value.clone()) {
        Some(v) if !v.starts_with("REFUTED") => bisect_f64(2f64.powi(k2), 2f64.powi(k2 + 1), |t| ticks(0.0, t, 1e300) == Some(0)).map_or(1024.0, |x| x.1),
        _ => 1024.0,
    };
    let l = 2f64.powi(cap.log2().floor() as i32 - 1).max(16.0);
    let mut fs = vec![];
    for vel in [1.0f64, 2.0, 0.5, 8.0] {
        if let Some((_, t)) = bisect_f64(l / 2.0 + 1.0, l, |t| ticks(vel, t, l) == Some(0)) {
            fs.push((l - t) / vel);
        }
    }
    let h = "SliderEventsIter on a path of length L = the largest power of two below half the observed length cap, one span, velocities {1, 2, 0.5, 8}: bisection over all f64 in (L/2, L] for the smallest tick distance without a tick; factor = (L - that distance) / velocity (exact); all agree";
    e.insert("min_dist_from_end_factor_dec".into(), match fs.first() {
        Some(&f) if fs.len() == 4 && fs.iter().all(|x| *x == f) => one64(f, h),
        _ => refuted(format!("{fs:?}"), h),
    });
    // ---- TAIL_LENIENCY: time of the last tick of a long single span
    let last = |dur: f64| -> Option<f64> {
        guarded(|| {
            let mut buf = Vec::new();
            SliderEventsIter::new(0.0, dur, 1.0, 0.0, 100.0, 1, &mut buf).find(|ev| ev.kind == SliderEventType::LastTick).map(|ev| ev.time)
        })
        .ok()
        .flatten()
    };
    let mut ls = vec![];
    for dur in [1048576.0f64, 65536.0, 16777216.0] {
        if let Some(t) = last(dur) {
            if t != dur / 2.0 {
                ls.push(t - dur);
            }
        }
    }
    let h = "SliderEventsIter with one span of duration D in {2^20, 2^16, 2^24} from time 0: time of the LastTick event minus D (exact; the event is not at D/2); all agree";
    e.insert("tail_leniency_dec".into(), match ls.first() {
        Some(&t) if ls.len() == 3 && ls.iter().all(|x| *x == t) => one64(t, h),
        _ => refuted(format!("{ls:?}"), h),
    });
}

// ---------------------------------------------------------------------------------------------
// curves
// ---------------------------------------------------------------------------------------------

fn curve_of(mode: GameMode, kind: PathType, pts: &[(f32, f32)]) -> Option<Vec<Pos>> {
    let cps: Vec<PathControlPoint> = pts
        .iter()
        .enumerate()
        .map(|(i, &(x, y))| PathControlPoint { pos: Pos::new(x, y), path_type: (i == 0).then_some(kind) })
        .collect();
    guarded(move || Curve::new(mode, &cps, None, &mut CurveBuffers::default()).path().to_vec()).ok()
}

fn curves(_k: &Kept, e: &mut BTreeMap<String, Entry>) {
    // ---- catmull detail: points per span when nothing is simplified (any mode but osu!)
    let n2 = curve_of(GameMode::Taiko, PathType::CATMULL, &[(0.0, 0.0), (100.0, 30.0)]).map(|p| p.len());
    let n3 = curve_of(GameMode::Mania, PathType::CATMULL, &[(0.0, 0.0), (100.0, 30.0), (150.0, -80.0)]).map(|p| p.len());
    let n5 = curve_of(GameMode::Catch, PathType::CATMULL, &[(0.0, 0.0), (100.0, 30.0), (150.0, -80.0), (300.0, 10.0), (310.0, 200.0)]).map(|p| p.len());
    let h = "number of path points of a Catmull curve outside osu! mode: 2*detail per span, for curves of 1, 2 and 4 spans";
    let detail = match (n2, n3, n5) {
        (Some(a), Some(b), Some(c)) if a % 2 == 0 && b == 2 * a && c == 4 * a && a > 0 => Some(a / 2),
        _ => None,
    };
    e.insert("catmull_detail".into(), match detail { Some(d) => val(d.to_string(), h), None => refuted(format!("{n2:?} {n3:?} {n5:?}"), h) });

    // ---- catmull simplification distance (osu! mode): is the second distinct point of the full path kept?
    let full = |s: f32| curve_of(GameMode::Taiko, PathType::CATMULL, &[(0.0, 0.0), (s, 0.0)]);
    let simp = |s: f32| curve_of(GameMode::Osu, PathType::CATMULL, &[(0.0, 0.0), (s, 0.0)]);
    // (distance of the candidate point from the start, kept?)
    let obs = |s: f32| -> Option<(f32, bool)> {
        let f = full(s)?;
        let o = simp(s)?;
        if f.len() < 4 || o.len() < 2 || f[0] != Pos::new(0.0, 0.0) || o[0] != f[0] || f[1].y != 0.0 || !(f[1].x > 0.0) {
            return None;
        }
        Some((f[1].x, o[1] == f[1]))
    };
    let h = "straight two-point Catmull curve from (0,0) to (s,0): the first point of the unsimplified path (other modes) after the start is kept as second point in osu! mode iff its distance exceeds the constant; bisection over all f32 s in [1, 1e6] and a scan of 64 neighbours each side locate the constant in [lo, hi) (f64_interval); reported: the decimal with the fewest digits in that interval";
    let b = bisect_f32(1.0, 1e6, |s| obs(s).map_or(false, |o| o.1));
    e.insert("catmull_simplify_dist_dec".into(), match b {
        Some((sa, _)) => {
            let mut lo = f64::NEG_INFINITY;
            let mut hi = f64::INFINITY;
            let base = sa.to_bits();
            for d in -64i64..=65 {
                let s = f32::from_bits((i64::from(base) + d) as u32);
                if let Some((x, kept)) = obs(s) {
                    let x = f64::from(x);
                    if kept { hi = hi.min(x) } else { lo = lo.max(x) }
                }
            }
            match (lo < hi).then(|| shortest_in(lo, hi)).flatten() {
                Some(c) => val(dec64(c), format!("{h}; {DEC_HOW}")).f64_bits(&[c]).interval(lo, hi),
                None => refuted(format!("kept/dropped distances overlap: [{lo}, {hi})"), h),
            }
        }
        None => refuted("no threshold between s = 1 and s = 1e6", h),
    });

    // ---- bezier tolerance: three control points (0,0) (100,h) (200,0) are flat enough iff h <= tolerance
    let npts = |hh: f32| curve_of(GameMode::Osu, PathType::BEZIER, &[(0.0, 0.0), (100.0, hh), (200.0, 0.0)]).map(|p| p.len());
    let flat_n = npts(0.0);
    let h = "quadratic Bezier (0,0) (100,h) (200,0): its second difference has length 2h, it is emitted unsubdivided (as many points as for h = 0) iff 2h <= 2*tolerance; bisection over all f32 h in [0, 100] for the largest such h (equal to the tolerance up to the f32 rounding of the two squares compared)";
    e.insert("bezier_tolerance_dec".into(), match bisect_f32(0.0, 100.0, |hh| npts(hh) != flat_n) {
        Some((t, _)) if flat_n.is_some() => one32(t, h),
        other => refuted(format!("{other:?} flat={flat_n:?}"), h),
    });

    // ---- circular arc tolerance: number of points of a semicircle of radius r
    let arc_n = |r: f32| -> Option<usize> {
        let p = curve_of(GameMode::Osu, PathType::PERFECT_CURVE, &[(0.0, 0.0), (r, r), (2.0 * r, 0.0)])?;
        let c = Pos::new(r, 0.0);
        // the path starts with the first control point; the arc's own first point is dropped only
        // when it is bit-for-bit the same, so an almost identical second point is not counted
        let dup = usize::from(p.len() >= 2 && p[0].distance(p[1]) < 1e-3 * r);
        p.iter().all(|q| ((q.distance(c) - r) / r).abs() < 1e-3).then_some(p.len() - dup)
    };
    let mut lo = f64::NEG_INFINITY;
    let mut hi = f64::INFINITY;
    let mut used = 0;
    for m in 2usize..=6 {
        if let Some((ra, rb)) = bisect_f32(0.001, 1000.0, |r| arc_n(r).map_or(false, |n| n > m)) {
            if arc_n(ra) == Some(m) && arc_n(rb) == Some(m + 1) {
                let kk = 1.0 - (std::f64::consts::PI / (2.0 * m as f64)).cos();
                lo = lo.max(f64::from(ra) * kk * (1.0 - 2e-5));
                hi = hi.min(f64::from(rb) * kk * (1.0 + 2e-5));
                used += 1;
            }
        }
    }
    let h = "semicircle through (0,0) (r,r) (2r,0) as a perfect curve: it has more than m points iff tolerance < r*(1 - cos(pi/(2m))); bisection over all f32 r for m = 2..6 gives five brackets, intersected with a relative margin of 2e-5 for the f32 arithmetic of the implementation (f64_interval); reported: the decimal with the fewest digits in the interval. The constant is an f32";
    e.insert("circular_arc_tolerance_dec".into(), match (used == 5 && lo < hi).then(|| shortest_in(lo, hi)).flatten() {
        Some(c) => val(dec64(c), format!("{h}; {DEC_HOW}")).f32_bits(&[c as f32]).interval(lo, hi),
        None => refuted(format!("{used} brackets, [{lo}, {hi})"), h),
    });

    // ---- arc sub-point cap: grow an arc until the arc construction is given up
    let big_arc = |r: f64, phi: f64| -> Option<usize> {
        let a = (r as f32, 0.0f32);
        let b = ((r * (phi / 2.0).cos()) as f32, (r * (phi / 2.0).sin()) as f32);
        let c = ((r * phi.cos()) as f32, (r * phi.sin()) as f32);
        let p = curve_of(GameMode::Osu, PathType::PERFECT_CURVE, &[a, b, c])?;
        let o = Pos::new(0.0, 0.0);
        let dup = usize::from(p.len() >= 2 && f64::from(p[0].distance(p[1])) < 1e-4 * r);
        (p.len() >= 2 && p.iter().all(|q| ((f64::from(q.distance(o)) - r) / r).abs() < 1e-3)).then_some(p.len() - dup)
    };
    let h = "arcs of radius R over an angle phi: R grown by 1.3x (phi = 5) until the path stops being an arc, then for the last good R phi swept from 5 to 6.25 in steps of 0.0005: the point count rises by at most 1 per step up to a largest count, after which the arc construction is given up; cap = largest count + 1";
    let mut r = 100.0f64;
    let mut last_ok = None;
    while r < 1e9 {
        match big_arc(r, 5.0) {
            Some(_) => last_ok = Some(r),
            None => break,
        }
        r *= 1.3;
    }
    e.insert("arc_subpoint_cap".into(), match last_ok {
        Some(r_ok) if r < 1e9 => {
            // several radii: the rounding of the implementation's f32 arithmetic can make the count
            // jump right at the give-up of one sweep; a clean sweep ends at cap - 1
            let mut ends: Vec<usize> = vec![];
            let mut notes = vec![];
            for scale in [1.0f64, 0.97, 0.94, 0.91, 0.88] {
                let r0 = r_ok * scale;
                let mut counts: Vec<usize> = vec![];
                let mut gave_up = false;
                let mut clean = true;
                let mut phi = 5.0f64;
                while phi < 6.25 {
                    match big_arc(r0, phi) {
                        Some(n) if gave_up => {
                            notes.push(format!("R = {r0}: an arc of {n} points after a give-up"));
                            clean = false;
                            break;
                        }
                        Some(n) => counts.push(n),
                        None => gave_up = true,
                    }
                    phi += 0.0005;
                }
                let tail = &counts[counts.len().saturating_sub(40)..];
                let steps_ok = tail.len() == 40 && tail.windows(2).all(|w| w[1] >= w[0] && w[1] - w[0] <= 1);
                let is_max = counts.iter().max() == counts.last();
                if clean && gave_up && steps_ok && is_max {
                    ends.push(*counts.last().unwrap());
                } else {
                    notes.push(format!("R = {r0}: {} counts, last {:?}, gave up {gave_up}, last 40 steps by at most one {steps_ok}", counts.len(), counts.last()));
                }
            }
            let top = ends.iter().max().copied();
            match top {
                Some(n) if ends.iter().filter(|x| **x == n).count() >= 2 => val((n + 1).to_string(), format!("{h}; five radii, the largest final count reached by {} of {} clean sweeps", ends.iter().filter(|x| **x == n).count(), ends.len())),
                _ => none(format!("no two sweeps end cleanly at the same largest count: ends {ends:?}; {notes:?}")),
            }
        }
        _ => none("no radius up to 1e9 makes the arc construction give up"),
    });
}

// ---------------------------------------------------------------------------------------------
// reader
// ---------------------------------------------------------------------------------------------

/// hands the bytes out in chunks of at most `chunk` bytes and counts what was consumed
struct Chunked<'a> {
    data: &'a [u8],
    pos: usize,
    chunk: usize,
    consumed: std::rc::Rc<std::cell::Cell<usize>>,
}
impl Read for Chunked<'_> {
    fn read(&mut self, buf: &mut [u8]) -> std::io::Result<usize> {
        let n = buf.len().min(self.chunk).min(self.data.len() - self.pos);
        buf[..n].copy_from_slice(&self.data[self.pos..self.pos + n]);
        self.pos += n;
        self.consumed.set(self.consumed.get() + n);
        Ok(n)
    }
}
impl BufRead for Chunked<'_> {
    fn fill_buf(&mut self) -> std::io::Result<&[u8]> {
        let n = self.chunk.min(self.data.len() - self.pos);
        Ok(&self.data[self.pos..self.pos + n])
    }
    fn consume(&mut self, amt: usize) {
        self.pos += amt;
        self.consumed.set(self.consumed.get() + amt);
    }
}

fn lines_of(data: &[u8], chunk: usize) -> Option<(usize, Vec<String>)> {
    let consumed = std::rc::Rc::new(std::cell::Cell::new(0));
    let c2 = consumed.clone();
    guarded(move || {
        let rd = Chunked { data, pos: 0, chunk, consumed: c2 };
        let mut d = verif_hooks::LineDecoder::new(rd).ok()?;
        let at_new = consumed.get();
        let mut out = vec![];
        while let Ok(Some(l)) = d.read_line() {
            out.push(l);
            if out.len() > 100 {
                break;
            }
        }
        Some((at_new, out))
    })
    .ok()
    .flatten()
}

fn reader(_k: &Kept, e: &mut BTreeMap<String, Entry>) {
    // ---- from_bom, exhaustively over an alphabet of 7 bytes and lengths 0..4
    // the alphabet: seven fixed bytes, plus every byte that matters in some position of a 3-byte
    // string (found by a scan of all 256^3 strings, so that a changed mark byte is seen as well)
    let mut alpha: Vec<u8> = vec![0x00u8, 0xEF, 0xBB, 0xBF, 0xFE, 0xFF, 0x41];
    let found: Vec<u8> = guarded(|| {
        let dflt = verif_hooks::encoding_from_bom(&[]);
        let mut out: Vec<u8> = vec![];
        for b0 in 0..=255u8 {
            let mut hit1: Vec<u8> = vec![];
            let mut hits2: Vec<(u8, Vec<u8>)> = vec![];
            for b1 in 0..=255u8 {
                let h2: Vec<u8> = (0..=255u8).filter(|b2| verif_hooks::encoding_from_bom(&[b0, b1, *b2]) != dflt).collect();
                if !h2.is_empty() {
                    hit1.push(b1);
                    hits2.push((b1, h2));
                }
            }
            if hit1.is_empty() {
                continue;
            }
            out.push(b0);
            if hit1.len() < 256 {
                out.extend(hit1.iter());
                for (_, h2) in &hits2 {
                    if h2.len() < 256 {
                        out.extend(h2.iter());
                    }
                }
            }
        }
        out
    }).unwrap_or_default();
    for b in found {
        if !alpha.contains(&b) && alpha.len() < 12 {
            alpha.push(b);
        }
    }
    let mut probes: Vec<Vec<u8>> = vec![vec![]];
    let mut level: Vec<Vec<u8>> = vec![vec![]];
    for _ in 0..4 {
        let mut next = vec![];
        for p in &level {
            for &a in &alpha {
                let mut q = p.clone();
                q.push(a);
                next.push(q);
            }
        }
        probes.extend(next.iter().cloned());
        level = next;
    }
    let res: BTreeMap<Vec<u8>, (u8, usize)> = probes.iter().filter_map(|p| guarded(|| verif_hooks::encoding_from_bom(p)).ok().map(|r| (p.clone(), r))).collect();
    let h = format!("encoding_from_bom on all {} byte strings of length 0..4 over the bytes {:02x?} (seven fixed ones and every byte that matters in some position, by a scan of all 256^3 three-byte strings): rows = the shortest prefixes whose every extension gives one and the same non-default answer (longest first, then by descending bytes), then the default row", probes.len(), alpha);
    type Rows = Vec<(Vec<u8>, (u8, usize))>;
    let table = (|| -> Result<(Rows, (u8, usize)), String> {
        if res.len() != probes.len() {
            return Err("a probe panicked".into());
        }
        let dflt = res[&vec![]];
        let mut rows: Rows = vec![];
        for p in &probes {
            let r = res[p];
            if r == dflt || rows.iter().any(|(q, _)| p.starts_with(q)) {
                continue;
            }
            if probes.iter().filter(|x| x.starts_with(p)).all(|x| res[x] == r) {
                rows.push((p.clone(), r));
            }
        }
        // everything must be explained by the rows (first match) and the default
        for p in &probes {
            let want = rows.iter().find(|(q, _)| p.starts_with(q)).map_or(dflt, |x| x.1);
            if res[p] != want {
                return Err(format!("{p:02x?} gives {:?}", res[p]));
            }
        }
        rows.sort_by(|a, b| b.0.len().cmp(&a.0.len()).then(b.0.cmp(&a.0)));
        Ok((rows, dflt))
    })();
    e.insert("bom_table".into(), match &table {
        Ok((rows, dflt)) => {
            let mut txt: Vec<String> = rows.iter().map(|(q, (en, n))| format!("([{}], {en}, {n})", q.iter().map(|b| b.to_string()).collect::<Vec<_>>().join("; "))).collect();
            txt.push(format!("([], {}, {})", dflt.0, dflt.1));
            val(format!("[{}]", txt.join("; ")), h).unordered()
        }
        Err(x) => refuted(x.clone(), h),
    });

    // ---- which index is which encoding.  The byte-order marks used from here on are the ones just
    // observed (a prefix that from_bom consumes entirely), so that these entries do not depend on
    // the bytes of the table.
    let enc_text = |name: &str, t: &str| -> Vec<u8> {
        match name {
            "Utf8" => t.as_bytes().to_vec(),
            "Utf16BE" => t.encode_utf16().flat_map(|u| u.to_be_bytes()).collect(),
            _ => t.encode_utf16().flat_map(|u| u.to_le_bytes()).collect(),
        }
    };
    let (rows, dflt) = table.clone().unwrap_or((vec![], (0, 0)));
    // (index, a stream prefix selecting it)
    let mut selectors: Vec<(u8, Vec<u8>)> = rows.iter().filter(|(q, (_, n))| *n == q.len()).map(|(q, (i, _))| (*i, q.clone())).collect();
    if dflt.1 == 0 {
        selectors.push((dflt.0, vec![]));
    }
    let mut names: BTreeMap<i64, String> = BTreeMap::new();
    let mut sel_of: BTreeMap<String, Vec<Vec<u8>>> = BTreeMap::new();
    let mut ok = table.is_ok();
    for (i, q) in &selectors {
        // which of the three encodings reads `A` + U+4E0B + LF behind this prefix as one line
        let fits: Vec<&str> = ["Utf8", "Utf16BE", "Utf16LE"].into_iter().filter(|nm| {
            let mut data = q.clone();
            data.extend(enc_text(nm, "A\u{4e0b}\n"));
            lines_of(&data, 4096).map(|x| x.1).as_deref() == Some(&["A\u{4e0b}".to_string()])
                && guarded(|| verif_hooks::encoding_decode(*i, &enc_text(nm, "A\u{4e0b}"))).ok().as_deref() == Some("A\u{4e0b}")
        }).collect();
        if fits.len() != 1 {
            ok = false;
            continue;
        }
        match names.insert(i64::from(*i), fits[0].to_string()) {
            Some(old) if old != fits[0] => ok = false,
            _ => {}
        }
        sel_of.entry(fits[0].to_string()).or_default().push(q.clone());
    }
    let h = "for every observed byte-order mark (and for no mark): the index encoding_from_bom returns, and which of UTF-8 / UTF-16BE / UTF-16LE reads `A` + U+4E0B + LF behind that mark as that one line through LineDecoder (confirmed by encoding_decode with the index); list positions = indices, all of 0..n-1 reached; the names are the harness's (the enum is private: a renamed variant cannot be seen, a reordered one can)";
    let idxs: Vec<i64> = names.keys().cloned().collect();
    e.insert("encoding_variants".into(), if ok && !idxs.is_empty() && idxs == (0..idxs.len() as i64).collect::<Vec<_>>() {
        val(coq_string_list(&names.values().cloned().collect::<Vec<_>>()), h)
    } else {
        refuted(format!("{names:?}"), h)
    });
    let mut aligned = true;
    let mut n16 = 0;
    for nm in ["Utf16BE", "Utf16LE"] {
        for q in sel_of.get(nm).cloned().unwrap_or_default() {
            n16 += 1;
            let mut data = q.clone();
            data.extend(enc_text(nm, "A\u{4e0a}\u{0a41}\n\u{4e0a}"));
            if lines_of(&data, 4096).map(|x| x.1).as_deref() != Some(&["A\u{4e0a}\u{0a41}".to_string(), "\u{4e0a}".to_string()]) {
                aligned = false;
            }
        }
    }
    e.insert("read_line_unit_aligned".into(), if n16 >= 2 {
        val(if aligned { "true" } else { "false" },
            "UTF-16BE and UTF-16LE streams (behind the observed marks) holding `A`, U+4E0A, U+0A41 (characters one of whose bytes is 0x0A), a line feed and U+4E0A, through LineDecoder: true iff both come out as the two lines `A` U+4E0A U+0A41 and U+4E0A")
    } else {
        none("no byte-order mark selecting UTF-16BE and UTF-16LE was observed, so no UTF-16 stream can be fed to the line reader")
    });

    // ---- read_bom
    let mut acc = true;
    let mut nmarks = 0;
    for (nm, qs) in &sel_of {
        for q in qs.iter().filter(|q| !q.is_empty()) {
            nmarks += 1;
            let mut data = q.clone();
            data.extend(enc_text(nm, "A\n"));
            for chunk in [1usize, 2, 4096] {
                if lines_of(&data, chunk).map(|x| x.1).as_deref() != Some(&["A".to_string()]) {
                    acc = false;
                }
            }
        }
    }
    e.insert("read_bom_accumulates".into(), if nmarks > 0 {
        val(if acc { "true" } else { "false" },
            format!("streams starting with each of the {nmarks} observed byte-order marks handed to LineDecoder in chunks of 1, 2 and 4096 bytes: true iff the mark is recognised (the first line is `A`) for every chunking"))
    } else {
        none("no byte-order mark was observed")
    });
    let body = b"ABCDEFGHIJKLMNOPQRSTUVWXYZ\n";
    let taken: Vec<Option<usize>> = [1usize, 2, 5, 4096].iter().map(|c| lines_of(body, *c).map(|x| x.0)).collect();
    let h = "bytes LineDecoder::new has consumed from a reader (26 letters and a line feed, no BOM) that hands out chunks of 1, 2, 5 and 4096 bytes: the same number for every chunking";
    e.insert("read_bom_min_len".into(), match taken[0] {
        Some(n) if acc && taken.iter().all(|x| *x == Some(n)) => val(n.to_string(), h),
        _ if !acc => none(format!("read_bom does not accumulate (see read_bom_accumulates); the minimum chunk length of that shape is not visible as a consumed-byte count ({taken:?})")),
        _ => refuted(format!("{taken:?}"), h),
    });
}

// ---------------------------------------------------------------------------------------------
// entry point
// ---------------------------------------------------------------------------------------------

pub fn run(out_path: &str, generated: Option<&str>) -> i32 {
    let t0 = std::time::Instant::now();
    let kept = load_kept(generated);
    let mut e: BTreeMap<String, Entry> = BTreeMap::new();
    let parts: [(&str, fn(&Kept, &mut BTreeMap<String, Entry>)); 7] = [
        ("basics", basics),
        ("defaults_and_clamps", defaults_and_clamps),
        ("timing", timing),
        ("hit_objects", hit_objects),
        ("slider_events", slider_events),
        ("curves", curves),
        ("reader", reader),
    ];
    for (name, f) in parts {
        let t = std::time::Instant::now();
        let before: Vec<String> = e.keys().cloned().collect();
        MISSING.with(|m| m.borrow_mut().clear());
        if let Err(msg) = guarded(|| f(&kept, &mut e)) {
            eprintln!("consts: part {name} panicked: {msg}");
        }
        // a probe that had to write a section header the compiled crate does not read has observed
        // nothing: its refutation says "cannot be observed", not "different"
        let missing = MISSING.with(|m| m.borrow().clone());
        if !missing.is_empty() {
            for (k, en) in e.iter_mut() {
                if before.contains(k) || k.starts_with("section_") {
                    continue;
                }
                if let Some(v) = en.value.clone().filter(|v| v.starts_with("REFUTED(")) {
                    *en = none(format!("the probes of this group write the section header(s) {missing:?}, which the compiled crate does not read under any spelling tried (see section_table); this probe then found: {v}"));
                }
            }
        }
        eprintln!("consts: {name} {:.2}s", t.elapsed().as_secs_f64());
    }
    let mut out = String::from("{\n");
    let mut first = true;
    let mut missing = 0;
    for n in &kept.names {
        let en = e.remove(n).unwrap_or_else(|| {
            missing += 1;
            none("no probe implemented for this name")
        });
        if !first {
            out.push_str(",\n");
        }
        first = false;
        out.push_str(&format!(" {}: {}", js(n), en.render()));
    }
    // names derived but absent from Generated.v
    for (n, en) in &e {
        out.push_str(&format!(",\n {}: {}", js(n), en.render()));
    }
    out.push_str("\n}\n");
    if let Err(err) = std::fs::write(out_path, out) {
        eprintln!("cannot write {out_path}: {err}");
        return 1;
    }
    println!("consts: {} names from {} ({} without a probe, {} extra) in {:.2}s", kept.names.len(), kept.source, missing, e.len(), t0.elapsed().as_secs_f64());
    0
}

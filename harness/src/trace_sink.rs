//! A minimal `tracing` subscriber that formats every event it receives (and
//! throws the text away), so that with the crate's `tracing` feature enabled
//! every error `Display` implementation is really executed.
#![cfg(feature = "tracing")]
use std::fmt::Write;
use std::sync::atomic::{AtomicU64, Ordering};
use tracing::field::{Field, Visit};
use tracing::span::{Attributes, Id, Record};
use tracing::{Event, Metadata, Subscriber};

pub static EVENTS: AtomicU64 = AtomicU64::new(0);
pub static BYTES: AtomicU64 = AtomicU64::new(0);

struct Sink;
struct V(String);

impl Visit for V {
    fn record_debug(&mut self, field: &Field, value: &dyn std::fmt::Debug) {
        let _ = write!(self.0, "{}={:?};", field.name(), value);
    }
}

impl Subscriber for Sink {
    fn enabled(&self, _: &Metadata<'_>) -> bool {
        true
    }
    fn new_span(&self, _: &Attributes<'_>) -> Id {
        Id::from_u64(1)
    }
    fn record(&self, _: &Id, _: &Record<'_>) {}
    fn record_follows_from(&self, _: &Id, _: &Id) {}
    fn event(&self, event: &Event<'_>) {
        let mut v = V(String::new());
        event.record(&mut v);
        EVENTS.fetch_add(1, Ordering::Relaxed);
        BYTES.fetch_add(v.0.len() as u64, Ordering::Relaxed);
    }
    fn enter(&self, _: &Id) {}
    fn exit(&self, _: &Id) {}
}

pub fn install() {
    let _ = tracing::subscriber::set_global_default(Sink);
}

//! C13: control-point collections — cases, implementation run, oracle.
use crate::out::Out;
use crate::proto::Line;
use crate::rng::Rng;
use rosu_map::section::hit_objects::hit_samples::SampleBank;
use rosu_map::section::timing_points::{
    ControlPoints, DifficultyPoint, EffectPoint, SamplePoint, TimeSignature, TimingPoint,
};

#[derive(Clone, Debug)]
pub enum Op {
    AddT(f64, f64, bool, i32),
    AddD(f64, f64, bool),
    AddE(f64, bool, f64),
    AddS(f64, i32, i32, i32),
    LookT(f64),
    LookD(f64),
    LookE(f64),
    LookS(f64),
}

fn bank(i: i32) -> SampleBank {
    match i {
        0 => SampleBank::None,
        1 => SampleBank::Normal,
        2 => SampleBank::Soft,
        _ => SampleBank::Drum,
    }
}

fn dump_t(l: &mut Line, p: &TimingPoint) {
    l.f64(p.time).f64(p.beat_len).b(p.omit_first_bar_line).i(p.time_signature.numerator.get() as i128);
}
fn dump_d(l: &mut Line, p: &DifficultyPoint) {
    l.f64(p.time).f64(p.slider_velocity).b(p.generate_ticks);
}
fn dump_e(l: &mut Line, p: &EffectPoint) {
    l.f64(p.time).b(p.kiai).f64(p.scroll_speed);
}
fn dump_s(l: &mut Line, p: &SamplePoint) {
    l.f64(p.time).i(p.sample_bank as i128).i(p.sample_volume as i128).i(p.custom_sample_bank as i128);
}
pub fn dump_cp(l: &mut Line, c: &ControlPoints) {
    l.i(c.timing_points.len() as i128);
    for p in &c.timing_points {
        dump_t(l, p);
    }
    l.i(c.difficulty_points.len() as i128);
    for p in &c.difficulty_points {
        dump_d(l, p);
    }
    l.i(c.effect_points.len() as i128);
    for p in &c.effect_points {
        dump_e(l, p);
    }
    l.i(c.sample_points.len() as i128);
    for p in &c.sample_points {
        dump_s(l, p);
    }
}

fn key(x: f64) -> i64 {
    // the documented total order of f64::total_cmp
    let mut b = x.to_bits() as i64;
    b ^= (((b >> 63) as u64) >> 1) as i64;
    b
}

/// declarative lookup: latest point not after t (total order), linear scan
fn scan<'a, P>(l: &'a [P], time: impl Fn(&P) -> f64, t: f64) -> Option<&'a P> {
    let mut best: Option<&P> = None;
    for p in l {
        if key(time(p)) <= key(t) {
            match best {
                Some(b) if key(time(b)) > key(time(p)) => {}
                _ => best = Some(p),
            }
        }
    }
    best
}

fn strictly_sorted(ts: &[f64]) -> bool {
    ts.windows(2).all(|w| key(w[0]) < key(w[1]))
}
fn numerically_strict(ts: &[f64]) -> bool {
    ts.windows(2).all(|w| w[0] < w[1])
}

fn describe(ops: &[Op]) -> String {
    format!("{:?}", ops)
}

pub fn run_case(ops: &[Op], out: &mut Out) {
    let mut case = Line::entry("c13");
    let mut res = Line::new();
    let mut c = ControlPoints::default();
    let desc = describe(ops);
    let mut n_add = 0;
    let mut n_dropped = 0;
    let mut n_replaced = 0;
    for op in ops {
        let before = c.clone();
        match *op {
            Op::AddT(t, b, o, s) => {
                case.i(0).f64(t).f64(b).b(o).i(s as i128);
                c.add(TimingPoint {
                    time: t,
                    beat_len: b,
                    omit_first_bar_line: o,
                    time_signature: TimeSignature::new(s).unwrap(),
                });
                n_add += 1;
            }
            Op::AddD(t, v, g) => {
                case.i(1).f64(t).f64(v).b(g);
                c.add(DifficultyPoint { time: t, slider_velocity: v, generate_ticks: g });
                n_add += 1;
            }
            Op::AddE(t, k, s) => {
                case.i(2).f64(t).b(k).f64(s);
                c.add(EffectPoint { time: t, kiai: k, scroll_speed: s });
                n_add += 1;
            }
            Op::AddS(t, b, v, cu) => {
                case.i(3).f64(t).i(b as i128).i(v as i128).i(cu as i128);
                c.add(SamplePoint { time: t, sample_bank: bank(b), sample_volume: v, custom_sample_bank: cu });
                n_add += 1;
            }
            Op::LookT(t) => {
                case.i(4).f64(t);
                let r = c.timing_point_at(t);
                match r {
                    Some(p) => {
                        res.i(1);
                        dump_t(&mut res, p)
                    }
                    None => {
                        res.i(0);
                    }
                }
                let want = scan(&c.timing_points, |p| p.time, t).or(c.timing_points.first());
                out.oracle_checks += 1;
                if r != want {
                    out.fail(zero_class(&c, t), &desc, &format!("timing_point_at({t:?}) = {r:?}, linear scan = {want:?}"));
                }
            }
            Op::LookD(t) => {
                case.i(5).f64(t);
                let r = c.difficulty_point_at(t);
                res.i(0);
                match r {
                    Some(p) => {
                        res.i(1);
                        dump_d(&mut res, p)
                    }
                    None => {
                        res.i(0);
                    }
                }
                let want = scan(&c.difficulty_points, |p| p.time, t);
                out.oracle_checks += 1;
                if r != want {
                    out.fail("", &desc, &format!("difficulty_point_at({t:?}) = {r:?}, linear scan = {want:?}"));
                }
                // numeric reading of "not after": a point at +0.0 is not after -0.0
                let want_num = c.difficulty_points.iter().filter(|p| p.time <= t).last();
                if r != want_num {
                    out.fail(zero_class(&c, t), &desc, &format!("difficulty_point_at({t:?}) = {r:?}, numeric scan = {want_num:?}"));
                }
            }
            Op::LookE(t) => {
                case.i(6).f64(t);
                let r = c.effect_point_at(t);
                res.i(0);
                match r {
                    Some(p) => {
                        res.i(1);
                        dump_e(&mut res, p)
                    }
                    None => {
                        res.i(0);
                    }
                }
                let want = scan(&c.effect_points, |p| p.time, t);
                out.oracle_checks += 1;
                if r != want {
                    out.fail("", &desc, &format!("effect_point_at({t:?}) = {r:?}, linear scan = {want:?}"));
                }
            }
            Op::LookS(t) => {
                case.i(7).f64(t);
                let r = c.sample_point_at(t);
                match r {
                    Some(p) => {
                        res.i(1);
                        dump_s(&mut res, p)
                    }
                    None => {
                        res.i(0);
                    }
                }
                let want = scan(&c.sample_points, |p| p.time, t).or(c.sample_points.first());
                out.oracle_checks += 1;
                if r != want {
                    out.fail("", &desc, &format!("sample_point_at({t:?}) = {r:?}, linear scan = {want:?}"));
                }
            }
        }
        // oracle after every add: order, uniqueness, "redundant => unchanged",
        // and "only the list of that kind changes"
        if !matches!(op, Op::LookT(_) | Op::LookD(_) | Op::LookE(_) | Op::LookS(_)) {
            out.oracle_checks += 1;
            let tt: Vec<f64> = c.timing_points.iter().map(|p| p.time).collect();
            let td: Vec<f64> = c.difficulty_points.iter().map(|p| p.time).collect();
            let te: Vec<f64> = c.effect_points.iter().map(|p| p.time).collect();
            let ts: Vec<f64> = c.sample_points.iter().map(|p| p.time).collect();
            for (nm, l) in [("timing", &tt), ("difficulty", &td), ("effect", &te), ("sample", &ts)] {
                if !strictly_sorted(l) {
                    out.fail("", &desc, &format!("{nm} list not strictly increasing (total order): {l:?}"));
                } else if !numerically_strict(l) {
                    let only_zero = l.windows(2).all(|w| w[0] < w[1] || (w[0] == 0.0 && w[1] == 0.0));
                    out.fail(if only_zero { "D8" } else { "" }, &desc, &format!("{nm} list has two points at numerically equal time: {l:?}"));
                }
            }
            if c == before {
                n_dropped += 1;
            }
            match *op {
                Op::AddD(t, v, g) => {
                    let active = scan(&before.difficulty_points, |p| p.time, t).cloned().unwrap_or_default();
                    let red = active.generate_ticks == g && (v - active.slider_velocity).abs() < f64::EPSILON;
                    if red && c != before {
                        out.fail("", &desc, "redundant difficulty point was stored");
                    }
                    if !red && !c.difficulty_points.iter().any(|p| key(p.time) == key(t) && p.slider_velocity.to_bits() == v.to_bits() && p.generate_ticks == g) {
                        out.fail("", &desc, "non-redundant difficulty point missing after add");
                    }
                    if c.timing_points != before.timing_points || c.effect_points != before.effect_points || c.sample_points != before.sample_points {
                        out.fail("", &desc, "difficulty add changed another list");
                    }
                    if !red && c.difficulty_points.len() == before.difficulty_points.len() {
                        n_replaced += 1;
                    }
                }
                Op::AddE(t, k, s) => {
                    let active = scan(&before.effect_points, |p| p.time, t).cloned().unwrap_or_default();
                    let red = active.kiai == k && (s - active.scroll_speed).abs() < f64::EPSILON;
                    if red && c != before {
                        out.fail("", &desc, "redundant effect point was stored");
                    }
                    if !red && !c.effect_points.iter().any(|p| key(p.time) == key(t) && p.scroll_speed.to_bits() == s.to_bits() && p.kiai == k) {
                        out.fail("", &desc, "non-redundant effect point missing after add");
                    }
                    if c.timing_points != before.timing_points || c.difficulty_points != before.difficulty_points || c.sample_points != before.sample_points {
                        out.fail("", &desc, "effect add changed another list");
                    }
                }
                Op::AddS(t, b, v, cu) => {
                    let active = scan(&before.sample_points, |p| p.time, t);
                    let red = active.map_or(false, |a| a.sample_bank == bank(b) && a.sample_volume == v && a.custom_sample_bank == cu);
                    if red && c != before {
                        out.fail("", &desc, "redundant sample point was stored");
                    }
                    if !red && !c.sample_points.iter().any(|p| key(p.time) == key(t) && p.sample_bank == bank(b) && p.sample_volume == v && p.custom_sample_bank == cu) {
                        out.fail("", &desc, "non-redundant sample point missing after add");
                    }
                    if c.timing_points != before.timing_points || c.difficulty_points != before.difficulty_points || c.effect_points != before.effect_points {
                        out.fail("", &desc, "sample add changed another list");
                    }
                }
                Op::AddT(t, ..) => {
                    if !c.timing_points.iter().any(|p| key(p.time) == key(t)) {
                        out.fail("", &desc, "timing point missing after add");
                    }
                    if c.sample_points != before.sample_points || c.difficulty_points != before.difficulty_points || c.effect_points != before.effect_points {
                        out.fail("", &desc, "timing add changed another list");
                    }
                }
                _ => {}
            }
        }
    }
    dump_cp(&mut res, &c);
    out.count_n("ops.add", n_add);
    out.count_n("ops.add.dropped_as_redundant", n_dropped);
    out.count_n("ops.add.replaced_existing", n_replaced);
    out.count_n("ops.lookup", ops.len() as u64 - n_add);
    let stored = c.timing_points.len() + c.difficulty_points.len() + c.effect_points.len() + c.sample_points.len();
    out.count(&format!("final_points.{}", stored.min(9)));
    out.case(case.0, res.0, desc, stored >= 2 && n_add >= 3);
}

/// D8: a lookup at -0.0 / +0.0 with a point stored at the other zero
fn zero_class(c: &ControlPoints, t: f64) -> &'static str {
    let has_zero = |ts: Vec<f64>| ts.iter().any(|x| *x == 0.0);
    if t == 0.0
        && (has_zero(c.difficulty_points.iter().map(|p| p.time).collect())
            || has_zero(c.timing_points.iter().map(|p| p.time).collect()))
    {
        "D8"
    } else {
        ""
    }
}

const TIMES: [f64; 10] = [-1.0, 0.0, 1.0, 2.0, -0.0, 0.5, 1.5, 1e9, -2147483647.0, 3.0];
// includes pairs that differ by rounding noise only (|a-b| < f64::EPSILON but a != b)
const SVS: [f64; 10] = [1.0, 2.0, 0.5, 1.0000000000000002, 0.1, 10.0, 0.3, 0.30000000000000004, 0.75, 0.7500000000000001];

fn rand_time(r: &mut Rng) -> f64 {
    match r.below(10) {
        0..=5 => *r.pick(&TIMES[..6]),
        6 => *r.pick(&TIMES),
        7 => (r.range(-50, 50) as f64) / 4.0,
        8 => r.unit() * 1e6 - 5e5,
        _ => f64::from_bits(r.next() & 0xfff0_0000_0000_0000 | (r.next() >> 12)).clamp(-1e300, 1e300),
    }
}

fn rand_op(r: &mut Rng, kinds: u32) -> Op {
    let t = rand_time(r);
    let t = if t.is_nan() { 0.0 } else { t };
    let k = loop {
        let k = r.below(4) as u32;
        if kinds & (1 << k) != 0 {
            break k;
        }
    };
    let look = r.chance(1, 3);
    match (k, look) {
        // the public fields take any value: one add in eight carries a value outside the range
        // the decoder would clamp to (the collection must store what it is given)
        (0, false) if r.chance(1, 8) => Op::AddT(t, *r.pick(&[5.0, 1e6, 60000.0, 60001.0, 0.0, -500.0]), r.chance(1, 4), *r.pick(&[4, 1, 99])),
        (1, false) if r.chance(1, 8) => Op::AddD(t, *r.pick(&[0.05, 20.0, 10.0, 10.000000000000002, 0.0, -1.0, 1e300]), !r.chance(1, 5)),
        (2, false) if r.chance(1, 8) => Op::AddE(t, r.chance(1, 2), *r.pick(&[12.0, 10.0, 0.001, 0.01, 0.0, -3.0, 1e300, 10.000000000000002])),
        (3, false) if r.chance(1, 8) => Op::AddS(t, r.below(4) as i32, *r.pick(&[150, -5, 100, 101, i32::MAX, i32::MIN]), *r.pick(&[0, -1, 9999])),
        (0, false) => Op::AddT(t, *r.pick(&[500.0, 6.0, 1000.0, 333.3]), r.chance(1, 4), *r.pick(&[4, 3, 7])),
        (1, false) => Op::AddD(t, *r.pick(&SVS), !r.chance(1, 5)),
        (2, false) => Op::AddE(t, r.chance(1, 2), *r.pick(&[1.0, 1.0, 2.0, 0.01, 1.0000000000000002, 0.3, 0.30000000000000004])),
        (3, false) => Op::AddS(t, r.below(4) as i32, *r.pick(&[100, 50, 0]), *r.pick(&[0, 1, 2])),
        (0, true) => Op::LookT(t),
        (1, true) => Op::LookD(t),
        (2, true) => Op::LookE(t),
        _ => Op::LookS(t),
    }
}

pub const RULE: &str = "add/lookup histories over the public ControlPoints API: exhaustive over a small alphabet (per kind and mixed kinds) followed by lookups at every probe, plus random long histories with fractional/negative/extreme times; non-trivial = at least 3 adds and at least 2 points stored at the end; distinct = distinct case lines";

pub fn generate(tier: &str, seed: u64, out: &mut Out) {
    let mut r = Rng::new(seed ^ 0xC13);
    // corpus: the recorded readings / findings first
    run_case(&[Op::AddD(1.0, 2.0, true), Op::AddD(0.0, 2.0, true), Op::LookD(0.5)], out);
    run_case(&[Op::AddD(0.0, 2.0, true), Op::LookD(-0.0), Op::LookD(0.0)], out);
    run_case(&[Op::AddT(0.0, 500.0, false, 4), Op::AddT(10.0, 500.0, false, 4), Op::AddT(-0.0, 400.0, false, 4), Op::LookT(-0.0)], out);
    // exhaustive: all add sequences over a small alphabet, each followed by
    // lookups at every probe
    let probes = [-2.0, -1.0, -0.5, -0.0, 0.0, 0.5, 1.0, 1.5, 2.0, 3.0];
    let (maxlen_single, maxlen_mixed) = if tier == "thorough" { (5, 3) } else { (3, 2) };
    for kind in 0..4u32 {
        let mut alpha: Vec<Op> = vec![];
        for t in [-1.0, 0.0, 1.0, 2.0] {
            for v in 0..2 {
                alpha.push(match kind {
                    0 => Op::AddT(t, [500.0, 250.0][v], false, 4),
                    1 => Op::AddD(t, [1.0, 2.0][v], true),
                    2 => Op::AddE(t, v == 1, 1.0),
                    _ => Op::AddS(t, 1, [100, 50][v], 0),
                });
            }
        }
        for len in 1..=maxlen_single {
            let total = alpha.len().pow(len as u32);
            for mut idx in 0..total {
                let mut ops = vec![];
                for _ in 0..len {
                    ops.push(alpha[idx % alpha.len()].clone());
                    idx /= alpha.len();
                }
                for p in probes {
                    ops.push(match kind {
                        0 => Op::LookT(p),
                        1 => Op::LookD(p),
                        2 => Op::LookE(p),
                        _ => Op::LookS(p),
                    });
                }
                run_case(&ops, out);
            }
        }
    }
    {
        let mut alpha: Vec<Op> = vec![];
        for t in [0.0, 1.0] {
            for v in 0..2 {
                alpha.push(Op::AddT(t, [500.0, 250.0][v], false, 4));
                alpha.push(Op::AddD(t, [1.0, 2.0][v], true));
                alpha.push(Op::AddE(t, v == 1, 1.0));
                alpha.push(Op::AddS(t, 1, [100, 50][v], 0));
            }
        }
        for len in 1..=maxlen_mixed {
            let total = alpha.len().pow(len as u32);
            for mut idx in 0..total {
                let mut ops = vec![];
                for _ in 0..len {
                    ops.push(alpha[idx % alpha.len()].clone());
                    idx /= alpha.len();
                }
                for p in [-0.5, 0.0, 0.5, 1.0, 1.5] {
                    ops.push(Op::LookT(p));
                    ops.push(Op::LookD(p));
                    ops.push(Op::LookE(p));
                    ops.push(Op::LookS(p));
                }
                run_case(&ops, out);
            }
        }
    }
    // random long histories with fractional, negative and extreme times
    let n = if tier == "thorough" { 20000 } else { 1500 };
    for i in 0..n {
        let len = if i % 10 == 0 { r.range(20, 60) } else { r.range(1, 16) } as usize;
        let kinds = if r.chance(1, 2) { 0xF } else { 1 << r.below(4) };
        let ops: Vec<Op> = (0..len).map(|_| rand_op(&mut r, kinds)).collect();
        run_case(&ops, out);
    }
}

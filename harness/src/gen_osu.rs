//! Structured generator of `.osu` text, shared by the file-level properties
//! (C01, C02, C03, C04, C06, C07, C15).  Every choice derives from the one PRNG.
//!
//! `level` 0: well-formed, chronological, modest numbers (the C02 domain)
//!         1: + hostile-but-accepted numerics, odd spacing, comments, repeats
//!         2: + malformed fields, unknown keys, shuffled / repeated sections
use crate::rng::Rng;

pub struct Opts {
    pub level: u8,
    pub mode: Option<u8>,
    pub chronological: bool,
    pub max_objects: usize,
    pub max_timing: usize,
}

impl Default for Opts {
    fn default() -> Self {
        Opts { level: 0, mode: None, chronological: true, max_objects: 12, max_timing: 8 }
    }
}

const WORDS: [&str; 14] = [
    "song", "Re:Zero", "a//b", "x,y", "\"q\"", "[General]", "osu file format v9", "日本語", "ümlaut",
    "tab\there", "a:b:c", "  padded", "Combo1", "0",
];

pub fn text(r: &mut Rng, level: u8) -> String {
    let n = r.range(1, 3) as usize;
    let mut s = String::new();
    for i in 0..n {
        if i > 0 {
            s.push(' ');
        }
        if level == 0 {
            s.push_str(*r.pick(&["song", "title", "日本語", "ümlaut", "mix", "x-y", "(TV Size)"]));
        } else {
            s.push_str(*r.pick(&WORDS));
        }
    }
    s.trim().to_string()
}

/// an integer literal
pub fn int(r: &mut Rng, level: u8, lo: i64, hi: i64) -> String {
    if level >= 1 && r.chance(1, 6) {
        return r
            .pick(&[
                "2147483647", "-2147483647", "2147483648", "-2147483648", "0", "-0", "+5", " 7 ", "007", "1e3", "1.5",
                "", "9999999999999999999", "x", "0x10", "１",
            ])
            .to_string();
    }
    r.range(lo, hi).to_string()
}

/// a float literal
pub fn float(r: &mut Rng, level: u8, lo: f64, hi: f64) -> String {
    if level >= 1 && r.chance(1, 6) {
        return r
            .pick(&[
                "0", "-0", "1e3", "1E-3", ".5", "5.", "+2.5", "2147483647", "-2147483647", "2147483648", "1e10", "1e400",
                "-1e400", "nan", "NaN", "inf", "-inf", "infinity", "1e-400", "4.9e-324", "0.1", "1.0000000000000002",
                "3.4028236e38", "16777217", "0.30000000000000004", " 1.5 ", "1,5", "", "abc", "1e", "--1", "1_0",
                "123456789012345678901234567890", "0.000000000000000000000000000001",
            ])
            .to_string();
    }
    let v = lo + (hi - lo) * r.unit();
    match r.below(4) {
        0 => format!("{}", v.round()),
        1 => format!("{:.1}", v),
        2 => format!("{:.3}", v),
        _ => format!("{}", v),
    }
}

fn kv(style: u64, level: u8, k: &str, v: &str) -> String {
    if level >= 1 {
        match style % 8 {
            0 => format!("{k}:{v}"),
            1 => format!("{k} : {v}"),
            2 => format!("{k}: {v} // comment"),
            3 => format!("  {k}:\t{v}  "),
            _ => format!("{k}: {v}"),
        }
    } else {
        format!("{k}: {v}")
    }
}

pub fn general(r: &mut Rng, o: &Opts, mode: u8, out: &mut Vec<String>) {
    let l = o.level;
    out.push(kv(r.next(), l, "AudioFilename", &format!("{}.mp3", text(r, l.min(1)).replace(' ', "_"))));
    out.push(kv(r.next(), l, "AudioLeadIn", &int(r, l, 0, 3000)));
    out.push(kv(r.next(), l, "PreviewTime", &int(r, l, -1, 200000)));
    out.push(kv(r.next(), l, "Countdown", &int(r, l, 0, 3)));
    out.push(kv(r.next(), l, "SampleSet", *r.pick(&["Normal", "Soft", "Drum", "None", "1", "2"])));
    if r.chance(1, 2) {
        out.push(kv(r.next(), l, "SampleVolume", &int(r, l, 0, 100)));
    }
    out.push(kv(r.next(), l, "StackLeniency", &float(r, l, 0.0, 1.0)));
    out.push(kv(r.next(), l, "Mode", &mode.to_string()));
    out.push(kv(r.next(), l, "LetterboxInBreaks", &int(r, l, 0, 1)));
    if r.chance(1, 3) {
        out.push(kv(r.next(), l, "EpilepsyWarning", &int(r, l, 0, 1)));
    }
    if r.chance(1, 3) {
        out.push(kv(r.next(), l, "CountdownOffset", &int(r, l, -2, 5)));
    }
    if r.chance(1, 3) {
        out.push(kv(r.next(), l, "SpecialStyle", &int(r, l, 0, 1)));
    }
    out.push(kv(r.next(), l, "WidescreenStoryboard", &int(r, l, 0, 1)));
    if r.chance(1, 3) {
        out.push(kv(r.next(), l, "SamplesMatchPlaybackRate", &int(r, l, 0, 1)));
    }
    if l >= 2 && r.chance(1, 3) {
        out.push(kv(r.next(), l, "UnknownKey", "1"));
        out.push("no colon here".to_string());
    }
}

pub fn editor(r: &mut Rng, o: &Opts, out: &mut Vec<String>) {
    let l = o.level;
    if r.chance(2, 3) {
        let n = r.range(0, 5);
        let b: Vec<String> = (0..n).map(|_| int(r, l, 0, 300000)).collect();
        out.push(kv(r.next(), l, "Bookmarks", &b.join(",")));
    }
    out.push(kv(r.next(), l, "DistanceSpacing", &float(r, l, 0.1, 3.0)));
    out.push(kv(r.next(), l, "BeatDivisor", &int(r, l, 1, 16)));
    out.push(kv(r.next(), l, "GridSize", &int(r, l, 1, 32)));
    out.push(kv(r.next(), l, "TimelineZoom", &float(r, l, 0.1, 5.0)));
}

pub fn metadata(r: &mut Rng, o: &Opts, out: &mut Vec<String>) {
    let l = o.level;
    for k in ["Title", "TitleUnicode", "Artist", "ArtistUnicode", "Creator", "Version", "Source", "Tags"] {
        if r.chance(5, 6) {
            let v = text(r, l);
            // metadata is not comment-stripped: no "// comment" decoration
            out.push(format!("{k}:{v}"));
        }
    }
    out.push(format!("BeatmapID:{}", int(r, l, -1, 5000000)));
    out.push(format!("BeatmapSetID:{}", int(r, l, -1, 5000000)));
}

pub fn difficulty(r: &mut Rng, o: &Opts, out: &mut Vec<String>) {
    let l = o.level;
    let mut keys = vec!["HPDrainRate", "CircleSize", "OverallDifficulty", "ApproachRate", "SliderMultiplier", "SliderTickRate"];
    if l >= 1 && r.chance(1, 2) {
        keys.swap(2, 3);
    }
    if r.chance(1, 5) {
        keys.retain(|k| *k != "ApproachRate");
    }
    for k in keys {
        let v = match k {
            "SliderMultiplier" => float(r, l, 0.2, 4.0),
            "SliderTickRate" => float(r, l, 0.3, 9.0),
            _ => float(r, l, 0.0, 10.0),
        };
        out.push(kv(r.next(), l, k, &v));
    }
}

pub fn events(r: &mut Rng, o: &Opts, last_time: f64, out: &mut Vec<String>) {
    let l = o.level;
    out.push("//Background and Video events".to_string());
    if r.chance(2, 3) {
        out.push(format!("0,0,\"{}\",0,0", *r.pick(&["bg.jpg", "my bg.png", "a\\b.jpg", "BG.JPG", "clip.mp4", "Loop.AVI", "sb/intro.mov", "x.flv"])));
    }
    if r.chance(1, 4) {
        out.push(format!("Video,0,\"{}\"", *r.pick(&["v.mp4", "v.AVI", "image.jpg", "x.m4v"])));
    }
    if r.chance(1, 5) {
        out.push(format!("4,0,0,\"{}\",320,240", *r.pick(&["sprite.png", "sprite.png", "sb/intro.avi", "s.MP4", "sp.wmv"])));
    }
    out.push("//Break Periods".to_string());
    let nb = r.range(0, 3);
    let mut t = r.unit() * last_time * 0.3;
    for _ in 0..nb {
        let len = 200.0 + r.unit() * 3000.0;
        if o.chronological || r.chance(3, 4) {
            out.push(format!("2,{},{}", t.round(), (t + len).round()));
        } else {
            out.push(format!("Break,{},{}", float(r, l, -100.0, last_time), float(r, l, -100.0, last_time)));
        }
        t += len + r.unit() * last_time * 0.3;
    }
    if l >= 2 && r.chance(1, 3) {
        out.push("2,abc,100".to_string());
        out.push("99,0,0".to_string());
        out.push("0,0".to_string());
    }
}

pub fn timing_points(r: &mut Rng, o: &Opts, last_time: f64, out: &mut Vec<String>) {
    let l = o.level;
    let n = r.range(1, o.max_timing as i64) as usize;
    let mut t = if r.chance(1, 4) { -(r.range(0, 500) as f64) } else { r.range(0, 2000) as f64 };
    for i in 0..n {
        let timing = i == 0 || r.chance(1, 4);
        let bl = if timing {
            if l >= 1 && r.chance(1, 8) {
                float(r, l, -100.0, 70000.0)
            } else {
                format!("{}", *r.pick(&[500.0, 333.33, 375.0, 461.538461538462, 1000.0, 6.0, 60000.0]))
            }
        } else if l >= 1 && r.chance(1, 8) {
            r.pick(&["-10000", "-5", "-1000.5", "NaN", "-0", "0", "-1e-5", "-100000"]).to_string()
        } else {
            format!("{}", *r.pick(&[-100.0, -50.0, -200.0, -133.333333333333, -66.6666666666667, -80.0, -1000.0, -10.0]))
        };
        let tt = if l >= 1 && r.chance(1, 10) { float(r, l, -1000.0, last_time) } else { format!("{}", t) };
        let fields = [
            tt,
            bl,
            int(r, l, 3, 7),
            int(r, l, 0, 3),
            int(r, l, 0, 3),
            int(r, l, 0, 100),
            if timing { "1".into() } else { "0".into() },
            r.pick(&["0", "1", "8", "9"]).to_string(),
        ];
        let keep = if l >= 1 && r.chance(1, 5) { r.range(2, 8) as usize } else { 8 };
        out.push(fields[..keep].join(","));
        // same-time groups
        if r.chance(1, 4) {
            // next line shares the time
        } else if o.chronological || r.chance(4, 5) {
            t += r.range(1, 20) as f64 * 250.0 * if r.chance(1, 5) { 0.37 } else { 1.0 };
        } else {
            t -= r.range(1, 2000) as f64;
        }
        if t > last_time {
            t = last_time;
        }
    }
}

pub fn colours(r: &mut Rng, o: &Opts, out: &mut Vec<String>) {
    let l = o.level;
    // the format puts no bound on the number of combo colours
    let roll = r.next() % 40;
    if roll == 1 {
        // exactly the crate's default palette, spelled out in the file
        for (i, c) in rosu_map::section::colors::Colors::DEFAULT_COMBO_COLORS.iter().enumerate() {
            out.push(format!("Combo{}: {},{},{}", i + 1, c.red(), c.green(), c.blue()));
        }
        return;
    }
    let n = if roll == 0 { r.range(250, 300) } else if r.chance(1, 5) { r.range(7, 14) } else { r.range(0, 4) };
    for i in 1..=n {
        let c = format!("{},{},{}", int(r, l, 0, 255), int(r, l, 0, 255), int(r, l, 0, 255));
        out.push(kv(r.next(), l, &format!("Combo{i}"), &c));
    }
    if r.chance(1, 3) {
        out.push(kv(r.next(), l, "SliderBorder", "255,255,255"));
    }
    if r.chance(1, 4) {
        out.push(kv(r.next(), l, "SliderTrackOverride", "1,2,3,4"));
    }
    if l >= 2 && r.chance(1, 3) {
        out.push("Combo9: 256,0,0".into());
        out.push("Combo9: 1,2".into());
        out.push("Combo9: 1,2,3,4,5".into());
    }
}

fn extras(r: &mut Rng, level: u8) -> String {
    if level >= 1 && r.chance(1, 6) {
        return r.pick(&["", "0:0", "1:2:3", "0:0:0:0", "1:2:3:40:file.wav", "x:y", "3:3:2:100:", "0:0:0:0:a:b"]).to_string();
    }
    match r.below(4) {
        0 => "0:0:0:0:".into(),
        1 => format!("{}:{}:0:0:", r.below(4), r.below(4)),
        2 => format!("{}:{}:{}:{}:", r.below(4), r.below(4), r.below(3), r.range(0, 100)),
        _ => format!("0:0:0:{}:{}", r.range(0, 100), r.pick(&["", "hit.wav", "a b.ogg", "hit.wav", "dir\\\\f.wav", "d/\\f.wav", "\\\\h\\f.wav", "sub\\x.ogg"])),
    }
}

pub fn path(r: &mut Rng, level: u8, x: i64, y: i64) -> String {
    let nseg = if r.chance(1, 4) { r.range(2, 3) } else { 1 };
    let mut toks: Vec<String> = vec![];
    let (mut cx, mut cy) = (x, y);
    for s in 0..nseg {
        let letter = *r.pick(&["B", "L", "P", "C", "B", "B3", "L"]);
        let npts = match letter {
            "P" => {
                if r.chance(4, 5) {
                    2
                } else {
                    r.range(1, 4)
                }
            }
            "L" => r.range(1, 3),
            _ => r.range(1, 6),
        };
        toks.push(letter.to_string());
        for k in 0..npts {
            if r.chance(1, 8) && k > 0 {
                // repeated point (segment split in the legacy rules)
            } else {
                cx += r.range(-120, 120);
                cy += r.range(-90, 90);
            }
            if level >= 1 && r.chance(1, 25) {
                toks.push(r.pick(&["131072:0", "-131072:5", "131073:0", "1.5:2.5", "1e2:3", "x:1", "5", ":", ""]).to_string());
            } else {
                toks.push(format!("{cx}:{cy}"));
            }
        }
        let _ = s;
    }
    toks.join("|")
}

pub fn hit_objects(r: &mut Rng, o: &Opts, mode: u8, out: &mut Vec<String>) -> f64 {
    let l = o.level;
    let n = r.range(0, o.max_objects as i64) as usize;
    let mut t = r.range(0, 3000) as f64;
    for _ in 0..n {
        let x = r.range(0, 512);
        let y = r.range(0, 384);
        let sound = if l >= 1 && r.chance(1, 10) { int(r, l, 0, 255) } else { r.pick(&["0", "2", "4", "8", "6", "12", "14", "1"]).to_string() };
        let nc = if r.chance(1, 4) { 4 } else { 0 };
        let roll = r.next() % 8;
        let off = if roll == 0 { (r.range(1, 7) as i64) << 4 } else { 0 };
        // type bytes that carry more than one kind flag (the decoder's precedence is circle >
        // slider > spinner > hold); only in the hostile levels
        let xk: i64 = if roll == 1 && l >= 1 { *r.pick(&[8, 128, 136, 1, 2, 3, 130]) } else { 0 };
        let ts = if l >= 1 && r.chance(1, 12) { float(r, l, -1000.0, 100000.0) } else { format!("{}", t) };
        let xs = if l >= 1 && r.chance(1, 15) { float(r, l, -10.0, 600.0) } else { x.to_string() };
        let kind = match mode {
            3 => *r.pick(&[0, 0, 3, 3, 1]),
            _ => *r.pick(&[0, 0, 0, 1, 1, 2]),
        };
        match kind {
            0 => out.push(format!("{xs},{y},{ts},{},{sound},{}", (1 + nc + off) | xk, extras(r, l))),
            1 => {
                let reps = if l >= 1 && r.chance(1, 10) { int(r, l, 0, 9001) } else { r.range(1, 4).to_string() };
                let len = if l >= 1 && r.chance(1, 8) { float(r, l, -10.0, 1000.0) } else { format!("{}", (r.unit() * 400.0 + 20.0).round()) };
                let mut line = format!("{xs},{y},{ts},{},{sound},{},{reps},{len}", (2 + nc + off) | xk, path(r, l, x, y));
                if r.chance(1, 2) {
                    let nodes = reps.parse::<i64>().unwrap_or(1).clamp(1, 6) + 1;
                    let es: Vec<String> = (0..nodes).map(|_| r.pick(&["0", "2", "4", "8", "10"]).to_string()).collect();
                    let ss: Vec<String> = (0..nodes).map(|_| format!("{}:{}", r.below(4), r.below(4))).collect();
                    line += &format!(",{},{},{}", es.join("|"), ss.join("|"), extras(r, l));
                }
                out.push(line);
            }
            2 => {
                let end = t + r.range(100, 3000) as f64;
                out.push(format!("256,192,{ts},{},{sound},{end},{}", (8 + nc) | (xk & !3), extras(r, l)));
                t = end;
            }
            _ => {
                let end = t + r.range(50, 2000) as f64;
                out.push(format!("{xs},192,{ts},128,{sound},{end}:{}", extras(r, l)));
            }
        }
        if l >= 2 && r.chance(1, 10) {
            out.push(r.pick(&["1,2,3", "a,b,c,d,e", "0,0,0,64,0", "10,10,100,2,0,B|1:1", "10,10,100,2,0,B|1:1,1", "1,1,1,1", ",,,,"]).to_string());
        }
        if r.chance(1, 6) {
            // equal start times
        } else if o.chronological || r.chance(5, 6) {
            t += r.range(1, 12) as f64 * 125.0;
        } else {
            t -= r.range(1, 3000) as f64;
        }
    }
    t
}

/// A whole file as a list of lines (without line terminators).
pub fn file_lines(r: &mut Rng, o: &Opts) -> Vec<String> {
    let mode = o.mode.unwrap_or_else(|| r.below(4) as u8);
    let mut lines: Vec<String> = vec![];
    let v = if r.chance(3, 4) { 14 } else { r.range(3, 128) };
    if o.level >= 2 && r.chance(1, 8) {
        lines.push(r.pick(&["osu file format v", "osu file format vX", "// c", "[General]", "osu file format v14 // x", ""]).to_string());
    } else {
        lines.push(format!("osu file format v{v}"));
    }
    lines.push(String::new());
    // hit objects are generated first so that other sections know the time span
    let mut ho = vec![];
    let last = hit_objects(r, o, mode, &mut ho).max(1000.0);
    let mut secs: Vec<(&str, Vec<String>)> = vec![];
    let mut g = vec![];
    general(r, o, mode, &mut g);
    secs.push(("[General]", g));
    let mut e = vec![];
    editor(r, o, &mut e);
    secs.push(("[Editor]", e));
    let mut m = vec![];
    metadata(r, o, &mut m);
    secs.push(("[Metadata]", m));
    let mut d = vec![];
    difficulty(r, o, &mut d);
    secs.push(("[Difficulty]", d));
    let mut ev = vec![];
    events(r, o, last, &mut ev);
    secs.push(("[Events]", ev));
    let mut tp = vec![];
    timing_points(r, o, last, &mut tp);
    secs.push(("[TimingPoints]", tp));
    let mut c = vec![];
    colours(r, o, &mut c);
    secs.push(("[Colours]", c));
    secs.push(("[HitObjects]", ho));
    if o.level >= 2 {
        if r.chance(1, 4) {
            let i = r.below(secs.len());
            let j = r.below(secs.len());
            secs.swap(i, j);
        }
        if r.chance(1, 5) {
            let i = r.below(secs.len());
            let dup = (secs[i].0, secs[i].1.clone());
            secs.push(dup);
        }
        if r.chance(1, 6) {
            secs.push(("[Variables]", vec!["$a=1".into()]));
            secs.push(("[Unknown]", vec!["x: y".into()]));
        }
    }
    for (h, body) in secs {
        lines.push(h.to_string());
        for b in body {
            lines.push(b);
        }
        lines.push(String::new());
    }
    lines
}

pub fn file(r: &mut Rng, o: &Opts) -> String {
    let nl = if o.level >= 1 && r.chance(1, 4) { "\r\n" } else { "\n" };
    file_lines(r, o).join(nl) + if r.chance(3, 4) { nl } else { "" }
}

/// byte/line/field-level mutations of an existing file
pub fn mutate(r: &mut Rng, src: &[u8]) -> Vec<u8> {
    let mut v = src.to_vec();
    if v.is_empty() {
        return v;
    }
    let n = r.range(1, 4);
    for _ in 0..n {
        match r.below(9) {
            0 => {
                let i = r.below(v.len());
                v[i] = r.next() as u8;
            }
            1 => {
                let i = r.below(v.len());
                v.truncate(i);
            }
            2 => {
                // delete a line
                let i = r.below(v.len());
                let s = v[..i].iter().rposition(|b| *b == b'\n').map_or(0, |p| p + 1);
                let e = v[i..].iter().position(|b| *b == b'\n').map_or(v.len(), |p| i + p + 1);
                v.drain(s..e);
            }
            3 => {
                // duplicate a line elsewhere
                let i = r.below(v.len());
                let s = v[..i].iter().rposition(|b| *b == b'\n').map_or(0, |p| p + 1);
                let e = v[i..].iter().position(|b| *b == b'\n').map_or(v.len(), |p| i + p + 1);
                let line = v[s..e].to_vec();
                let j = r.below(v.len());
                let js = v[..j].iter().rposition(|b| *b == b'\n').map_or(0, |p| p + 1);
                v.splice(js..js, line);
            }
            4 => {
                // replace a numeric field with a hostile one
                let i = r.below(v.len());
                if let Some(p) = v[i..].iter().position(|b| b.is_ascii_digit()) {
                    let s = i + p;
                    let e = s + v[s..].iter().position(|b| !(b.is_ascii_digit() || *b == b'.')).unwrap_or(v.len() - s);
                    let rep = r.pick(&["nan", "1e400", "-1", "2147483648", "", "9000", "9001", "-0", "0.0000001", "131073", "inf", "1e-320"]);
                    v.splice(s..e, rep.bytes());
                }
            }
            5 => {
                // splice a chunk from elsewhere
                let a = r.below(v.len());
                let b = (a + r.below(200)).min(v.len());
                let chunk = v[a..b].to_vec();
                let j = r.below(v.len());
                v.splice(j..j, chunk);
            }
            6 => {
                let i = r.below(v.len());
                v.insert(i, *r.pick(&[b',', b':', b'|', b'\n', b'/', b'[', b']', b' ', 0xFF, 0xC3, 0x00]));
            }
            7 => {
                let i = r.below(v.len());
                let k = r.below(20).min(v.len() - i);
                v.drain(i..i + k);
            }
            _ => {
                let i = r.below(v.len());
                v[i] ^= 1 << r.below(8);
            }
        }
        if v.is_empty() {
            break;
        }
    }
    v
}

/// the four supported encodings of a text
pub fn encode_as(text: &str, enc: u8) -> Vec<u8> {
    match enc {
        0 => text.as_bytes().to_vec(),
        1 => {
            let mut v = vec![0xEF, 0xBB, 0xBF];
            v.extend_from_slice(text.as_bytes());
            v
        }
        2 => {
            let mut v = vec![0xFF, 0xFE];
            for u in text.encode_utf16() {
                v.extend_from_slice(&u.to_le_bytes());
            }
            v
        }
        _ => {
            let mut v = vec![0xFE, 0xFF];
            for u in text.encode_utf16() {
                v.extend_from_slice(&u.to_be_bytes());
            }
            v
        }
    }
}

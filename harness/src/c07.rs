//! C07: specialised decoders agree with the full decoder.
use crate::decoders::{self, DECODERS};
use crate::gen_osu;
use crate::out::Out;
use crate::rng::Rng;
use crate::util::bundled_maps;

pub const RULE: &str = "whole files (grammar-generated at levels 0-2 with indented/decorated lines, mutated bundled maps, noise) decoded with each of the nine decoder types; correspondence: extracted decoder models vs from_bytes::<T>; oracle: from_bytes::<T> equals the projection of from_bytes::<Beatmap> on the shared fields; non-trivial = at least 5 lines and a section header; distinct = distinct (decoder, text)";

pub fn oracle(bytes: &[u8], origin: &str, out: &mut Out) {
    for id in 0..8 {
        out.oracle_checks += 1;
        let a = decoders::decode_dump(id, bytes);
        let b = decoders::beatmap_projection(id, bytes);
        if a != b {
            let desc = format!("{} bytes={:?}", origin, String::from_utf8_lossy(bytes));
            out.fail("", &desc, &format!("{} decoder disagrees with Beatmap on the shared fields: {:?} vs {:?}", DECODERS[id], a.map(|s| s.chars().take(300).collect::<String>()), b.map(|s| s.chars().take(300).collect::<String>())));
        }
    }
}

pub fn generate(tier: &str, seed: u64, out: &mut Out) {
    decoders::cases_for("c07", tier, seed, out);
    // oracle over the same texts plus the C01 byte inputs (well-formed, hostile, mutated)
    decoders::texts(tier, seed, |t, origin| oracle(t.as_bytes(), origin, out));
    crate::registry::c01::inputs(tier, seed, |b, origin| oracle(b, origin, out));
    let mut r = Rng::new(seed ^ 0xC07);
    for (name, b) in bundled_maps().iter().take(if tier == "thorough" { 100 } else { 6 }) {
        oracle(b, &format!("bundled {}", name), out);
        let m = gen_osu::mutate(&mut r, b);
        oracle(&m, &format!("mutated {}", name), out);
    }
}

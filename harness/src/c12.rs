//! C12: timing-point lines resolve by the legacy precedence rules — cases,
//! implementation run, oracle.
//!
//! The oracle is written from the property text and is independent of the Coq
//! model: lines are cut into groups of consecutive accepted lines sharing a
//! time, per group and kind the last inherited line wins, else the first
//! timing-change line; the winners go into a sorted-map reference (redundant
//! points dropped, same time replaces).  The legacy model compares times
//! numerically; the implementation orders them with `total_cmp`, so the only
//! admissible deviation is the known finding D8 (inputs mixing -0.0 and +0.0).
use crate::out::Out;
use crate::proto::Line;
use crate::registry::c13::dump_cp;
use crate::rng::Rng;
use crate::util::guarded;
use rosu_map::section::timing_points::{ControlPoints, TimingPoints, TimingPointsState};
use rosu_map::{DecodeBeatmap, DecodeState};
use std::collections::BTreeMap;

// ---------------------------------------------------------------- records

/// what an accepted line says (values before the constructors' clamps)
#[derive(Clone, Debug, PartialEq)]
struct Rec {
    time: f64,
    beat: f64,
    sig: i32,
    bank: i32,
    custom: i32,
    vol: i32,
    tc: bool,
    kiai: bool,
    omit: bool,
}

/// The legacy line grammar, re-implemented for the oracle with std parsing.
fn oracle_parse(line: &str, dflt_bank: i32, dflt_vol: i32) -> Option<Rec> {
    let body = match line.find("//") {
        Some(i) => &line[..i],
        None => line,
    }
    .trim_end();
    let f: Vec<&str> = body.split(',').collect();
    if f.len() < 2 {
        return None;
    }
    let lim = i32::MAX as f64;
    let time: f64 = f[0].trim().parse().ok()?;
    if !(time >= -lim && time <= lim) {
        return None; // out of range or NaN
    }
    let beat: f64 = f[1].trim().parse().ok()?;
    if beat < -lim || beat > lim {
        return None; // NaN passes here
    }
    let int = |s: &str| -> Option<i32> {
        let n: i32 = s.trim().parse().ok()?;
        if n == i32::MIN {
            None
        } else {
            Some(n)
        }
    };
    let sig = match f.get(2) {
        None => 4,
        Some(s) if s.starts_with('0') => 4,
        Some(s) => {
            let n = int(s)?;
            if n <= 0 {
                return None;
            }
            n
        }
    };
    let bank = match f.get(3) {
        None => dflt_bank,
        Some(s) => {
            let n = int(s)?;
            if (0..=3).contains(&n) {
                n
            } else {
                dflt_bank
            }
        }
    };
    let custom = match f.get(4) {
        None => 0,
        Some(s) => int(s)?,
    };
    let vol = match f.get(5) {
        None => dflt_vol,
        Some(s) => int(s)?,
    };
    let tc = match f.get(6) {
        None => true,
        Some(s) => s.starts_with('1'),
    };
    let flags = match f.get(7) {
        None => 0,
        Some(s) => s.parse::<i32>().ok()?, // no trim, no limit
    };
    if tc && beat.is_nan() {
        return None;
    }
    Some(Rec {
        time,
        beat,
        sig,
        bank: if bank == 0 { 1 } else { bank },
        custom,
        vol,
        tc,
        kiai: flags & 1 != 0,
        omit: flags & 8 != 0,
    })
}

// -------------------------------------------------------------- reference

fn total_key(x: f64) -> i64 {
    let mut b = x.to_bits() as i64;
    b ^= (((b >> 63) as u64) >> 1) as i64;
    b
}
/// numeric order on non-NaN times: -0.0 and +0.0 are the same time
fn numeric_key(x: f64) -> i64 {
    total_key(if x == 0.0 { 0.0 } else { x })
}

type TP = (u64, u64, bool, i32);
type DP = (u64, u64, bool);
type EP = (u64, bool, u64);
type SP = (u64, i32, i32, i32);

#[derive(Default, PartialEq, Debug)]
struct Lists {
    t: Vec<TP>,
    d: Vec<DP>,
    e: Vec<EP>,
    s: Vec<SP>,
}

fn clampf(x: f64, lo: f64, hi: f64) -> f64 {
    // x is never NaN where this is used
    if x < lo {
        lo
    } else if x > hi {
        hi
    } else {
        x
    }
}

struct Reference {
    key: fn(f64) -> i64,
    t: BTreeMap<i64, (f64, f64, bool, i32)>,
    d: BTreeMap<i64, (f64, f64, bool)>,
    e: BTreeMap<i64, (f64, bool, f64)>,
    s: BTreeMap<i64, (f64, i32, i32, i32)>,
}

impl Reference {
    fn new(key: fn(f64) -> i64) -> Self {
        Reference { key, t: BTreeMap::new(), d: BTreeMap::new(), e: BTreeMap::new(), s: BTreeMap::new() }
    }
    /// the winners of one group: `timing` (first timing-change line, if any)
    /// and `other` (last inherited line, else first timing-change line)
    fn add_group(&mut self, mode: i32, timing: Option<&Rec>, other: &Rec) {
        let k = self.key;
        if let Some(r) = timing {
            self.t.insert(k(r.time), (r.time, clampf(r.beat, 6.0, 60000.0), r.omit, r.sig));
        }
        let r = other;
        let speed = if r.beat < 0.0 { 100.0 / -r.beat } else { 1.0 };
        // difficulty: dropped when it repeats the values active at its time
        let sv = clampf(speed, 0.1, 10.0);
        let ticks = !r.beat.is_nan();
        let active = self.d.range(..=k(r.time)).next_back().map(|(_, v)| (v.1, v.2)).unwrap_or((1.0, true));
        if !(active.1 == ticks && (sv - active.0).abs() < f64::EPSILON) {
            self.d.insert(k(r.time), (r.time, sv, ticks));
        }
        // effect
        let scroll = if mode == 1 || mode == 3 { clampf(speed, 0.01, 10.0) } else { 1.0 };
        let active = self.e.range(..=k(r.time)).next_back().map(|(_, v)| (v.1, v.2)).unwrap_or((false, 1.0));
        if !(active.0 == r.kiai && (scroll - active.1).abs() < f64::EPSILON) {
            self.e.insert(k(r.time), (r.time, r.kiai, scroll));
        }
        // sample: never redundant before the first sample point
        let p = (r.bank, r.vol.clamp(0, 100), r.custom);
        let active = self.s.range(..=k(r.time)).next_back().map(|(_, v)| (v.1, v.2, v.3));
        if active != Some(p) {
            self.s.insert(k(r.time), (r.time, p.0, p.1, p.2));
        }
    }
    fn lists(&self) -> Lists {
        Lists {
            t: self.t.values().map(|v| (v.0.to_bits(), v.1.to_bits(), v.2, v.3)).collect(),
            d: self.d.values().map(|v| (v.0.to_bits(), v.1.to_bits(), v.2)).collect(),
            e: self.e.values().map(|v| (v.0.to_bits(), v.1, v.2.to_bits())).collect(),
            s: self.s.values().map(|v| (v.0.to_bits(), v.1, v.2, v.3)).collect(),
        }
    }
}

/// groups of consecutive accepted lines sharing a time (|dt| < eps against the
/// previous accepted line)
fn groups(recs: &[Rec]) -> Vec<&[Rec]> {
    let mut out = vec![];
    let mut start = 0;
    for i in 1..recs.len() {
        if !((recs[i].time - recs[i - 1].time).abs() < f64::EPSILON) {
            out.push(&recs[start..i]);
            start = i;
        }
    }
    if !recs.is_empty() {
        out.push(&recs[start..]);
    }
    out
}

fn reference(mode: i32, recs: &[Rec], key: fn(f64) -> i64) -> Lists {
    let mut r = Reference::new(key);
    for g in groups(recs) {
        let timing = g.iter().find(|x| x.tc);
        let other = g.iter().rev().find(|x| !x.tc).or(timing).unwrap();
        r.add_group(mode, timing, other);
    }
    r.lists()
}

fn impl_lists(c: &ControlPoints) -> Lists {
    Lists {
        t: c.timing_points.iter().map(|p| (p.time.to_bits(), p.beat_len.to_bits(), p.omit_first_bar_line, p.time_signature.numerator.get() as i32)).collect(),
        d: c.difficulty_points.iter().map(|p| (p.time.to_bits(), p.slider_velocity.to_bits(), p.generate_ticks)).collect(),
        e: c.effect_points.iter().map(|p| (p.time.to_bits(), p.kiai, p.scroll_speed.to_bits())).collect(),
        s: c.sample_points.iter().map(|p| (p.time.to_bits(), p.sample_bank as i32, p.sample_volume, p.custom_sample_bank)).collect(),
    }
}

// ------------------------------------------------------------------- case

/// `Out` keeps at most 200 failures: record only the first few instances of
/// the known finding so that they cannot crowd out an unlisted one
fn report(out: &mut Out, class: &str, input: &str, detail: &str) {
    if class == "D8" {
        out.count("oracle.D8_instances");
        if out.dist.get("oracle.D8_instances").copied().unwrap_or(0) > 12 {
            return;
        }
    }
    out.fail(class, input, detail);
}

/// a generated line: its text and, when the generator built it from field
/// values, the record it must parse to (`Some(None)` = must be rejected)
#[derive(Clone)]
pub struct GenLine {
    text: String,
    intent: Option<Option<Rec>>,
}

const BANK_NAMES: [&str; 4] = ["None", "Normal", "Soft", "Drum"];

pub fn run_case(mode: i32, bank: i32, vol: i32, lines: &[GenLine], stream: &str, out: &mut Out) {
    let mut case = Line::entry("c12");
    case.i(mode as i128).i(bank as i128).i(vol as i128);
    for l in lines {
        case.s(&l.text);
    }
    let desc = format!(
        "mode={mode} bank={bank} vol={vol} lines={:?}",
        lines.iter().map(|l| l.text.as_str()).collect::<Vec<_>>()
    );
    let texts: Vec<String> = lines.iter().map(|l| l.text.clone()).collect();
    let run = guarded(move || {
        let mut state: TimingPointsState = <TimingPoints as DecodeBeatmap>::State::create(14);
        let setup = [
            format!("Mode: {mode}"),
            format!("SampleSet: {}", BANK_NAMES[bank as usize]),
            format!("SampleVolume: {vol}"),
        ];
        for s in &setup {
            TimingPoints::parse_general(&mut state, s).expect("general line");
        }
        let flags: Vec<bool> = texts.iter().map(|l| TimingPoints::parse_timing_points(&mut state, l).is_ok()).collect();
        let tp: TimingPoints = state.into();
        (flags, tp)
    });
    let mut res = Line::new();
    let (flags, tp) = match run {
        Ok(x) => x,
        Err(msg) => {
            res.i(-1);
            out.fail("", &desc, &format!("panic: {msg}"));
            out.count("outcome.panic");
            out.case(case.0, res.0, desc, false);
            return;
        }
    };
    for f in &flags {
        res.b(*f);
    }
    dump_cp(&mut res, &tp.control_points);

    // ---- oracle
    let c = &tp.control_points;
    out.oracle_checks += 1;
    if tp.mode as i32 != mode || tp.default_sample_bank as i32 != bank || tp.default_sample_volume != vol {
        out.fail("", &desc, "harness: General settings did not take effect");
    }
    // 1. which lines are accepted, and with which values
    let mut recs: Vec<Rec> = vec![];
    for (i, l) in lines.iter().enumerate() {
        let parsed = oracle_parse(&l.text, bank, vol);
        if let Some(intent) = &l.intent {
            // the generator built this line from field values
            let same = match (intent, &parsed) {
                (Some(a), Some(b)) => {
                    a.time.to_bits() == b.time.to_bits()
                        && (a.beat.to_bits() == b.beat.to_bits() || (a.beat.is_nan() && b.beat.is_nan()))
                        && (a.sig, a.bank, a.custom, a.vol, a.tc, a.kiai, a.omit) == (b.sig, b.bank, b.custom, b.vol, b.tc, b.kiai, b.omit)
                }
                (None, None) => true,
                _ => false,
            };
            if !same {
                out.fail("", &desc, &format!("line {i} {:?}: intended {:?}, legacy grammar reads {:?}", l.text, intent, parsed));
            }
        }
        out.oracle_checks += 1;
        if parsed.is_some() != flags[i] {
            out.fail("", &desc, &format!("line {i} {:?}: implementation {} it, legacy grammar {}", l.text,
                if flags[i] { "accepts" } else { "rejects" }, if parsed.is_some() { "accepts" } else { "rejects" }));
        }
        if let Some(r) = &parsed {
            if r.tc && r.beat.is_nan() {
                out.fail("", &desc, "NaN beat length accepted on a timing-change line");
            }
        }
        // feed the reference with what the implementation accepted
        if flags[i] {
            if let Some(r) = parsed {
                recs.push(r);
            }
        }
    }
    // 2. the four lists against the legacy model
    let got = impl_lists(c);
    let want = reference(mode, &recs, numeric_key);
    out.oracle_checks += 1;
    if got != want {
        let mixed = recs.iter().any(|r| r.time == 0.0 && r.time.is_sign_negative())
            && recs.iter().any(|r| r.time == 0.0 && r.time.is_sign_positive());
        let want_total = reference(mode, &recs, total_key);
        let cls = if mixed && got == want_total { "D8" } else { "" };
        report(out, cls, &desc, &format!("control points differ from the legacy model: got {:?}, legacy {:?}", got, want));
    }
    // 3. order and clamps on the implementation's result
    out.oracle_checks += 1;
    let tt: Vec<f64> = c.timing_points.iter().map(|p| p.time).collect();
    let td: Vec<f64> = c.difficulty_points.iter().map(|p| p.time).collect();
    let te: Vec<f64> = c.effect_points.iter().map(|p| p.time).collect();
    let ts: Vec<f64> = c.sample_points.iter().map(|p| p.time).collect();
    for (nm, l) in [("timing", &tt), ("difficulty", &td), ("effect", &te), ("sample", &ts)] {
        if !l.windows(2).all(|w| total_key(w[0]) < total_key(w[1])) {
            out.fail("", &desc, &format!("{nm} list not strictly increasing (total order): {l:?}"));
        } else if !l.windows(2).all(|w| w[0] < w[1]) {
            let only_zero = l.windows(2).all(|w| w[0] < w[1] || (w[0] == 0.0 && w[1] == 0.0));
            report(out, if only_zero { "D8" } else { "" }, &desc, &format!("{nm} list has two points at numerically equal time: {l:?}"));
        }
    }
    for p in &c.timing_points {
        if !(p.beat_len >= 6.0 && p.beat_len <= 60000.0) {
            out.fail("", &desc, &format!("beat length {} outside [6, 60000]", p.beat_len));
        }
    }
    for p in &c.difficulty_points {
        if !(p.slider_velocity >= 0.1 && p.slider_velocity <= 10.0) {
            out.fail("", &desc, &format!("slider velocity {} outside [0.1, 10]", p.slider_velocity));
        }
    }
    for p in &c.effect_points {
        if !(p.scroll_speed >= 0.01 && p.scroll_speed <= 10.0) {
            out.fail("", &desc, &format!("scroll speed {} outside [0.01, 10]", p.scroll_speed));
        }
        if mode != 1 && mode != 3 && p.scroll_speed != 1.0 {
            out.fail("", &desc, &format!("scroll speed {} outside taiko/mania", p.scroll_speed));
        }
    }
    for p in &c.sample_points {
        if !(0..=100).contains(&p.sample_volume) {
            out.fail("", &desc, &format!("sample volume {} outside [0, 100]", p.sample_volume));
        }
    }

    // ---- distribution
    let n_ok = flags.iter().filter(|f| **f).count();
    let gs = groups(&recs);
    let multi = gs.iter().filter(|g| g.len() > 1).count();
    out.count(&format!("stream.{stream}"));
    out.count(&format!("mode.{mode}"));
    out.count_n("lines.accepted", n_ok as u64);
    out.count_n("lines.rejected", (flags.len() - n_ok) as u64);
    out.count_n("groups", gs.len() as u64);
    out.count_n("groups.multi_line", multi as u64);
    out.count_n("groups.inherited_beats_timing", gs.iter().filter(|g| g.iter().any(|r| r.tc) && g.iter().any(|r| !r.tc)).count() as u64);
    out.count_n("lines.nan_inherited", recs.iter().filter(|r| r.beat.is_nan()).count() as u64);
    let stored = c.timing_points.len() + c.difficulty_points.len() + c.effect_points.len() + c.sample_points.len();
    let emitted = gs.len() * 3 + gs.iter().filter(|g| g.iter().any(|r| r.tc)).count();
    out.count_n("points.stored", stored as u64);
    out.count_n("points.dropped_or_replaced", emitted.saturating_sub(stored) as u64);
    out.count(&format!("len.{}", if lines.len() <= 5 { lines.len().to_string() } else if lines.len() <= 20 { "6-20".into() } else { "21+".into() }));
    out.case(case.0, res.0, desc, n_ok >= 2 && stored >= 2);
}

// ------------------------------------------------------------- generators

fn fmt_time(t: f64) -> String {
    if t == 0.0 && t.is_sign_negative() {
        "-0".to_string()
    } else {
        format!("{t}")
    }
}

/// a well-formed line from field values, cut after `nfields` fields (2..=8)
fn structured(r: &Rec, beat_txt: &str, time_txt: &str, flags: i32, bank_field: i32, sig_txt: &str, tc_txt: &str, nfields: usize, dflt_bank: i32, dflt_vol: i32) -> GenLine {
    let fields = [
        time_txt.to_string(),
        beat_txt.to_string(),
        sig_txt.to_string(),
        bank_field.to_string(),
        r.custom.to_string(),
        r.vol.to_string(),
        tc_txt.to_string(),
        flags.to_string(),
    ];
    let text = fields[..nfields].join(",");
    // the record after the cut: omitted fields take their defaults
    let mut e = r.clone();
    if nfields < 3 {
        e.sig = 4;
    }
    if nfields < 4 {
        e.bank = if dflt_bank == 0 { 1 } else { dflt_bank };
    }
    if nfields < 5 {
        e.custom = 0;
    }
    if nfields < 6 {
        e.vol = dflt_vol;
    }
    if nfields < 7 {
        e.tc = true;
    }
    if nfields < 8 {
        e.kiai = false;
        e.omit = false;
    }
    let intent = if e.tc && e.beat.is_nan() { None } else { Some(e) };
    GenLine { text, intent: Some(intent) }
}

const TIMES: [(&str, f64); 9] = [
    ("0", 0.0),
    ("1e-16", 1e-16),
    ("10", 10.0),
    ("20", 20.0),
    ("-5", -5.0),
    ("-0", -0.0),
    ("10.000000000000001", 10.000000000000002),
    ("2147483647", 2147483647.0),
    ("-1234.5", -1234.5),
];
const BEATS: [(&str, f64); 12] = [
    ("500", 500.0),
    ("-50", -50.0),
    ("0", 0.0),
    ("3", 3.0),
    ("1e9", 1e9),
    ("NaN", f64::NAN),
    ("-100", -100.0),
    ("-1e9", -1e9),
    ("-0.001", -0.001),
    ("-0", -0.0),
    ("333.33", 333.33),
    ("-5", -5.0),
];

fn rand_structured(r: &mut Rng, dflt_bank: i32, dflt_vol: i32, small_times: bool) -> GenLine {
    let (tt, tv) = if small_times || r.chance(3, 4) {
        let n = if small_times { 5 } else { TIMES.len() };
        let (a, b) = TIMES[r.below(n)];
        (a.to_string(), b)
    } else {
        let v = (r.range(-400, 400) as f64) / 8.0;
        (fmt_time(v), v)
    };
    let (bt, bv) = BEATS[r.below(BEATS.len())];
    let sig_choice = r.below(6);
    let (sig_txt, sig) = match sig_choice {
        0 => ("4", 4),
        1 => ("3", 3),
        2 => ("0", 4),
        3 => ("07", 4),
        4 => ("7", 7),
        _ => ("4", 4),
    };
    let bank_field = *r.pick(&[0, 1, 2, 3, 1, 2, 7, -1]);
    let bank_eff = if (0..=3).contains(&bank_field) { bank_field } else { dflt_bank };
    let flags = *r.pick(&[0, 1, 8, 9, 0, 1, 2, -1, 16]);
    let (tc_txt, tc) = *r.pick(&[("1", true), ("0", false), ("1", true), ("0", false), ("10", true), ("2", false), ("", false), ("01", false)]);
    let rec = Rec {
        time: tv,
        beat: bv,
        sig,
        bank: if bank_eff == 0 { 1 } else { bank_eff },
        custom: *r.pick(&[0, 0, 1, 2, 99]),
        vol: *r.pick(&[100, 50, 0, 30, 101, -7, 100]),
        tc,
        kiai: flags & 1 != 0,
        omit: flags & 8 != 0,
    };
    let nfields = if r.chance(2, 3) { 8 } else { r.range(2, 8) as usize };
    structured(&rec, bt, &tt, flags, bank_field, sig_txt, tc_txt, nfields, dflt_bank, dflt_vol)
}

/// hostile / padded / comment-suffixed fields: the oracle's own reading of
/// the legacy grammar decides what is expected
fn rand_malformed(r: &mut Rng) -> GenLine {
    const FLOATS: [&str; 30] = [
        "", " ", "nan", "NaN", "inf", "-inf", "infinity", "1e400", "-1e400", "2147483648", "-2147483648", "2147483647.5",
        "1e", ".", "-", "+", "5.", ".5", "+5", "1e5", "1E-3", "0x10", "1_0", " 10", "10 ", "\t10\u{a0}", "٣", "1,5", "--5", "1e-400",
    ];
    const INTS: [&str; 22] = [
        "", " ", "4", " 4", "4 ", "+4", "-4", "04", "4.0", "2147483647", "2147483648", "-2147483647", "-2147483648", "1e2", "0x4",
        "٤", "0", "00", "-0", "1 ", "\u{3000}1", "9999999999999999999",
    ];
    let mut f: Vec<String> = vec![
        TIMES[r.below(5)].0.to_string(),
        BEATS[r.below(5)].0.to_string(),
        "4".into(),
        r.below(4).to_string(),
        "0".into(),
        r.pick(&["100", "50"]).to_string(),
        r.pick(&["1", "0"]).to_string(),
        r.pick(&["0", "1"]).to_string(),
    ];
    let n = 1 + r.below(2);
    for _ in 0..n {
        let k = r.below(8);
        f[k] = if k < 2 { r.pick(&FLOATS).to_string() } else { r.pick(&INTS).to_string() };
    }
    let mut nf = if r.chance(1, 3) { r.range(0, 10) as usize } else { 8 };
    while f.len() < nf {
        f.push(r.pick(&INTS).to_string());
    }
    if nf == 0 {
        nf = 0;
    }
    let mut text = f[..nf.min(f.len())].join(",");
    match r.below(8) {
        0 => text.push_str(" // comment"),
        1 => text.push_str("//1,2,3"),
        2 => text = format!("  {text}  "),
        3 => text.push(','),
        4 => {
            // comment cutting a field
            if let Some(i) = text.rfind(',') {
                text.insert_str(i, "//");
            }
        }
        _ => {}
    }
    GenLine { text, intent: None }
}

fn plain(text: &str) -> GenLine {
    GenLine { text: text.to_string(), intent: None }
}

/// the property's small alphabet: times {0, 0+, 10, 20, -5} x {timing,
/// inherited} with beat lengths {-50, 0, 3, 500, 1e9, NaN, -1e9}, kiai / omit
/// flags, two banks, two volumes, and one line with all optional fields cut
const ALPHABET: [&str; 16] = [
    "0,500,4,1,0,100,1,0",
    "0,-50,4,2,0,50,0,1",
    "1e-16,400,3,1,0,100,1,8",
    "1e-16,-200,4,1,0,100,0,0",
    "10,3,4,2,0,50,1,1",
    "10,-50,4,1,0,100,0,0",
    "10,NaN,4,1,0,100,0,0",
    "10,NaN,4,1,0,100,1,0",
    "20,1e9,4,1,0,100,1,0",
    "20,0,4,1,0,50,0,9",
    "-5,500,4,1,0,100,1,0",
    "-5,-50,4,2,0,50,0,0",
    "20,500",
    "0,-1e9,4,1,0,100,0,0",
    "10,500,4,1,0,100,1,1",
    "0,500,4,1,0,100,0,0",
];

pub const RULE: &str = "sequences of [TimingPoints] lines through TimingPoints::parse_timing_points + From<TimingPointsState>, in all four modes: exhaustive over a 16-line alphabet (times 0, 0+, 10, 20, -5; timing/inherited; beat lengths -50, 0, 3, 500, 1e9, NaN, -1e9; kiai/omit; two banks; two volumes) up to length 3 (quick) / 4 (thorough; plus 8-line and 4-line sub-alphabets to length 5 and 7), random long sequences drawing every field independently with trailing fields cut at every position, and a separate malformed stream (padded, comment-suffixed, hostile numerics); non-trivial = at least 2 accepted lines and at least 2 stored points; distinct = distinct case lines";

pub fn generate(tier: &str, seed: u64, out: &mut Out) {
    let mut r = Rng::new(seed ^ 0xC12);
    // corpus: recorded witnesses first (D8, NaN, cut lines, flag padding)
    run_case(0, 1, 100, &[plain("0,500"), plain("10,500"), plain("-0,400")], "corpus", out);
    run_case(0, 1, 100, &[plain("0,500,4,1,0,100,1,0"), plain("0,-50,4,2,0,50,0,0"), plain("0,400,3,3,0,30,1,8"), plain("0,-25,4,2,1,60,0,1")], "corpus", out);
    run_case(3, 0, 70, &[plain("5,-1")], "corpus", out);
    run_case(1, 2, 70, &[plain("5,NaN,4,1,0,100,0,0"), plain("5,nan,4,1,0,100,1,0"), plain("5,500,4,1,0,100,1, 1"), plain("5,500,4,1,0,100,1,1 ")], "corpus", out);
    run_case(0, 1, 100, &[plain("0,500"), plain("1e-16,400"), plain("2e-16,300"), plain("3e-16,-50,4,1,0,100,0,0")], "corpus", out);

    // exhaustive over the alphabet, all four modes
    let maxlen = if tier == "thorough" { 4 } else { 3 };
    let alpha: Vec<GenLine> = ALPHABET.iter().map(|t| plain(t)).collect();
    for len in 1..=maxlen {
        let total = alpha.len().pow(len as u32);
        for idx0 in 0..total {
            let mut idx = idx0;
            let mut lines = vec![];
            for _ in 0..len {
                lines.push(alpha[idx % alpha.len()].clone());
                idx /= alpha.len();
            }
            for mode in 0..4 {
                // quick tier: length-3 sequences rotate through the modes
                if tier != "thorough" && len == 3 && (idx0 % 4) as i32 != mode {
                    continue;
                }
                run_case(mode, 1, 100, &lines, "exhaustive", out);
            }
        }
    }
    // thorough: longer sequences over sub-alphabets (8 lines to length 5,
    // 4 lines to length 7), all four modes
    if tier == "thorough" {
        for (sub, len) in [(&[0usize, 1, 2, 3, 4, 5, 6, 10][..], 5usize), (&[0, 1, 3, 5][..], 6), (&[0, 1, 3, 5][..], 7)] {
            let total = sub.len().pow(len as u32);
            for idx0 in 0..total {
                let mut idx = idx0;
                let mut lines = vec![];
                for _ in 0..len {
                    lines.push(alpha[sub[idx % sub.len()]].clone());
                    idx /= sub.len();
                }
                for mode in 0..4 {
                    run_case(mode, 1, 100, &lines, "exhaustive-sub", out);
                }
            }
        }
    }
    // every single line of the alphabet cut after each field, all defaults
    for t in ALPHABET.iter() {
        let parts: Vec<&str> = t.split(',').collect();
        for cut in 2..=parts.len() {
            for (bank, vol) in [(0, 100), (2, 70), (3, -5), (1, 130)] {
                run_case((cut % 4) as i32, bank, vol, &[plain("20,-50,4,3,2,30,0,1"), plain(&parts[..cut].join(","))], "cuts", out);
            }
        }
    }
    // random sequences, fields drawn independently, trailing fields cut
    let n = if tier == "thorough" { 60000 } else { 2500 };
    for i in 0..n {
        let mode = r.below(4) as i32;
        let bank = r.below(4) as i32;
        let vol = *r.pick(&[100, 100, 70, 0, 130, -5]);
        let len = if i % 8 == 0 { r.range(20, 60) } else { r.range(1, 12) } as usize;
        let small = r.chance(2, 3);
        let lines: Vec<GenLine> = (0..len).map(|_| rand_structured(&mut r, bank, vol, small)).collect();
        run_case(mode, bank, vol, &lines, "random", out);
    }
    // malformed stream: a few hostile lines among valid ones
    let n = if tier == "thorough" { 30000 } else { 1500 };
    for _ in 0..n {
        let mode = r.below(4) as i32;
        let bank = r.below(4) as i32;
        let vol = *r.pick(&[100, 70]);
        let len = r.range(1, 8) as usize;
        let lines: Vec<GenLine> = (0..len)
            .map(|_| if r.chance(1, 2) { rand_malformed(&mut r) } else { rand_structured(&mut r, bank, vol, true) })
            .collect();
        run_case(mode, bank, vol, &lines, "malformed", out);
    }
}

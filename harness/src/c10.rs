//! C10: text encoding is transparent — codecs, lossy UTF-8, line decoding in
//! the four encodings; cases, implementation run, oracle.
use super::c08::{fail, bundled_texts, case_c08, decode_bytes, diff_results, dump_lines, encode_text, gen_text, impl_lines, lf_cuts_utf16le, lines_via, MapResult, ENC_NAMES, LF_BYTE_CHARS};
use crate::out::Out;
use crate::proto::Line;
use crate::rng::Rng;
use crate::util::guarded;
use rosu_map::verif_hooks::{encoding_decode, encoding_from_bom};
use rosu_map::Beatmap;

fn bytes_case(entry: &str, pre: &[i128], b: &[u8]) -> String {
    let mut l = Line::entry(entry);
    for p in pre {
        l.i(*p);
    }
    for x in b {
        l.i(*x as i128);
    }
    l.0
}

fn hex(b: &[u8]) -> String {
    let mut s = String::new();
    for (i, x) in b.iter().enumerate() {
        if i >= 48 {
            s += &format!(".. ({} bytes)", b.len());
            break;
        }
        s += &format!("{x:02X} ");
    }
    s.trim_end().to_string()
}

fn dump_decoded(s: &str) -> String {
    let mut l = Line::new();
    l.i(0).s(s);
    l.0
}

fn units_of(b: &[u8], le: bool) -> Vec<u16> {
    b.chunks_exact(2).map(|c| if le { u16::from_le_bytes([c[0], c[1]]) } else { u16::from_be_bytes([c[0], c[1]]) }).collect()
}

/// Encoding::decode on one buffer: model correspondence + lossy oracle
fn direct(out: &mut Out, enc: u8, b: &[u8], what: &str) {
    let got = match guarded(|| encoding_decode(enc, b)) {
        Ok(s) => s,
        Err(p) => {
            out.fail("", &format!("Encoding::decode enc={enc} [{}]", hex(b)), &format!("panic: {p}"));
            return;
        }
    };
    let name = ["Utf8", "Utf16BE", "Utf16LE"][enc as usize];
    out.case(bytes_case("c10d", &[enc as i128], b), dump_decoded(&got), format!("Encoding::{name}.decode({what}: {})", hex(b)), b.len() >= 2);
    out.oracle_checks += 1;
    let want = match enc {
        0 => String::from_utf8_lossy(b).into_owned(),
        1 => String::from_utf16_lossy(&units_of(b, false)),
        _ => String::from_utf16_lossy(&units_of(b, true)),
    };
    if got != want {
        out.fail("", &format!("Encoding::{name}.decode([{}])", hex(b)), &format!("decoded {got:?}, lossy conversion gives {want:?}"));
    }
    out.count(&format!("decode.{name}.{what}"));
}

/// std::str::from_utf8 error positions and from_utf8_lossy vs the model's
/// transcription / declarative automaton (validates the std part of the model)
fn std_utf8(out: &mut Out, b: &[u8]) {
    let mut l = Line::new();
    match std::str::from_utf8(b) {
        Ok(_) => {
            l.i(0);
        }
        Err(e) => {
            l.i(1).i(e.valid_up_to() as i128).i(e.error_len().unwrap_or(0) as i128);
        }
    }
    out.case(bytes_case("c10v", &[], b), l.0, format!("std::str::from_utf8([{}])", hex(b)), b.len() >= 2);
    let mut l = Line::new();
    l.s(&String::from_utf8_lossy(b));
    out.case(bytes_case("c10s", &[], b), l.0, format!("String::from_utf8_lossy([{}]) vs lossy_spec", hex(b)), b.len() >= 2);
}

fn std_utf16(out: &mut Out, u: &[u16]) {
    let s: String = char::decode_utf16(u.iter().copied()).map(|c| c.unwrap_or(char::REPLACEMENT_CHARACTER)).collect();
    let mut c = Line::entry("c10u");
    for x in u {
        c.i(*x as i128);
    }
    let mut l = Line::new();
    l.s(&s);
    out.case(c.0, l.0, format!("char::decode_utf16({u:04X?})"), u.len() >= 2);
}

const BAD_UTF8: [&[u8]; 24] = [
    b"\x80", b"\xBF", b"\xC0\x80", b"\xC1\xBF", b"\xC2", b"\xE0\x80\x80", b"\xE0\x9F\xBF", b"\xE0\xA0", b"\xE0", b"\xED\xA0\x80", b"\xED\xBF\xBF", b"\xEF\xBF",
    b"\xF0\x80\x80\x80", b"\xF0\x8F\xBF\xBF", b"\xF0\x90\x80", b"\xF0\x90", b"\xF0", b"\xF4\x90\x80\x80", b"\xF5\x80\x80\x80", b"\xFF", b"\xFE", b"\xF8\x88\x80\x80\x80", b"\xE4\xB8", b"\xD1",
];
const GOOD_UTF8: [&str; 12] = ["a", "Title:", " ", "é", "ß", "\u{7ff}", "\u{800}", "漢字", "\u{ffff}", "\u{10000}", "😀", "\u{10ffff}"];

fn rand_utf8_line(r: &mut Rng, bad: usize) -> Vec<u8> {
    let n = r.range(0, 10) as usize;
    let mut v = vec![];
    let mut places: Vec<usize> = (0..bad).map(|_| r.below(n + 1)).collect();
    places.sort();
    for i in 0..=n {
        for _ in places.iter().filter(|p| **p == i) {
            if r.chance(1, 5) {
                v.push(r.range(0x80, 0xFF) as u8);
            } else {
                v.extend_from_slice(BAD_UTF8[r.below(BAD_UTF8.len())]);
            }
        }
        if i < n {
            v.extend_from_slice(r.pick(&GOOD_UTF8).as_bytes());
        }
    }
    v
}

const UNITS: [u16; 16] = [0x0000, 0x000A, 0x0041, 0x0A00, 0x4E0A, 0xD7FF, 0xD800, 0xD801, 0xDBFF, 0xDC00, 0xDC01, 0xDFFF, 0xE000, 0xFEFF, 0xFFFE, 0xFFFF];

/// LineDecoder over one buffer vs the model (entry c08 with an empty schedule)
fn lines_case(out: &mut Out, data: &[u8], desc: String) -> Result<std::io::Result<Vec<String>>, String> {
    let res = lines_via(std::io::Cursor::new(data));
    let nontrivial = data.len() >= 3 && data.contains(&b'\n');
    if data.len() <= 4096 {
        // the schedule-free reference decode_stream (what the theorems call "the lines of the bytes")
        out.case(bytes_case("c08p", &[], data), dump_lines(&res), format!("{desc} [reference decode_stream]"), nontrivial);
    }
    out.case(case_c08(data, &[]), dump_lines(&res), desc, nontrivial);
    res
}

/// the four encodings of one text must decode to the same map
fn four_encodings(out: &mut Out, name: &str, text: &str, with_model: bool) {
    let mut results: Vec<MapResult> = vec![];
    for enc in 0..4 {
        let data = encode_text(text, enc);
        if with_model {
            let _ = lines_case(out, &data, format!("{name} as {} ({} bytes): all lines", ENC_NAMES[enc], data.len()));
        }
        results.push(decode_bytes(&data));
        out.count(&format!("text.{}", ENC_NAMES[enc]));
    }
    for enc in 1..4 {
        out.oracle_checks += 1;
        if let Some(d) = diff_results(&results[0], &results[enc]) {
            // no content is exempt: characters whose UTF-16 code units contain a byte 0x0A
            // (the class of the repaired finding D5) count like any other
            let show: String = text.chars().take(120).collect();
            out.fail("", &format!("{name}: text {show:?} as {} vs {}", ENC_NAMES[0], ENC_NAMES[enc]), &d);
        }
    }
}

/// UTF-16LE+BOM streams that end right after the low byte of a line feed (an
/// odd trailing byte 0x0A): the odd byte is dropped, i.e. the lines and the
/// decoded map are those of the stream with the complete line feed; never an
/// error.  `every`: use every n-th line feed (and the last).
fn lf_cut_streams(out: &mut Out, name: &str, text: &str, every: usize) {
    let full = encode_text(text, 2);
    let cuts = lf_cuts_utf16le(&full);
    for (j, &c) in cuts.iter().enumerate() {
        if !(every == usize::MAX || j % every == 0 || j + 1 == cuts.len()) {
            continue;
        }
        let (cut, whole) = (&full[..c], &full[..c + 1]);
        let desc = format!("{name}: UTF-16LE stream of {} bytes cut after the low byte of the line feed at {} [{}]", full.len(), c - 1, hex(&cut[cut.len().saturating_sub(12)..]));
        let got = lines_case(out, cut, desc.clone());
        let want = lines_via(std::io::Cursor::new(whole));
        out.oracle_checks += 2;
        out.count("lines.utf16le_lf_cut");
        match (&got, &want) {
            (Ok(Ok(a)), Ok(Ok(b))) => {
                if a != b {
                    out.fail("", &desc, &format!("lines differ from those of the stream with the complete line feed: {} vs {} lines, last {:?} vs {:?}", a.len(), b.len(), a.last(), b.last()));
                }
            }
            (Ok(Err(e)), _) => out.fail("", &desc, &format!("line decoder failed with {:?} on an in-memory buffer", e.kind())),
            (Err(p), _) => out.fail("", &desc, &format!("panic: {p}")),
            _ => {}
        }
        if let Some(d) = diff_results(&decode_bytes(whole), &decode_bytes(cut)) {
            out.fail("", &desc, &format!("decode of the stream with the complete line feed vs the cut stream: {d}"));
        }
    }
}

/// A text in which every string-valued field, a comment, an unknown header, a line of its own
/// and the last line (without line break) carry characters whose UTF-16 code units contain a
/// byte 0x0A -- at the start, in the middle and at the end of the field, next to real line
/// breaks (`\n` or `\r\n`) and to characters that have none.
fn dense_lf_text(r: &mut Rng, i: usize) -> String {
    let nl = if i % 3 == 1 { "\r\n" } else { "\n" };
    let mut v = |r: &mut Rng| -> String {
        let mut s = String::new();
        for _ in 0..r.range(1, 5) {
            match r.below(5) {
                0 => s.push(*r.pick(&['a', 'Z', '0', '\u{e9}', '\u{6f22}', '\u{1f600}'])),
                _ => s.push(*r.pick(&LF_BYTE_CHARS)),
            }
        }
        if r.chance(1, 3) {
            s.push('\u{0a0a}');
        }
        s
    };
    let mut t = String::new();
    t += &format!("osu file format v{}{nl}", r.pick(&[14, 9, 5]));
    t += &format!("// {}{nl}", v(r));
    t += &format!("[General]{nl}AudioFilename: {}.mp3{nl}SampleSet: {}{nl}{}: {}{nl}", v(r), v(r), v(r), v(r));
    t += &format!("[Metadata]{nl}");
    for k in ["Title", "TitleUnicode", "Artist", "ArtistUnicode", "Creator", "Version", "Source", "Tags"] {
        t += &format!("{k}:{}{nl}", v(r));
    }
    t += &format!("[Events]{nl}0,0,\"{}.jpg\",0,0{nl}Video,0,\"{}.avi\"{nl}", v(r), v(r));
    t += &format!("[{}]{nl}{}{nl}", v(r), v(r));
    t += &format!("[Colours]{nl}Combo1 : 1,2,3{nl}{} : 4,5,6{nl}", v(r));
    t += &format!("[HitObjects]{nl}256,192,0,1,0,0:0:0:0:{}.wav{nl}", v(r));
    t += &format!("[Metadata]{nl}Title:{}", v(r));
    t
}

/// The lines of a UTF-16 stream (with BOM) of arbitrary bytes: the bytes are paired into
/// code units from the start, a lone last byte is dropped, the units are cut behind every
/// U+000A, each piece is converted lossily (an unpaired surrogate becomes U+FFFD) and
/// trimmed at the end.  A byte 0x0A that is not the code unit 000A is content.
fn utf16_stream(out: &mut Out, data: &[u8], le: bool, what: &str) {
    let desc = format!("{what}: bytes [{}]", hex(data));
    let res = lines_case(out, data, desc.clone());
    out.oracle_checks += 1;
    let units = units_of(&data[2..], le);
    let odd = data.len() % 2 == 1;
    let mut want: Vec<String> = units.split_inclusive(|u| *u == 0x000A).map(|l| String::from_utf16_lossy(l).trim_end().to_string()).collect();
    match &res {
        Ok(Ok(lines)) => {
            // a lone last byte behind a complete line is a raw line of its own that decodes to
            // nothing: one more empty line, which no parser sees
            let mut lines = lines.clone();
            if odd {
                while lines.last().map_or(false, |l| l.is_empty()) {
                    lines.pop();
                }
                while want.last().map_or(false, |l| l.is_empty()) {
                    want.pop();
                }
            }
            if lines != want {
                let k = lines.iter().zip(&want).position(|(a, b)| a != b).unwrap_or(lines.len().min(want.len()));
                out.fail("", &desc, &format!("line {k}: decoder gives {:?}, the code units give {:?} ({} vs {} lines)", lines.get(k), want.get(k), lines.len(), want.len()));
            }
        }
        Ok(Err(e)) => out.fail("", &desc, &format!("line decoder failed with {:?} on an in-memory buffer", e.kind())),
        Err(p) => out.fail("", &desc, &format!("panic: {p}")),
    }
}

/// one scalar value as the only content of `Title:`, in the four encodings
fn scalar_title(out: &mut Out, c: char, buf: &mut String) {
    buf.clear();
    buf.push_str("osu file format v14\n\n[Metadata]\nTitle:");
    buf.push(c);
    buf.push('\n');
    let mut titles: [Option<String>; 4] = [None, None, None, None];
    for enc in 0..4 {
        let data = encode_text(buf, enc);
        titles[enc] = rosu_map::from_bytes::<Beatmap>(&data).ok().map(|m| m.title);
    }
    out.oracle_checks += 1;
    let want = if c.is_whitespace() { String::new() } else { c.to_string() };
    for enc in 0..4 {
        // `Title::` is D1 (KeyValue::parse), not an encoding matter: only compare across encodings
        let ok = if c == ':' { titles[enc] == titles[0] } else { titles[enc].as_deref() == Some(want.as_str()) };
        if !ok {
            out.fail("", &format!("Title:U+{:04X} as {}", c as u32, ENC_NAMES[enc]), &format!("title decodes to {:?}, expected {want:?} (utf8 gives {:?})", titles[enc], titles[0]));
        }
    }
}

pub const RULE: &str = "Encoding::decode on single buffers (valid text with injected ill-formed UTF-8 sequences of every Table 3-7 class, UTF-16 with lone/swapped surrogates and odd tails, UTF-16LE streams cut right after the low byte of a line feed, UTF-16 texts truncated at every byte, UTF-16 noise over {00, 0A, CR, letters, surrogate halves}), texts whose every string-valued field carries characters with a byte 0x0A in their UTF-16 code units (U+4E0A, U+010A, U+0A00..0AFF, U+FF0A, U+200A, U+1040A), std from_utf8 / from_utf8_lossy / decode_utf16 against the transcriptions, Encoding::from_bom on short buffers, and the line decoder over bundled maps and generated .osu texts in UTF-8, UTF-8+BOM, UTF-16LE+BOM, UTF-16BE+BOM (including invalid-byte and surrogate injections into single lines and truncated streams); thorough: all 1-3 byte strings and every Unicode scalar value as Title content; non-trivial = buffer of at least 2 bytes / stream with at least one complete line; distinct = distinct case lines";

pub fn generate(tier: &str, seed: u64, out: &mut Out) {
    let thorough = tier == "thorough";
    let mut r = Rng::new(seed ^ 0xC10);

    // ---- corpus: the recorded findings first
    // the inputs of the repaired finding D5: a byte 0x0A inside a UTF-16 code unit (low byte,
    // high byte, a low surrogate) used to end the line; not exempted any more
    four_encodings(out, "corpus-former-D5", "osu file format v14\n\n[Metadata]\nTitle:上x\n", true);
    four_encodings(out, "corpus-former-D5", "osu file format v14\n\n[Metadata]\nTitle:\u{0a41}x\nArtist:y\n", true);
    four_encodings(out, "corpus-former-D5", "osu file format v14\r\n[General]\r\nAudioFilename: \u{010a}\u{1040a}.mp3\r\n[Metadata]\r\nTitle:\u{0a00}\u{0aff}\nTags:\u{ff0a} \u{200a}\n[Events]\n0,0,\"\u{4e0a}\u{0a0a}.jpg\",0,0\n\u{0a0a}", true);
    for i in 0..4 {
        let t = dense_lf_text(&mut r, i);
        four_encodings(out, "corpus-former-D5-dense", &t, true);
    }
    // the input of the repaired finding D6: UTF-16LE stream cut after the low byte of the last LF
    // (an odd trailing byte 0x0A); not exempted any more
    lf_cut_streams(out, "corpus-former-D6", "osu file format v14\n\n[Metadata]\nTitle:abc\n", usize::MAX);
    lf_cut_streams(out, "corpus-former-D6-crlf", "osu file format v14\r\n\r\n[Metadata]\r\nTitle:\u{6f22}\u{1f600} \r\nArtist:y", usize::MAX);

    // ---- long lines: a supplementary character (two UTF-16 units, four UTF-8 bytes), a
    // three-byte character and a CR LF placed so that they straddle every offset around the
    // powers of two from 32 to 8192 units of a line (buffer / block sizes of a reader)
    {
        let mut k = 32usize;
        while k <= 8192 {
            for delta in [0usize, 1, 2, 3] {
                let pad = (k + delta).saturating_sub(6 + 2);       // "Title:" + room before the boundary
                for ch in ['\u{1F3B5}', '\u{4E0A}', '\u{10FFFF}'] {
                    let title: String = std::iter::repeat('a').take(pad).chain([ch, 'z']).collect();
                    let text = format!("osu file format v14\n\n[Metadata]\nTitle:{title}\nArtist:{ch}b\r\nCreator:c\n");
                    four_encodings(out, "long-line-boundary", &text, k <= 512 || thorough);
                    out.count("text.long_line_boundary");
                }
            }
            k *= 2;
        }
    }

    // ---- Encoding::from_bom
    {
        let alpha = [0xEFu8, 0xBB, 0xBF, 0xFF, 0xFE, 0x00, 0x41];
        let mut bufs: Vec<Vec<u8>> = vec![vec![]];
        let mut cur: Vec<Vec<u8>> = vec![vec![]];
        for _ in 0..4 {
            let mut nxt = vec![];
            for b in &cur {
                for a in alpha {
                    let mut v = b.clone();
                    v.push(a);
                    nxt.push(v);
                }
            }
            bufs.extend(nxt.iter().cloned());
            cur = nxt;
        }
        for b in &bufs {
            let (e, n) = encoding_from_bom(b);
            let mut l = Line::new();
            l.i(e as i128).i(n as i128);
            out.case(bytes_case("c10b", &[], b), l.0, format!("Encoding::from_bom([{}])", hex(b)), b.len() >= 2);
            out.oracle_checks += 1;
            let want = if b.starts_with(&[0xEF, 0xBB, 0xBF]) { (0, 3) } else if b.starts_with(&[0xFF, 0xFE]) { (2, 2) } else if b.starts_with(&[0xFE, 0xFF]) { (1, 2) } else { (0, 0) };
            if (e, n) != want {
                out.fail("", &format!("from_bom([{}])", hex(b)), &format!("got {:?}, BOM table says {want:?}", (e, n)));
            }
        }
    }

    // ---- single buffers: UTF-8
    for b in BAD_UTF8 {
        direct(out, 0, b, "ill-formed");
        std_utf8(out, b);
        for g in ["a", "é", "漢", "😀"] {
            let mut v = g.as_bytes().to_vec();
            v.extend_from_slice(b);
            direct(out, 0, &v, "ill-formed");
            std_utf8(out, &v);
            v.extend_from_slice(g.as_bytes());
            direct(out, 0, &v, "ill-formed");
            std_utf8(out, &v);
        }
    }
    let n = if thorough { 30000 } else { 2500 };
    for i in 0..n {
        let bad = [0, 1, 1, 2, 3][i % 5];
        let v = rand_utf8_line(&mut r, bad);
        direct(out, 0, &v, if bad == 0 { "valid" } else { "injected" });
        if i % 2 == 0 {
            std_utf8(out, &v);
        }
    }
    for _ in 0..(if thorough { 20000 } else { 1500 }) {
        // short noise over the bytes that matter for the validator
        let len = r.range(1, 6) as usize;
        let v: Vec<u8> = (0..len).map(|_| *r.pick(&[0x00, 0x41, 0x7F, 0x80, 0x8F, 0x90, 0x9F, 0xA0, 0xBF, 0xC0, 0xC1, 0xC2, 0xDF, 0xE0, 0xE1, 0xEC, 0xED, 0xEE, 0xEF, 0xF0, 0xF1, 0xF3, 0xF4, 0xF5, 0xFF, 0x0A])).collect();
        direct(out, 0, &v, "boundary-noise");
        std_utf8(out, &v);
    }
    // all 1- and 2-byte strings; all 3-byte strings as digests (thorough)
    if thorough {
        for a in 0..=255u8 {
            direct(out, 0, &[a], "exhaustive-1");
            std_utf8(out, &[a]);
            for b in 0..=255u8 {
                direct(out, 0, &[a, b], "exhaustive-2");
                std_utf8(out, &[a, b]);
            }
        }
    }
    {
        let prefixes: Vec<[u8; 2]> = if thorough {
            (0..=255u8).flat_map(|a| (0..=255u8).map(move |b| [a, b])).collect()
        } else {
            (0..300).map(|_| [*r.pick(&[0x41, 0xC2, 0xE0, 0xE1, 0xED, 0xEF, 0xF0, 0xF4, 0x80, 0xF5]), r.next() as u8]).collect()
        };
        const P: u128 = 2305843009213693951;
        let mix = |h: u128, v: u128| (h * 1000003 + v + 1) % P;
        for p in prefixes {
            let mut h: u128 = 0;
            for c in 0..=255u8 {
                let v = [p[0], p[1], c];
                match std::str::from_utf8(&v) {
                    Ok(_) => h = mix(h, 0),
                    Err(e) => {
                        h = mix(h, 1);
                        h = mix(h, e.valid_up_to() as u128);
                        h = mix(h, e.error_len().unwrap_or(0) as u128);
                    }
                }
                let s = encoding_decode(0, &v);
                h = mix(h, 0);
                h = mix(h, s.chars().count() as u128);
                for ch in s.chars() {
                    h = mix(h, ch as u128);
                }
                out.oracle_checks += 1;
                if s != String::from_utf8_lossy(&v) {
                    out.fail("", &format!("Encoding::Utf8.decode([{}])", hex(&v)), "differs from String::from_utf8_lossy");
                }
            }
            let mut l = Line::new();
            l.i(h as i128);
            out.case(bytes_case("c10x", &[], &p), l.0, format!("digest of from_utf8 + decode over [{:02X} {:02X} 00..FF]", p[0], p[1]), true);
            out.count("decode.Utf8.exhaustive-3(digest of 256)");
        }
    }

    // ---- single buffers: UTF-16
    {
        let maxlen = if thorough { 4 } else { 3 };
        let mut seqs: Vec<Vec<u16>> = vec![vec![]];
        let mut cur: Vec<Vec<u16>> = vec![vec![]];
        for _ in 0..maxlen {
            let mut nxt = vec![];
            for s in &cur {
                for u in UNITS {
                    let mut v = s.clone();
                    v.push(u);
                    nxt.push(v);
                }
            }
            seqs.extend(nxt.iter().cloned());
            cur = nxt;
        }
        for (i, s) in seqs.iter().enumerate() {
            std_utf16(out, s);
            if s.len() <= 2 || i % 7 == 0 {
                for le in [true, false] {
                    let mut b: Vec<u8> = s.iter().flat_map(|u| if le { u.to_le_bytes() } else { u.to_be_bytes() }).collect();
                    direct(out, if le { 2 } else { 1 }, &b, "surrogate-classes");
                    b.push(*r.pick(&[0x00, 0x0A, 0xD8, 0x41]));
                    direct(out, if le { 2 } else { 1 }, &b, "odd-tail");
                }
            }
        }
        if thorough {
            for u in 0..=0xFFFFu16 {
                std_utf16(out, &[u]);
                std_utf16(out, &[0xD800 | (u & 0x3FF), u]);
            }
        }
        for _ in 0..(if thorough { 10000 } else { 800 }) {
            let text = gen_text(&mut r, true);
            let line: String = text.lines().nth(r.below(6)).unwrap_or("Title:x").to_string();
            let mut u: Vec<u16> = line.encode_utf16().collect();
            for _ in 0..r.range(0, 3) {
                let p = r.below(u.len() + 1);
                u.insert(p, r.range(0xD800, 0xDFFF) as u16);
            }
            let le = r.chance(1, 2);
            let mut b: Vec<u8> = u.iter().flat_map(|x| if le { x.to_le_bytes() } else { x.to_be_bytes() }).collect();
            if r.chance(1, 3) {
                b.push(r.next() as u8);
            }
            direct(out, if le { 2 } else { 1 }, &b, "injected");
        }
    }

    // ---- lines: texts in the four encodings
    let bundled = bundled_texts();
    for (name, text) in &bundled {
        let big = text.len() > 4096;
        four_encodings(out, name, text, !big || thorough);
        if big && !thorough {
            let data = encode_text(text, 2);
            let _ = lines_case(out, &data, format!("{name} as utf16le-bom ({} bytes): all lines", data.len()));
        }
    }
    let n = if thorough { 4000 } else { 300 };
    for i in 0..n {
        let text = gen_text(&mut r, false);
        four_encodings(out, &format!("generated#{i}"), &text, true);
    }
    // texts with characters whose UTF-16 code units contain a byte 0x0A: in metadata values and
    // file names (gen_text), and in every string-valued field, comment, unknown header and
    // the last line (dense_lf_text)
    for i in 0..(if thorough { 1200 } else { 120 }) {
        let text = gen_text(&mut r, true);
        four_encodings(out, &format!("generated-lf-bytes#{i}"), &text, true);
        out.count("text.with_0x0A_byte_units");
    }
    for i in 0..(if thorough { 600 } else { 60 }) {
        let text = dense_lf_text(&mut r, i);
        four_encodings(out, &format!("dense-lf-bytes#{i}"), &text, true);
        out.count("text.with_0x0A_byte_units_in_every_field");
    }

    // ---- invalid UTF-8 in one line: U+FFFD as lossy conversion, that line only
    let smalls: Vec<&(String, String)> = bundled.iter().filter(|(_, t)| t.len() <= 4096).collect();
    for i in 0..(if thorough { 3000 } else { 300 }) {
        let text = if i % 2 == 0 { gen_text(&mut r, false) } else { smalls[r.below(smalls.len())].1.clone() };
        let with_bom = r.chance(1, 3);
        let clean = encode_text(&text, if with_bom { 1 } else { 0 });
        let skip = if with_bom { 3 } else { 0 };
        let mut data = clean.clone();
        let ninj = r.range(1, 3);
        let mut touched = vec![];
        for _ in 0..ninj {
            let p = skip + r.below(data.len() - skip + 1);
            let inj: Vec<u8> = if r.chance(1, 4) { vec![r.range(0x80, 0xFF) as u8] } else { BAD_UTF8[r.below(BAD_UTF8.len())].to_vec() };
            for (k, b) in inj.iter().enumerate() {
                data.insert(p + k, *b);
            }
            touched.push(p);
        }
        if !with_bom && (data.starts_with(&[0xFF, 0xFE]) || data.starts_with(&[0xFE, 0xFF]) || data.starts_with(&[0xEF, 0xBB, 0xBF])) {
            continue; // the injection made a BOM: a different text
        }
        let res = lines_case(out, &data, format!("{} invalid UTF-8 sequence(s) injected into a {} byte text", ninj, clean.len()));
        out.oracle_checks += 1;
        out.count("lines.invalid_utf8_injected");
        let want: Vec<String> = data[skip..].split_inclusive(|b| *b == b'\n').map(|l| String::from_utf8_lossy(l).trim_end().to_string()).collect();
        match &res {
            Ok(Ok(lines)) => {
                if *lines != want {
                    let k = lines.iter().zip(&want).position(|(a, b)| a != b).unwrap_or(lines.len().min(want.len()));
                    out.fail("", &format!("bytes [{}]", hex(&data)), &format!("line {k}: decoder gives {:?}, per-line lossy conversion gives {:?} ({} vs {} lines)", lines.get(k), want.get(k), lines.len(), want.len()));
                }
                // locality: a line whose raw bytes were not touched decodes as in the clean stream
                if let Ok(Ok(clean_lines)) = lines_via(std::io::Cursor::new(&clean[..])) {
                    let raw_c: Vec<&[u8]> = clean[skip..].split_inclusive(|b| *b == b'\n').collect();
                    let raw_d: Vec<&[u8]> = data[skip..].split_inclusive(|b| *b == b'\n').collect();
                    if raw_c.len() == raw_d.len() && clean_lines.len() == raw_c.len() && lines.len() == raw_d.len() {
                        for k in 0..raw_c.len() {
                            if raw_c[k] == raw_d[k] && lines[k] != clean_lines[k] {
                                out.fail("", &format!("bytes [{}]", hex(&data)), &format!("line {k} has no injected byte but decodes to {:?} instead of {:?}", lines[k], clean_lines[k]));
                            }
                        }
                    }
                }
            }
            Ok(Err(e)) => out.fail("", &format!("bytes [{}]", hex(&data)), &format!("line decoder failed with {:?} on an in-memory buffer", e.kind())),
            Err(p) => out.fail("", &format!("bytes [{}]", hex(&data)), &format!("panic: {p}")),
        }
    }

    // ---- UTF-16LE streams cut right after the low byte of a line feed
    for i in 0..(if thorough { 300 } else { 30 }) {
        let text = if i % 2 == 0 { gen_text(&mut r, i % 4 == 0) } else { smalls[r.below(smalls.len())].1.clone() };
        lf_cut_streams(out, "lf-cut", &text, if thorough { 1 } else { 5 });
    }

    // ---- malformed UTF-16: every truncation point of encoded texts, and noise over the bytes
    // that matter (0x00, 0x0A, surrogate halves): a byte 0x0A ends a line only as the code unit
    // 000A at an even offset; a lone last byte is dropped
    for i in 0..(if thorough { 60 } else { 8 }) {
        let text = if i % 2 == 0 { dense_lf_text(&mut r, i) } else { gen_text(&mut r, true) };
        let text: String = text.chars().take(if thorough { 400 } else { 160 }).collect();
        for le in [true, false] {
            let full = encode_text(&text, if le { 2 } else { 3 });
            for k in 2..=full.len() {
                utf16_stream(out, &full[..k], le, &format!("truncation@{k} of a UTF-16{} text of {} bytes", if le { "LE" } else { "BE" }, full.len()));
                out.count("lines.utf16_truncation");
            }
        }
    }
    for _ in 0..(if thorough { 6000 } else { 600 }) {
        let le = r.chance(1, 2);
        let mut data: Vec<u8> = if le { vec![0xFF, 0xFE] } else { vec![0xFE, 0xFF] };
        for _ in 0..r.below(14) {
            data.push(*r.pick(&[0x00u8, 0x00, 0x0A, 0x0A, 0x0A, 0x41, 0x4E, 0x20, 0x0D, 0xD8, 0xDC, 0xFF]));
        }
        utf16_stream(out, &data, le, "UTF-16 noise over {00, 0A, letters, CR, surrogate halves}");
        out.count("lines.utf16_noise");
    }

    // ---- unpaired surrogates in one line of a UTF-16 stream; odd tails
    for i in 0..(if thorough { 3000 } else { 300 }) {
        let text = if i % 2 == 0 { gen_text(&mut r, i % 6 == 0) } else { smalls[r.below(smalls.len())].1.clone() };
        let le = r.chance(1, 2);
        let mut units: Vec<u16> = text.encode_utf16().collect();
        let ninj = r.range(0, 2);
        for _ in 0..ninj {
            let p = r.below(units.len() + 1);
            units.insert(p, r.range(0xD800, 0xDFFF) as u16);
        }
        let mut data: Vec<u8> = if le { vec![0xFF, 0xFE] } else { vec![0xFE, 0xFF] };
        for u in &units {
            data.extend_from_slice(&if le { u.to_le_bytes() } else { u.to_be_bytes() });
        }
        let odd_tail = if ninj == 0 || r.chance(1, 3) { Some(*r.pick(&[0x00u8, 0x41, 0xD8, 0x0A, 0xFF])) } else { None };
        if let Some(t) = odd_tail {
            data.push(t);
        }
        let res = lines_case(out, &data, format!("{} lone surrogate(s) injected into a UTF-16{} text of {} units{}", ninj, if le { "LE" } else { "BE" }, units.len(), if odd_tail.is_some() { ", odd trailing byte" } else { "" }));
        out.oracle_checks += 1;
        out.count(if odd_tail.is_some() { "lines.utf16_odd_tail" } else { "lines.utf16_surrogate_injected" });
        // expected: split the unit sequence at U+000A, lossy conversion per line;
        // an odd trailing byte is dropped
        let want: Vec<String> = units.split_inclusive(|u| *u == 0x000A).map(|l| String::from_utf16_lossy(l).trim_end().to_string()).collect();
        let class = "";
        match &res {
            Ok(Ok(lines)) => {
                // the odd trailing byte is dropped; a final buffer holding only
                // that byte shows up as one more empty line, which no parser sees
                let mut lines = lines.clone();
                let mut want = want.clone();
                if odd_tail.is_some() {
                    while lines.last().map_or(false, |l| l.is_empty()) {
                        lines.pop();
                    }
                    while want.last().map_or(false, |l| l.is_empty()) {
                        want.pop();
                    }
                }
                if lines != want {
                    let k = lines.iter().zip(&want).position(|(a, b)| a != b).unwrap_or(lines.len().min(want.len()));
                    fail(out, class, &format!("bytes [{}]", hex(&data)), &format!("line {k}: decoder gives {:?}, expected {:?} ({} vs {} lines)", lines.get(k), want.get(k), lines.len(), want.len()));
                }
            }
            Ok(Err(e)) => fail(out, class, &format!("bytes [{}]", hex(&data)), &format!("line decoder failed with {:?} on an in-memory buffer", e.kind())),
            Err(p) => out.fail("", &format!("bytes [{}]", hex(&data)), &format!("panic: {p}")),
        }
    }

    // ---- every scalar value as single-character Title content
    {
        let mut buf = String::new();
        if thorough {
            for c in 0..=0x10FFFFu32 {
                if let Some(ch) = char::from_u32(c) {
                    scalar_title(out, ch, &mut buf);
                }
            }
            out.count_n("scalar_title.exhaustive", 1112064);
        } else {
            let mut n = 0;
            for c in (0..0x1000u32).chain(0xD700..0xE100).chain(0xFE00..0x10100).chain(0x10FF00..0x110000) {
                if let Some(ch) = char::from_u32(c) {
                    scalar_title(out, ch, &mut buf);
                    n += 1;
                }
            }
            for _ in 0..20000 {
                if let Some(ch) = char::from_u32(r.below(0x110000) as u32) {
                    scalar_title(out, ch, &mut buf);
                    n += 1;
                }
            }
            for ch in LF_BYTE_CHARS {
                scalar_title(out, ch, &mut buf);
                n += 1;
            }
            out.count_n("scalar_title.sampled", n);
        }
    }
    let _ = impl_lines;
}

//! C18: curve computation is pure -- histories of {compute owned, compute
//! borrowed, compute via the SliderPath cache, mutate points, mutate length,
//! clear cache} over a pool of control-point lists sharing one CurveBuffers.
use crate::out::Out;
use crate::proto::Line;
use crate::registry::c16::{
    describe, dump_curve, enc_len, enc_pts, make, mode_of, positions, random_points, to_points, too_expensive, Coord, Cp,
    CurveCase, Shape,
};
use crate::rng::Rng;
use crate::util::guarded;
use rosu_map::section::hit_objects::{BorrowedCurve, Curve, CurveBuffers, SliderPath};
use rosu_map::util::Pos;

pub const RULE: &str = "a history is non-trivial when it contains at least two curve computations through different APIs, or a mutation followed by a read";

#[derive(Clone, Copy, Debug, PartialEq)]
pub enum Op {
    Owned(usize, usize),
    Borrowed(usize, usize),
    SpCurve,
    SpCurveWithBufs,
    SpBorrowed,
    SetPoints(usize),
    SetDist(usize),
    Clear,
    TouchPoints,
    TouchDist,
}

pub struct History {
    pub mode: u8,
    pub pool: Vec<Vec<Cp>>,
    pub lens: Vec<Option<f64>>,
    pub ops: Vec<Op>,
}

fn same(path: &[Pos], lens: &[f64], r: &Curve) -> bool {
    let bp = |p: &Pos| (canon32(p.x), canon32(p.y));
    path.len() == r.path().len()
        && lens.len() == r.lengths().len()
        && path.iter().zip(r.path()).all(|(a, b)| bp(a) == bp(b))
        && lens.iter().zip(r.lengths()).all(|(a, b)| canon64(*a) == canon64(*b))
}
fn canon32(x: f32) -> u32 {
    if x.is_nan() {
        0x7fc0_0000
    } else {
        x.to_bits()
    }
}
fn canon64(x: f64) -> u64 {
    if x.is_nan() {
        0x7ff8_0000_0000_0000
    } else {
        x.to_bits()
    }
}

pub fn run_history(h: &History, out: &mut Out) {
    let mut line = Line::entry("c18");
    line.u(h.mode as u64).u(h.pool.len() as u64);
    for p in &h.pool {
        enc_pts(&mut line, p);
    }
    line.u(h.lens.len() as u64);
    for l in &h.lens {
        enc_len(&mut line, *l);
    }
    let mode = mode_of(h.mode);
    let pool: Vec<_> = h.pool.iter().map(|p| to_points(p)).collect();
    let desc = format!(
        "mode={} pool={:?} lens={:?} ops={:?}",
        h.mode,
        h.pool.iter().map(|p| describe(&CurveCase { mode: h.mode, pts: p.clone(), len: None })).collect::<Vec<_>>(),
        h.lens,
        h.ops
    );
    let mut res = Line::new();
    let mut fails: Vec<(String, String)> = vec![];
    let mut checks = 0u64;
    let mut apis = std::collections::BTreeSet::new();
    let mut mutated_then_read = false;
    let r = guarded(|| {
        let mut bufs = CurveBuffers::default();
        let mut sp = SliderPath::new(mode, pool[0].clone(), h.lens[0]);
        // what the path was GIVEN (constructor, accessors), tracked independently of what it reports
        let mut given_pts = pool[0].clone();
        let mut given_len = h.lens[0];
        let mut pending_mut = false;
        for (n, op) in h.ops.iter().enumerate() {
            // reference: fresh buffers, owned API, the *current* inputs
            let check = |what: &str, path: &[Pos], lens: &[f64], pts: &[rosu_map::section::hit_objects::PathControlPoint], len: Option<f64>, fails: &mut Vec<(String, String)>| {
                let reference = Curve::new(mode, pts, len, &mut CurveBuffers::default());
                if !same(path, lens, &reference) {
                    let class = "";
                    fails.push((
                        class.to_string(),
                        format!("op #{} {}: got {} vertices / dist {:?}, a fresh computation gives {} vertices / dist {:?}", n, what, path.len(), lens.last(), reference.path().len(), reference.lengths().last()),
                    ));
                }
            };
            match *op {
                Op::Owned(k, l) => {
                    line.u(0).u(k as u64).u(l as u64);
                    let c = Curve::new(mode, &pool[k], h.lens[l], &mut bufs);
                    res.u(0);
                    dump_curve(&mut res, c.path(), c.lengths());
                    checks += 1;
                    check("Curve::new", c.path(), c.lengths(), &pool[k], h.lens[l], &mut fails);
                    apis.insert(0);
                }
                Op::Borrowed(k, l) => {
                    line.u(1).u(k as u64).u(l as u64);
                    let c = BorrowedCurve::new(mode, &pool[k], h.lens[l], &mut bufs);
                    res.u(0);
                    dump_curve(&mut res, c.path(), c.lengths());
                    checks += 1;
                    check("BorrowedCurve::new", c.path(), c.lengths(), &pool[k], h.lens[l], &mut fails);
                    apis.insert(1);
                }
                Op::SpCurve => {
                    line.u(2);
                    let cps = given_pts.clone();
                    let e = given_len;
                    let c = sp.curve();
                    res.u(0);
                    dump_curve(&mut res, c.path(), c.lengths());
                    checks += 1;
                    // curve() computes with fresh buffers, but may return a curve cached by curve_with_bufs
                    check("SliderPath::curve", c.path(), c.lengths(), &cps, e, &mut fails);
                    apis.insert(2);
                    mutated_then_read |= pending_mut;
                    pending_mut = false;
                }
                Op::SpCurveWithBufs => {
                    line.u(3);
                    let cps = given_pts.clone();
                    let e = given_len;
                    let c = sp.curve_with_bufs(&mut bufs);
                    res.u(0);
                    dump_curve(&mut res, c.path(), c.lengths());
                    checks += 1;
                    check("SliderPath::curve_with_bufs", c.path(), c.lengths(), &cps, e, &mut fails);
                    apis.insert(3);
                    mutated_then_read |= pending_mut;
                    pending_mut = false;
                }
                Op::SpBorrowed => {
                    line.u(4);
                    let cps = given_pts.clone();
                    let e = given_len;
                    let c = sp.borrowed_curve(&mut bufs);
                    res.u(0);
                    dump_curve(&mut res, c.path(), c.lengths());
                    checks += 1;
                    check("SliderPath::borrowed_curve", c.path(), c.lengths(), &cps, e, &mut fails);
                    apis.insert(4);
                    mutated_then_read |= pending_mut;
                    pending_mut = false;
                }
                Op::SetPoints(k) => {
                    line.u(5).u(k as u64);
                    *sp.control_points_mut() = pool[k].clone();
                    given_pts = pool[k].clone();
                    pending_mut = true;
                }
                Op::SetDist(l) => {
                    line.u(6).u(l as u64);
                    *sp.expected_dist_mut() = h.lens[l];
                    given_len = h.lens[l];
                    pending_mut = true;
                }
                Op::Clear => {
                    line.u(7);
                    sp.clear_curve();
                }
                Op::TouchPoints => {
                    line.u(8);
                    let _ = sp.control_points_mut();
                }
                Op::TouchDist => {
                    line.u(9);
                    let _ = sp.expected_dist_mut();
                }
            }
        }
    });
    if r.is_err() {
        res.u(1);
        fails.push((String::new(), format!("panic: {:?}", r.err())));
    }
    out.oracle_checks += checks;
    for (class, det) in fails {
        out.fail(&class, &desc, &det);
    }
    out.count(&format!("history-length:{}", (h.ops.len() + 4) / 5 * 5));
    out.case(line.0, res.0, desc, apis.len() >= 2 || mutated_then_read);
}

fn small_pool() -> Vec<Vec<Cp>> {
    vec![
        // empty
        vec![],
        // multi-segment: linear then Bezier
        make(&[(0.0, 0.0), (10.0, 0.0), (10.0, 10.0), (20.0, 15.0)], &[(3, 0), (2, 0), (0, 0), (0, 0)]),
        // single point
        make(&[(3.0, 4.0)], &[(3, 0)]),
        // perfect curve
        make(&[(0.0, 0.0), (5.0, 5.0), (10.0, 0.0)], &[(4, 0), (0, 0), (0, 0)]),
        // Catmull
        make(&[(0.0, 0.0), (8.0, 3.0), (12.0, -4.0)], &[(1, 0), (0, 0), (0, 0)]),
    ]
}

pub fn generate(tier: &str, seed: u64, out: &mut Out) {
    let mut r = Rng::new(seed ^ 0xC18);
    let thorough = tier == "thorough";
    let lens = vec![None, Some(7.5), Some(80.0), Some(0.0), Some(-5.0)];

    // ---- corpus: a borrowed computation, then an empty list (the repaired D7 scenario)
    run_history(
        &History { mode: 0, pool: small_pool(), lens: lens.clone(), ops: vec![Op::Borrowed(1, 0), Op::Borrowed(0, 0), Op::Owned(0, 1)] },
        out,
    );
    run_history(
        &History { mode: 0, pool: small_pool(), lens: lens.clone(), ops: vec![Op::SetPoints(1), Op::SpBorrowed, Op::SetPoints(0), Op::SpBorrowed, Op::SpCurveWithBufs, Op::SpCurve] },
        out,
    );
    // the crate's own unit test
    run_history(
        &History { mode: 0, pool: small_pool(), lens: lens.clone(), ops: vec![Op::SpBorrowed, Op::SpCurveWithBufs, Op::SpBorrowed] },
        out,
    );

    // ---- exhaustive short histories over a small alphabet
    let alpha: Vec<Op> = vec![
        Op::Owned(0, 0),
        Op::Owned(1, 1),
        Op::Borrowed(0, 1),
        Op::Borrowed(1, 0),
        Op::SpCurve,
        Op::SpCurveWithBufs,
        Op::SpBorrowed,
        Op::SetPoints(0),
        Op::SetPoints(3),
        Op::SetDist(2),
        Op::Clear,
    ];
    let maxlen = if thorough { 5 } else { 3 };
    for len in 1..=maxlen {
        let total = alpha.len().pow(len as u32);
        for idx in 0..total {
            let mut ops = vec![];
            let mut id = idx;
            for _ in 0..len {
                ops.push(alpha[id % alpha.len()]);
                id /= alpha.len();
            }
            // thin the longest level in the thorough tier to what fits
            if thorough && len == 5 && idx % 3 != 0 {
                continue;
            }
            // observe the final state through two different reads
            ops.push(Op::SpBorrowed);
            ops.push(Op::SpCurveWithBufs);
            out.count("source:exhaustive");
            run_history(&History { mode: (idx % 4) as u8, pool: small_pool(), lens: lens.clone(), ops }, out);
        }
    }

    // ---- every transition of the requested length (and of the control points) between two
    //      reads, over a length pool that covers every case of the length adjustment
    let tl: Vec<Option<f64>> = vec![None, Some(50.0), Some(0.0), Some(-5.0), Some(1e-3), Some(3000.0), Some(-0.0)];
    let reads = [Op::SpCurve, Op::SpCurveWithBufs, Op::SpBorrowed];
    for from in 0..tl.len() {
        for to in 0..tl.len() {
            for (ri, r1) in reads.iter().enumerate() {
                let r2 = reads[(ri + from + to) % 3];
                for pts in [1usize, 3] {
                    out.count("source:length-transitions");
                    run_history(
                        &History { mode: ((from + to) % 4) as u8, pool: small_pool(), lens: tl.clone(), ops: vec![Op::SetPoints(pts), Op::SetDist(from), *r1, Op::SetDist(to), r2, Op::SetPoints(0), reads[(ri + 1) % 3]] },
                        out,
                    );
                }
            }
        }
    }

    // ---- one buffer set, lists of 3 ... 250 points, every ordered triple
    buffer_ladder(out);

    // ---- random long histories over random pools
    let n = if thorough { 2500 } else { 400 };
    for i in 0..n {
        let mut pool: Vec<Vec<Cp>> = vec![];
        let np = r.range(3, 7) as usize;
        for j in 0..np {
            let pts = match (j, r.below(8)) {
                (0, _) if i % 2 == 0 => vec![],
                (_, 0) => vec![],
                (_, 1) => make(&positions(&mut r, 1, Coord::Playfield, Shape::Free), &[(r.below(5) as u8, 0)]),
                _ => loop {
                    let p = random_points(&mut r, 8);
                    if !too_expensive(&p, 15_000) {
                        break p;
                    }
                },
            };
            pool.push(pts);
        }
        // the length pool spans every case of the length adjustment, including the degenerate
        // non-positive lengths that collapse the curve to a single point
        let mut lens = vec![None, Some(r.unit() * 300.0), Some(1e-3), Some(r.unit() * 3000.0 + 100.0)];
        if r.chance(1, 2) {
            lens.push(Some(*r.pick(&[0.0, -0.0, -5.0, -1e300, 1e-300, f64::INFINITY])));
            lens.rotate_right(r.below(3));
        }
        let nops = if r.chance(1, 3) { r.range(20, 45) } else { r.range(4, 14) } as usize;
        let mut ops = vec![];
        for _ in 0..nops {
            ops.push(match r.below(14) {
                0 | 1 => Op::Owned(r.below(np), r.below(4)),
                2 | 3 => Op::Borrowed(r.below(np), r.below(4)),
                4 => Op::SpCurve,
                5 | 6 => Op::SpCurveWithBufs,
                7 | 8 => Op::SpBorrowed,
                9 | 10 => Op::SetPoints(r.below(np)),
                11 => Op::SetDist(r.below(4)),
                12 => Op::Clear,
                _ => {
                    if r.chance(1, 2) {
                        Op::TouchPoints
                    } else {
                        Op::TouchDist
                    }
                }
            });
        }
        out.count("source:random");
        let mode = r.below(4) as u8;
        // the same pool through ONE CurveBuffers with the mode changing from call to call,
        // repeating the previous request under another mode (implementation-side only)
        mode_switch(&mut r, &pool, &lens, out);
        run_history(&History { mode, pool, lens, ops }, out);
    }
}

/// One CurveBuffers shared by control-point lists of very different sizes (3 ... 250 points of
/// every segment kind): every ordered triple of requests, each compared with a fresh computation
/// (implementation-side only: scratch buffers sized by an earlier, larger or smaller request).
fn buffer_ladder(out: &mut Out) {
    let gentle = |n: usize, ty: u8| -> Vec<Cp> {
        // a gently bending open polyline: cheap for the Bezier subdivision at any size
        let pos: Vec<(f32, f32)> = (0..n).map(|i| (i as f32 * 3.0, ((i * i) % 7) as f32 * 0.01 + (i as f32) * 0.2)).collect();
        let lay: Vec<(u8, i32)> = (0..n).map(|i| if i == 0 { (ty, 0) } else { (0, 0) }).collect();
        make(&pos, &lay)
    };
    // type codes as in `small_pool`: 1 Catmull, 2 Bezier, 3 linear, 4 perfect curve
    let pool: Vec<Vec<Cp>> = vec![
        gentle(3, 2), gentle(30, 2), gentle(120, 2), gentle(250, 2), gentle(2, 1), gentle(4, 1), gentle(3, 3),
        make(&[(0.0, 0.0), (5.0, 5.0), (10.0, 0.0)], &[(4, 0), (0, 0), (0, 0)]), gentle(5, 4), vec![],
    ];
    let pts: Vec<_> = pool.iter().map(|p| to_points(p)).collect();
    let lens = [None, Some(40.0)];
    for m in [0u8, 1] {
        for a in 0..pool.len() {
            for b in 0..pool.len() {
                for c in 0..pool.len() {
                    let seq = [a, b, c];
                    let pts2 = pts.clone();
                    let res = guarded(move || {
                        let mode = mode_of(m);
                        let mut bufs = CurveBuffers::default();
                        let mut bad: Option<String> = None;
                        for (n, &k) in seq.iter().enumerate() {
                            let len = lens[(n + k) % 2];
                            let reference = Curve::new(mode, &pts2[k], len, &mut CurveBuffers::default());
                            let ok = if (n + a) % 2 == 0 {
                                let c = BorrowedCurve::new(mode, &pts2[k], len, &mut bufs);
                                same(c.path(), c.lengths(), &reference)
                            } else {
                                let c = Curve::new(mode, &pts2[k], len, &mut bufs);
                                same(c.path(), c.lengths(), &reference)
                            };
                            if !ok && bad.is_none() {
                                bad = Some(format!("request #{n} differs from a fresh computation of the same request"));
                            }
                        }
                        bad
                    });
                    out.oracle_checks += 3;
                    out.count("source:buffer-ladder");
                    let desc = format!(
                        "one CurveBuffers, mode {m}, control-point lists of {} / {} / {} points (first types {:?})",
                        pool[a].len(), pool[b].len(), pool[c].len(),
                        [a, b, c].iter().map(|&k| pool[k].first().map(|p| p.ty)).collect::<Vec<_>>()
                    );
                    match res {
                        Ok(None) => {}
                        Ok(Some(x)) => out.fail("", &desc, &x),
                        Err(e) => out.fail("", &desc, &format!("panic: {e}")),
                    }
                }
            }
        }
    }
}

fn mode_switch(r: &mut Rng, pool: &[Vec<Cp>], lens: &[Option<f64>], out: &mut Out) {
    let pts: Vec<_> = pool.iter().map(|p| to_points(p)).collect();
    let n = r.range(4, 10) as usize;
    let mut seq: Vec<(u8, usize, usize, bool)> = vec![];
    for _ in 0..n {
        let (k, l) = (r.below(pts.len()), r.below(lens.len()));
        let m = r.below(4) as u8;
        seq.push((m, k, l, r.chance(1, 2)));
        if r.chance(1, 2) {
            // the very same request again, under another mode
            seq.push(((m + 1 + r.below(3) as u8) % 4, k, l, r.chance(1, 2)));
        }
    }
    let desc = format!(
        "one CurveBuffers, requests (mode, pool index, length index, borrowed) = {:?}; pool={:?} lens={:?}",
        seq,
        pool.iter().map(|p| describe(&CurveCase { mode: 0, pts: p.clone(), len: None })).collect::<Vec<_>>(),
        lens
    );
    let seq2 = seq.clone();
    let lens2 = lens.to_vec();
    let res = guarded(move || {
        let mut bufs = CurveBuffers::default();
        let mut bad: Option<String> = None;
        for (n, &(m, k, l, borrowed)) in seq2.iter().enumerate() {
            let mode = mode_of(m);
            let reference = Curve::new(mode, &pts[k], lens2[l], &mut CurveBuffers::default());
            let ok = if borrowed {
                let c = BorrowedCurve::new(mode, &pts[k], lens2[l], &mut bufs);
                same(c.path(), c.lengths(), &reference)
            } else {
                let c = Curve::new(mode, &pts[k], lens2[l], &mut bufs);
                same(c.path(), c.lengths(), &reference)
            };
            if !ok && bad.is_none() {
                bad = Some(format!("request #{n} (mode {m}) differs from a fresh computation of the same request"));
            }
        }
        bad
    });
    out.oracle_checks += seq.len() as u64;
    out.count("source:mode-switch");
    match res {
        Ok(None) => {}
        Ok(Some(x)) => out.fail("", &desc, &x),
        Err(e) => out.fail("", &desc, &format!("panic: {e}")),
    }
}

//! C05: file framing — which lines reach which section parser.
//!
//! Implementation side: a harness-side `Recorder` implements `DecodeBeatmap`
//! with eleven `parse_*` that only log `(section, line)`; the crate's own
//! `decode` default method (parse_version, parse_first_section, the section
//! loop, the real reader) is what runs.  Files are assembled from the
//! alphabet of line kinds the property's quantifier lists, exhaustively up to
//! a bounded length and randomly beyond, joined with LF or CRLF, with or
//! without final newline, in UTF-8 / UTF-8+BOM / UTF-16LE / UTF-16BE.
//!
//! Correspondence: entry `c05` (raw lines, the model trims them) and `c05t`
//! (whole text, the model also splits it) vs the Recorder's version + log.
//!
//! Oracle (from the property text, independent of the model): `spec` below —
//! a declarative reading (for every line: is it blank / comment / header; the
//! last header line before it) over `text.split('\n')` + `trim_end`; plus
//! metamorphic checks on the implementation: blank / comment insertion,
//! an unrecognised bracketed line is data, parser errors do not steer routing,
//! LF vs CRLF, final newline, the four encodings.
use crate::out::Out;
use crate::proto::Line;
use crate::rng::Rng;
use crate::util::guarded;
use rosu_map::{DecodeBeatmap, DecodeState};
use std::fmt;

pub const RULE: &str = "a case is non-trivial when at least one line reaches a section parser or the file carries a version other than the default";

// ---------------------------------------------------------------------------
// the Recorder

pub struct RecState {
    version: i32,
    log: Vec<(u8, String)>,
}

impl DecodeState for RecState {
    fn create(version: i32) -> Self {
        RecState { version, log: Vec::new() }
    }
}

/// `ERR = true`: a line containing '!' is answered with `Err` (after logging)
pub struct Recorder<const ERR: bool> {
    pub version: i32,
    pub log: Vec<(u8, String)>,
}

impl<const ERR: bool> From<RecState> for Recorder<ERR> {
    fn from(s: RecState) -> Self {
        Recorder { version: s.version, log: s.log }
    }
}

#[derive(Debug)]
pub struct RecErr;
impl fmt::Display for RecErr {
    fn fmt(&self, f: &mut fmt::Formatter<'_>) -> fmt::Result {
        f.write_str("marked line")
    }
}
impl std::error::Error for RecErr {}

fn record<const ERR: bool>(st: &mut RecState, sec: u8, line: &str) -> Result<(), RecErr> {
    st.log.push((sec, line.to_string()));
    if ERR && line.contains('!') {
        Err(RecErr)
    } else {
        Ok(())
    }
}

impl<const ERR: bool> DecodeBeatmap for Recorder<ERR> {
    type Error = RecErr;
    type State = RecState;

    fn parse_general(s: &mut RecState, l: &str) -> Result<(), RecErr> {
        record::<ERR>(s, 0, l)
    }
    fn parse_editor(s: &mut RecState, l: &str) -> Result<(), RecErr> {
        record::<ERR>(s, 1, l)
    }
    fn parse_metadata(s: &mut RecState, l: &str) -> Result<(), RecErr> {
        record::<ERR>(s, 2, l)
    }
    fn parse_difficulty(s: &mut RecState, l: &str) -> Result<(), RecErr> {
        record::<ERR>(s, 3, l)
    }
    fn parse_events(s: &mut RecState, l: &str) -> Result<(), RecErr> {
        record::<ERR>(s, 4, l)
    }
    fn parse_timing_points(s: &mut RecState, l: &str) -> Result<(), RecErr> {
        record::<ERR>(s, 5, l)
    }
    fn parse_colors(s: &mut RecState, l: &str) -> Result<(), RecErr> {
        record::<ERR>(s, 6, l)
    }
    fn parse_hit_objects(s: &mut RecState, l: &str) -> Result<(), RecErr> {
        record::<ERR>(s, 7, l)
    }
    fn parse_variables(s: &mut RecState, l: &str) -> Result<(), RecErr> {
        record::<ERR>(s, 8, l)
    }
    fn parse_catch_the_beat(s: &mut RecState, l: &str) -> Result<(), RecErr> {
        record::<ERR>(s, 9, l)
    }
    fn parse_mania(s: &mut RecState, l: &str) -> Result<(), RecErr> {
        record::<ERR>(s, 10, l)
    }
}

type Trace = (i32, Vec<(u8, String)>);

/// run the real decoder on bytes; Err(text) on io error or panic
fn run_impl<const ERR: bool>(bytes: &[u8]) -> Result<Trace, String> {
    match guarded(|| Recorder::<ERR>::decode(bytes)) {
        Ok(Ok(r)) => Ok((r.version, r.log)),
        Ok(Err(e)) => Err(format!("io error: {e}")),
        Err(p) => Err(format!("panic: {p}")),
    }
}

fn dump(t: &Result<Trace, String>) -> String {
    let mut l = Line::new();
    match t {
        Ok((v, log)) => {
            l.i(*v as i128).i(log.len() as i128);
            for (s, line) in log {
                l.i(*s as i128).s(line);
            }
        }
        Err(e) if e.starts_with("panic") => {
            l.i(-2).i(-2);
        }
        Err(_) => {
            l.i(-1).i(-1);
        }
    }
    l.0
}

// ---------------------------------------------------------------------------
// the oracle: the property text, read declaratively

const HEADERS: [&str; 11] = [
    "[General]",
    "[Editor]",
    "[Metadata]",
    "[Difficulty]",
    "[Events]",
    "[TimingPoints]",
    "[Colours]",
    "[HitObjects]",
    "[Variables]",
    "[CatchTheBeat]",
    "[Mania]",
];
const PREFIX: &str = "osu file format v";
const LATEST: i32 = 14;

fn header(l: &str) -> Option<u8> {
    HEADERS.iter().position(|h| *h == l).map(|i| i as u8)
}
fn blank(l: &str) -> bool {
    l.is_empty()
}
fn comment(l: &str) -> bool {
    l.trim_start().starts_with("//")
}

/// a decimal integer with optional sign, within the crate's parse limits
fn number(s: &str) -> Option<i32> {
    let s = s.trim();
    let (neg, digits) = match s.as_bytes().first() {
        Some(b'-') => (true, &s[1..]),
        Some(b'+') => (false, &s[1..]),
        _ => (false, s),
    };
    if digits.is_empty() || !digits.bytes().all(|b| b.is_ascii_digit()) {
        return None;
    }
    let mut v: i64 = 0;
    for b in digits.bytes() {
        v = v * 10 + (b - b'0') as i64;
        if v > i32::MAX as i64 {
            return None;
        }
    }
    Some(if neg { -v as i32 } else { v as i32 })
}

pub struct Spec {
    /// None: the property text does not settle how the number is cut out of
    /// the line (a second 'v' after the prefix), version not compared
    pub version: Option<i32>,
    pub log: Vec<(u8, String)>,
}

/// the lines a text consists of: split on LF, nothing after a final LF,
/// trailing white space trimmed
fn text_lines(text: &str) -> Vec<&str> {
    let mut ls: Vec<&str> = text.split('\n').collect();
    if ls.last() == Some(&"") {
        ls.pop();
    }
    ls.into_iter().map(|l| l.trim_end()).collect()
}

pub fn spec(text: &str) -> Spec {
    let ls = text_lines(text);
    let first = ls.iter().position(|l| !blank(l));
    let mut version = Some(LATEST);
    // index of the first line that takes part in section framing
    let mut start = ls.len();
    if let Some(i) = first {
        start = i;
        if let Some(rest) = ls[i].strip_prefix(PREFIX) {
            if rest.contains('v') {
                version = None;
                // with or without a number, a line with the prefix is no header
                start = i + 1;
            } else if let Some(v) = number(rest) {
                version = Some(v);
                start = i + 1;
            }
        }
    }
    let mut log = vec![];
    for i in start..ls.len() {
        let l = ls[i];
        if blank(l) || comment(l) || header(l).is_some() {
            continue;
        }
        // the most recent recognised header before this line
        if let Some(sec) = (start..i).rev().find_map(|j| header(ls[j])) {
            log.push((sec, l.to_string()));
        }
    }
    Spec { version, log }
}

// ---------------------------------------------------------------------------
// files

#[derive(Clone, Copy, PartialEq, Eq, Debug)]
pub enum Enc {
    Utf8Bom,
    Utf16Le,
    Utf16Be,
}

fn encode(text: &str, enc: Enc) -> Vec<u8> {
    match enc {
        Enc::Utf8Bom => {
            let mut v = vec![0xEF, 0xBB, 0xBF];
            v.extend_from_slice(text.as_bytes());
            v
        }
        Enc::Utf16Le => {
            let mut v = vec![0xFF, 0xFE];
            for u in text.encode_utf16() {
                v.extend_from_slice(&u.to_le_bytes());
            }
            v
        }
        Enc::Utf16Be => {
            let mut v = vec![0xFE, 0xFF];
            for u in text.encode_utf16() {
                v.extend_from_slice(&u.to_be_bytes());
            }
            v
        }
    }
}

fn join(lines: &[&str], crlf: bool, final_nl: bool) -> String {
    let eol = if crlf { "\r\n" } else { "\n" };
    let mut s = String::new();
    for (i, l) in lines.iter().enumerate() {
        s.push_str(l);
        if i + 1 < lines.len() || final_nl {
            s.push_str(eol);
        }
    }
    s
}

/// line kinds of the quantifier; (kind name, text)
fn alphabet_full() -> Vec<(&'static str, &'static str)> {
    let mut a: Vec<(&'static str, &'static str)> = vec![
        ("blank", ""),
        ("ws", " "),
        ("ws", "\t"),
        ("ws", "\u{a0}\u{3000}"),
        ("ws", " \r\t"),
        ("comment", "// c"),
        ("comment", "//"),
        ("comment-indented", "  // c"),
        ("comment-indented", "\t//[General]"),
        ("version-good", "osu file format v14"),
        ("version-good", "osu file format v9"),
        ("version-good", "osu file format v 12"),
        ("version-good", "osu file format v+7"),
        ("version-good", "osu file format v-5"),
        ("version-good", "osu file format v2147483647"),
        ("version-bad", "osu file format vX"),
        ("version-bad", "osu file format v"),
        ("version-bad", "osu file format v2147483648"),
        ("version-bad", "osu file format v-2147483648"),
        ("version-suffixed", "osu file format v14 // c"),
        ("version-indented", " osu file format v9"),
        ("version-second-v", "osu file format v1v2"),
    ];
    for h in HEADERS {
        a.push(("header", h));
    }
    a.extend_from_slice(&[
        ("header-unknown", "[Unknown]"),
        ("header-indented", " [General]"),
        ("header-trailing-space", "[General] "),
        ("header-trailing-space", "[HitObjects]\u{3000}\t"),
        ("header-suffixed", "[General]x"),
        ("header-lowercase", "[general]"),
        ("header-variant-name", "[Colors]"),
        ("header-empty", "[]"),
        ("header-half", "[General"),
        ("record-valid", "AudioFilename: a.mp3"),
        ("record-valid", "BeatDivisor: 4"),
        ("record-valid", "Title:t // not a comment"),
        ("record-valid", "CircleSize:4"),
        ("record-valid", "0,0,\"bg.png\",0,0"),
        ("record-valid", "0,500,4,1,0,100,1,0"),
        ("record-valid", "Combo1 : 1,2,3"),
        ("record-valid", "256,192,0,1,0"),
        ("record-valid", "  Mode: 1  "),
        ("record-invalid", "Mode: x!"),
        ("record-invalid", "BeatDivisor: !"),
        ("record-invalid", "NoColon!"),
        ("record-invalid", "2,!"),
        ("record-invalid", "x,500!"),
        ("record-invalid", "Combo1 : !"),
        ("record-invalid", "1,!"),
        // Unicode: NEL / LINE SEPARATOR are White_Space, ZERO WIDTH SPACE and
        // U+FEFF are not; a U+FEFF at the very start of a UTF-8 file is the BOM
        ("ws", "\u{85}\u{2028}"),
        ("record-valid", "\u{200b}"),
        ("record-valid", "Title:\u{4e0a}x\u{2003}"),
        ("header-indented", "\u{feff}[General]"),
    ]);
    a
}

/// the 12-symbol core used for the deepest exhaustive sweep
fn alphabet_core() -> Vec<(&'static str, &'static str)> {
    vec![
        ("blank", ""),
        ("ws", "\u{a0}\t"),
        ("comment", "// c"),
        ("comment-indented", "  //x"),
        ("version-good", "osu file format v9"),
        ("version-bad", "osu file format vX"),
        ("header", "[General]"),
        ("header", "[HitObjects]"),
        ("header-unknown", "[Unknown]"),
        ("header-indented", " [General]"),
        ("record-valid", "a"),
        ("record-invalid", "b!"),
    ]
}

/// the core plus the remaining shapes that change control flow
fn alphabet_mid() -> Vec<(&'static str, &'static str)> {
    let mut a = alphabet_core();
    a.extend_from_slice(&[
        ("version-suffixed", "osu file format v14 // c"),
        ("version-good", "osu file format v 12"),
        ("header", "[Colours]"),
        ("header-suffixed", "[General]x"),
        ("header-lowercase", "[general]"),
        ("header-trailing-space", "[Editor] "),
        ("comment-indented", "\t//[Mania]"),
        ("record-valid", "[x] // y"),
        ("header", "[Mania]"),
        ("version-indented", " osu file format v9"),
        ("ws", "\r"),
        ("record-valid", "  a  "),
    ]);
    a
}

struct Ctx<'a> {
    out: &'a mut Out,
}

impl<'a> Ctx<'a> {
    /// oracle on one text, all encodings that apply; returns the UTF-8 trace
    fn oracle(&mut self, text: &str, what: &str) -> Result<Trace, String> {
        let t = run_impl::<true>(text.as_bytes());
        // "detect the BOM": a leading U+FEFF of a UTF-8 file is not text
        let sp = spec(text.strip_prefix('\u{feff}').unwrap_or(text));
        self.out.oracle_checks += 1;
        match &t {
            Ok((v, log)) => {
                if let Some(sv) = sp.version {
                    if sv != *v {
                        self.out.fail("", &format!("{what} {text:?}"), &format!("version {v}, property text gives {sv}"));
                    }
                } else {
                    self.out.count("oracle:version-not-compared");
                }
                if *log != sp.log {
                    self.out.fail("", &format!("{what} {text:?}"), &format!("lines reached parsers {log:?}, property text gives {:?}", sp.log));
                }
            }
            Err(e) => self.out.fail("", &format!("{what} {text:?}"), e),
        }
        // parser errors do not steer routing
        let t2 = run_impl::<false>(text.as_bytes());
        self.out.oracle_checks += 1;
        if t2 != t {
            self.out.fail("", &format!("{what} {text:?}"), &format!("with failing parsers {t:?}, with succeeding parsers {t2:?}"));
        }
        t
    }

    /// the same text in the other encodings (any content; a text that itself starts with
    /// U+FEFF is a text with BOM and has no BOM-less UTF-8 form to compare with)
    fn encodings(&mut self, text: &str, base: &Result<Trace, String>, record: bool) {
        if text.starts_with('\u{feff}') {
            return;
        }
        for enc in [Enc::Utf8Bom, Enc::Utf16Le, Enc::Utf16Be] {
            let bytes = encode(text, enc);
            let t = run_impl::<true>(&bytes);
            self.out.oracle_checks += 1;
            self.out.count(&format!("enc:{enc:?}"));
            if t != *base {
                self.out.fail("", &format!("{enc:?} {text:?}"), &format!("{t:?} but UTF-8 gives {base:?}"));
            }
            if record {
                let mut c = Line::entry("c05t");
                c.chars(text);
                let nt = matches!(&t, Ok((v, log)) if !log.is_empty() || *v != LATEST);
                self.out.case(c.0, dump(&t), format!("{enc:?} {text:?}"), nt);
            }
        }
    }

    /// correspondence cases for one text (UTF-8): raw lines and whole text
    fn record(&mut self, text: &str, t: &Result<Trace, String>, what: &str) {
        let nt = matches!(t, Ok((v, log)) if !log.is_empty() || *v != LATEST);
        // the model starts after the BOM (byte layer: C10)
        let text = text.strip_prefix('\u{feff}').unwrap_or(text);
        let mut raw: Vec<&str> = text.split('\n').collect();
        if raw.last() == Some(&"") {
            raw.pop();
        }
        let mut c = Line::entry("c05");
        for l in &raw {
            c.s(l);
        }
        self.out.case(c.0, dump(t), format!("{what} lines {text:?}"), nt);
        let mut c = Line::entry("c05t");
        c.chars(text);
        self.out.case(c.0, dump(t), format!("{what} text {text:?}"), nt);
        if let Ok((v, log)) = t {
            self.out.count(if log.is_empty() { "routed:none" } else if log.len() < 4 { "routed:1-3" } else { "routed:4+" });
            self.out.count(if *v == LATEST { "version:latest" } else { "version:other" });
            if log.iter().any(|(_, l)| l.contains('!')) {
                self.out.count("routed:has-rejected-line");
            }
        }
    }

    /// one file given as lines: all four LF/CRLF x final-newline variants go
    /// to the oracle and must agree; one variant (chosen by `k`) is recorded
    fn file(&mut self, lines: &[&str], k: usize, what: &str, record: bool, encs: bool) {
        // without final newline an empty last line is no line at all
        let last_empty = lines.last().map_or(true, |l| l.is_empty());
        let rec_var = if last_empty { (k % 4) | 2 } else { k % 4 };
        let mut base: Option<Result<Trace, String>> = None;
        for var in 0..4 {
            let (crlf, fin) = (var & 1 == 1, var & 2 == 2);
            if !fin && last_empty {
                continue;
            }
            let text = join(lines, crlf, fin);
            let t = self.oracle(&text, what);
            match &base {
                None => base = Some(t.clone()),
                Some(b) => {
                    self.out.oracle_checks += 1;
                    if *b != t {
                        self.out.fail("", &format!("{what} {text:?}"), &format!("{t:?} differs from another line-ending variant of the same lines: {b:?}"));
                    }
                }
            }
            if var == rec_var {
                if record {
                    self.record(&text, &t, what);
                    self.out.count(if crlf { "eol:crlf" } else { "eol:lf" });
                    self.out.count(if fin { "final-newline:yes" } else { "final-newline:no" });
                }
                if encs {
                    self.encodings(&text, &t, record);
                }
            }
        }
    }

    fn sweep(&mut self, alpha: &[(&'static str, &'static str)], maxlen: usize, what: &str, record: bool, enc_every: usize) {
        let n = alpha.len();
        let mut k = 0usize;
        for len in 0..=maxlen {
            let total = n.pow(len as u32);
            for mut idx in 0..total {
                let mut ls: Vec<&str> = Vec::with_capacity(len);
                for _ in 0..len {
                    ls.push(alpha[idx % n].1);
                    idx /= n;
                }
                self.file(&ls, k, what, record, enc_every != 0 && k % enc_every == 0);
                k += 1;
            }
        }
        self.out.count_n(&format!("sweep:{what}:files"), k as u64);
    }

    /// metamorphic checks on one file (lines), LF joined with final newline
    fn metamorphic(&mut self, lines: &[&str], r: &mut Rng) {
        // a U+FEFF at the very start of a UTF-8 file is the BOM, not part of
        // the first line (that reading is exercised by `file`); insertions are
        // made into the text, i.e. after it
        let mut owned: Vec<&str> = lines.to_vec();
        if let Some(f) = owned.first_mut() {
            *f = f.strip_prefix('\u{feff}').unwrap_or(f);
        }
        let lines = &owned[..];
        let text = join(lines, false, true);
        let base = run_impl::<true>(text.as_bytes());
        let first_nonblank = lines.iter().position(|l| !l.trim_end().is_empty());
        // blank / white-space-only line anywhere
        let blanks = ["", " ", "\t", "\u{a0}", "\u{3000} ", "\r", " \r"];
        let p = r.below(lines.len() + 1);
        let mut v = lines.to_vec();
        v.insert(p, *r.pick(&blanks));
        let t = run_impl::<true>(join(&v, r.chance(1, 2), true).as_bytes());
        self.out.oracle_checks += 1;
        self.out.count("meta:blank-inserted");
        if t != base {
            self.out.fail("", &format!("{:?}", join(&v, false, true)), &format!("blank line inserted at {p}: {t:?}, without it {base:?}"));
        }
        // comment line anywhere after the first non-blank line
        if let Some(f) = first_nonblank {
            let comments = ["//", "// c", "  // c", "\t//[General]", "//[Editor]", "// osu file format v3", "\u{3000}//x"];
            let p = f + 1 + r.below(lines.len() - f);
            let mut v = lines.to_vec();
            v.insert(p, *r.pick(&comments));
            let t = run_impl::<true>(join(&v, false, true).as_bytes());
            self.out.oracle_checks += 1;
            self.out.count("meta:comment-inserted");
            if t != base {
                self.out.fail("", &format!("{:?}", join(&v, false, true)), &format!("comment inserted at {p}: {t:?}, without it {base:?}"));
            }
            // an unrecognised bracketed line is data: it shows up at most once,
            // addressed to some parser, and everything else is unchanged
            let unknowns = ["[Unknown#]", "[general#]", " [General]#", "[General]#", "[#", "[HitObjects] #"];
            let u = *r.pick(&unknowns);
            let p = f + 1 + r.below(lines.len() - f);
            let mut v = lines.to_vec();
            v.insert(p, u);
            let t = run_impl::<true>(join(&v, false, true).as_bytes());
            self.out.oracle_checks += 1;
            self.out.count("meta:unknown-bracket-inserted");
            if let (Ok((bv, blog)), Ok((tv, tlog))) = (&base, &t) {
                let rest: Vec<(u8, String)> = tlog.iter().filter(|(_, l)| l != u).cloned().collect();
                let hits = tlog.len() - rest.len();
                // was a section open at p?  (would a record line put there reach a parser)
                let mut probe = v[..p].to_vec();
                probe.push("#probe#");
                let open = spec(&join(&probe, false, true)).log.iter().any(|(_, l)| l == "#probe#");
                if bv != tv || rest != *blog || hits != open as usize {
                    self.out.fail("", &format!("{:?}", join(&v, false, true)), &format!("unrecognised line {u:?} inserted at {p}: {t:?}, without it {base:?} (section open: {open})"));
                }
            } else {
                self.out.fail("", &format!("{:?}", join(&v, false, true)), &format!("{t:?} / {base:?}"));
            }
        }
    }
}

fn weighted_file<'a>(r: &mut Rng, full: &[(&'static str, &'a str)], len: usize, valid: bool) -> Vec<&'a str> {
    let pick_kind = |r: &mut Rng, kinds: &[&str]| -> &'a str {
        let c: Vec<&'a str> = full.iter().filter(|(k, _)| kinds.iter().any(|x| k.starts_with(x))).map(|(_, t)| *t).collect();
        *r.pick(&c)
    };
    let mut v: Vec<&'a str> = vec![];
    if valid {
        // mostly well-formed: optional blanks, a version line, then sections
        while r.chance(1, 5) {
            v.push(pick_kind(r, &["blank", "ws"]));
        }
        if r.chance(5, 6) {
            v.push(pick_kind(r, &["version-good"]));
        }
        while v.len() < len {
            let x = r.below(100);
            v.push(if x < 18 {
                pick_kind(r, &["header"])
            } else if x < 24 {
                pick_kind(r, &["header-"])
            } else if x < 36 {
                pick_kind(r, &["blank", "ws"])
            } else if x < 46 {
                pick_kind(r, &["comment"])
            } else if x < 50 {
                pick_kind(r, &["version"])
            } else if x < 88 {
                pick_kind(r, &["record-valid"])
            } else {
                pick_kind(r, &["record-invalid"])
            });
        }
    } else {
        for _ in 0..len {
            v.push(r.pick(full).1);
        }
    }
    v
}

fn real_decoder_routing(out: &mut Out) {
    use rosu_map::section::{
        colors::Colors, difficulty::Difficulty, editor::Editor, events::Events, general::General, hit_objects::HitObjects,
        metadata::Metadata, timing_points::TimingPoints,
    };
    use rosu_map::Beatmap;
    let decos = ["", " ", "  ", "_", "__", "\t", " \t", "\u{3000}", "\u{a0}", "_ ", " _"];
    let tails = ["", " ", "\t", "  // c"];
    for d in decos {
        for tl in tails {
            out.count("real_decoders.decorated_record");
            let mk = |sec: &str, rec: &str| format!("osu file format v14\n\n[{sec}]\n{d}{rec}{tl}\n");
            let chk = |out: &mut Out, what: &str, text: &str, got: String, want: String| {
                out.oracle_checks += 1;
                if got != want {
                    out.fail("", &format!("{what} {text:?}"), &format!("decoded {got}, the section parser on that line gives {want}"));
                }
            };
            // Metadata
            let line = format!("{d}Title: x y{tl}");
            let mut st = Metadata::default();
            let _ = Metadata::parse_metadata(&mut st, &line);
            let text = mk("Metadata", "Title: x y");
            if let Ok(Ok(m)) = guarded(|| rosu_map::from_str::<Beatmap>(&text)) {
                chk(out, "Beatmap", &text, format!("{:?}", m.title), format!("{:?}", st.title));
            }
            if let Ok(Ok(m)) = guarded(|| rosu_map::from_str::<Metadata>(&text)) {
                chk(out, "Metadata", &text, format!("{:?}", m.title), format!("{:?}", st.title));
            }
            // General
            let line = format!("{d}Mode: 2{tl}");
            let mut st = General::default();
            let _ = General::parse_general(&mut st, &line);
            let text = mk("General", "Mode: 2");
            if let Ok(Ok(m)) = guarded(|| rosu_map::from_str::<Beatmap>(&text)) {
                chk(out, "Beatmap", &text, format!("{:?}", m.mode), format!("{:?}", st.mode));
            }
            if let Ok(Ok(m)) = guarded(|| rosu_map::from_str::<General>(&text)) {
                chk(out, "General", &text, format!("{:?}", m.mode), format!("{:?}", st.mode));
            }
            // Editor
            let line = format!("{d}GridSize: 16{tl}");
            let mut st = Editor::default();
            let _ = Editor::parse_editor(&mut st, &line);
            let text = mk("Editor", "GridSize: 16");
            if let Ok(Ok(m)) = guarded(|| rosu_map::from_str::<Beatmap>(&text)) {
                chk(out, "Beatmap", &text, format!("{:?}", m.grid_size), format!("{:?}", st.grid_size));
            }
            if let Ok(Ok(m)) = guarded(|| rosu_map::from_str::<Editor>(&text)) {
                chk(out, "Editor", &text, format!("{:?}", m.grid_size), format!("{:?}", st.grid_size));
            }
            // Difficulty
            let line = format!("{d}CircleSize: 3{tl}");
            let mut st = <rosu_map::section::difficulty::DifficultyState as DecodeState>::create(14);
            let _ = Difficulty::parse_difficulty(&mut st, &line);
            let st = st.difficulty;
            let text = mk("Difficulty", "CircleSize: 3");
            if let Ok(Ok(m)) = guarded(|| rosu_map::from_str::<Beatmap>(&text)) {
                chk(out, "Beatmap", &text, format!("{:?}", m.circle_size), format!("{:?}", st.circle_size));
            }
            if let Ok(Ok(m)) = guarded(|| rosu_map::from_str::<Difficulty>(&text)) {
                chk(out, "Difficulty", &text, format!("{:?}", m.circle_size), format!("{:?}", st.circle_size));
            }
            // Colours
            let line = format!("{d}Combo1 : 1,2,3{tl}");
            let mut st = Colors::default();
            let _ = Colors::parse_colors(&mut st, &line);
            let text = mk("Colours", "Combo1 : 1,2,3");
            if let Ok(Ok(m)) = guarded(|| rosu_map::from_str::<Beatmap>(&text)) {
                chk(out, "Beatmap", &text, format!("{:?}", m.custom_combo_colors), format!("{:?}", st.custom_combo_colors));
            }
            if let Ok(Ok(m)) = guarded(|| rosu_map::from_str::<Colors>(&text)) {
                chk(out, "Colors", &text, format!("{:?}", m.custom_combo_colors), format!("{:?}", st.custom_combo_colors));
            }
            // Events, TimingPoints, HitObjects: whether the record arrived (through the result)
            let text = mk("Events", "0,0,\"bg.jpg\",0,0");
            let line = format!("{d}0,0,\"bg.jpg\",0,0{tl}");
            let mut st = Events::default();
            let _ = Events::parse_events(&mut st, &line);
            if let Ok(Ok(m)) = guarded(|| rosu_map::from_str::<Beatmap>(&text)) {
                chk(out, "Beatmap", &text, format!("{:?}", m.background_file), format!("{:?}", st.background_file));
            }
            if let Ok(Ok(m)) = guarded(|| rosu_map::from_str::<Events>(&text)) {
                chk(out, "Events", &text, format!("{:?}", m.background_file), format!("{:?}", st.background_file));
            }
            let text = mk("TimingPoints", "100,300,4,1,0,50,1,0");
            let plain = "osu file format v14\n\n[TimingPoints]\n";
            let want_tp = {
                let undecorated_ok = rosu_map::from_str::<TimingPoints>(&mk("TimingPoints", "100,300,4,1,0,50,1,0").replace(d, "")).map(|m| m.control_points.timing_points.len()).unwrap_or(0);
                let _ = plain;
                undecorated_ok
            };
            // the number parser trims the first field, so the decorated line is accepted iff the
            // decoration is white space the parser trims; `_` is not
            let accepted = !d.contains('_');
            let want = if accepted { want_tp } else { 0 };
            if let Ok(Ok(m)) = guarded(|| rosu_map::from_str::<Beatmap>(&text)) {
                chk(out, "Beatmap", &text, format!("{}", m.control_points.timing_points.len()), format!("{want}"));
            }
            if let Ok(Ok(m)) = guarded(|| rosu_map::from_str::<TimingPoints>(&text)) {
                chk(out, "TimingPoints", &text, format!("{}", m.control_points.timing_points.len()), format!("{want}"));
            }
            let text = mk("HitObjects", "256,192,1000,1,0,0:0:0:0:");
            let want = if accepted { 1 } else { 0 };
            if let Ok(Ok(m)) = guarded(|| rosu_map::from_str::<Beatmap>(&text)) {
                chk(out, "Beatmap", &text, format!("{}", m.hit_objects.len()), format!("{want}"));
            }
            if let Ok(Ok(m)) = guarded(|| rosu_map::from_str::<HitObjects>(&text)) {
                chk(out, "HitObjects", &text, format!("{}", m.hit_objects.len()), format!("{want}"));
            }
        }
    }
}

pub fn generate(tier: &str, seed: u64, out: &mut Out) {
    let thorough = tier == "thorough";
    let mut r = Rng::new(seed ^ 0xC05);
    let full = alphabet_full();
    let core = alphabet_core();
    let mid = alphabet_mid();
    for (k, _) in &full {
        out.count(&format!("alphabet:{k}"));
    }
    let mut cx = Ctx { out };

    // corpus: the recorded interpretation and the boundary cases first
    let corpus: Vec<Vec<&str>> = vec![
        vec!["// c", "osu file format v9", "[General]", "a"],
        vec!["osu file format v9", "// c", "[General]", "a"],
        vec!["[General]", "a"],
        vec!["osu file format vX", "[General]", "a"],
        vec!["[Unknown]", "osu file format v9", "[General]", "a"],
        vec!["", "", "osu file format v9", "x", "[General]", "a", "[Unknown]", "b", " [Editor]", "c", "[Editor]", "d", "[General]", "e!"],
        vec!["osu file format v14 // c", "[HitObjects]", "1,2"],
        vec!["[HitObjects] ", "1,2", "\t", "[Colours]\r", "Combo1 : 1,2,3"],
        vec![],
        vec![""],
        vec!["a"],
    ];
    for f in &corpus {
        for var in 0..4 {
            cx.file(f, var, "corpus", true, true);
        }
    }

    // exhaustive sweeps
    if thorough {
        cx.sweep(&core, 5, "core12", true, 37);
        cx.sweep(&full, 3, "full", true, 11);
        cx.sweep(&mid, 5, "mid24", false, 0);
    } else {
        cx.sweep(&core, 4, "core12", true, 5);
        cx.sweep(&full, 2, "full", true, 7);
        cx.sweep(&mid, 4, "mid24", false, 0);
    }

    // random, beyond the exhaustive bound: mostly-valid and malformed streams
    let n_rand = if thorough { 20000 } else { 3000 };
    for k in 0..n_rand {
        let valid = k % 4 != 3;
        let len = if r.chance(1, 3) { 4 + r.below(8) } else { 6 + r.below(35) };
        let f = weighted_file(&mut r, &full, len, valid);
        cx.out.count(if valid { "random:mostly-valid" } else { "random:malformed" });
        cx.out.count(if len <= 10 { "random:len<=10" } else if len <= 25 { "random:len<=25" } else { "random:len<=40" });
        cx.file(&f, r.below(4), if valid { "random-valid" } else { "random-malformed" }, true, k % 3 == 0);
        cx.metamorphic(&f, &mut r);
    }
    // the REAL decoders (which may override the skip rule): a record in front of which a line
    // decoration is written must have, through `from_str::<T>`, exactly the effect the public
    // parse function of its section has on that very line
    real_decoder_routing(cx.out);
    // metamorphic checks over short exhaustive files as well
    let n = core.len();
    let mlen = if thorough { 4 } else { 3 };
    for len in 1..=mlen {
        for mut idx in 0..n.pow(len as u32) {
            let mut ls = vec![];
            for _ in 0..len {
                ls.push(core[idx % n].1);
                idx /= n;
            }
            cx.metamorphic(&ls, &mut r);
        }
    }
}

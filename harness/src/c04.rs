//! C04: the encoder only emits text that its own decoder accepts.
//!
//! This module also hosts what the three encoder properties (C04, C03, C02)
//! share: the file generators, the implementation run for the `enc` model
//! entry (text -> decode -> encode -> text) and small helpers.
//!
//! The C04 oracle is written from the property text and never looks at the
//! Coq model: every line of `encode_to_string()` is classified with the
//! crate's own public `Section::try_from_line`, `should_skip_line` and
//! `Beatmap::parse_<section>` functions.
use crate::gen_osu::{self, Opts};
use crate::out::Out;
use crate::proto::Line;
use crate::render::MARK;
use crate::rng::Rng;
use crate::util::{bundled_maps, guarded};
use rosu_map::section::hit_objects::hit_samples::HitSampleInfoName;
use rosu_map::section::hit_objects::{HitObject, HitObjectKind};
use rosu_map::section::Section;
use rosu_map::{Beatmap, BeatmapState, DecodeBeatmap, DecodeState};

pub const RULE: &str = "whole .osu files (structured generator levels 0-2 in all four modes, chronological and not; an object-centred generator with every object kind in every mode, hostile sample extras, negative/over-range custom banks and volumes, >20 equal start times, multi-segment slider paths incl. trailing typed points; bundled maps and mutations of them) decoded with the real crate and re-encoded; correspondence: extracted decode+encode model (token stream rendered with Rust's Display) vs encode_to_string, byte for byte, on slider-free and slider files (curve and slider-event models connected; sliders with more than 60 repeats only in the oracle streams); oracle: version line, eight headers once and in order, every body line accepted by its section parser on an accumulating state, recognised key, not a header, not skipped, hit-object lines read as the same kind and start time, record counts and the fields of the six simple sections preserved on re-decode; non-trivial = the decoded map has at least one hit object and one timing point; distinct = distinct texts";

/// `DrvEnc.v` is connected to the curve and slider-event models: files with
/// sliders are correspondence cases as well (`false` = slider-free files only).
pub const SLIDERS_IN_MODEL: bool = true;

pub const HEADERS: [&str; 8] =
    ["[General]", "[Editor]", "[Metadata]", "[Difficulty]", "[Events]", "[TimingPoints]", "[Colours]", "[HitObjects]"];

// ---------------------------------------------------------------------------
// implementation run
// ---------------------------------------------------------------------------

pub fn decode(text: &str) -> Option<Beatmap> {
    match guarded(|| rosu_map::from_bytes::<Beatmap>(text.as_bytes())) {
        Ok(Ok(m)) => Some(m),
        _ => None,
    }
}

pub fn encode(map: &mut Beatmap) -> Result<String, String> {
    match guarded(|| map.encode_to_string()) {
        Ok(Ok(s)) => Ok(s),
        Ok(Err(e)) => Err(format!("io:{:?}", e.kind())),
        Err(p) => Err(format!("panic:{}", p)),
    }
}

pub fn has_slider(map: &Beatmap) -> bool {
    map.hit_objects.iter().any(|h| matches!(h.kind, HitObjectKind::Slider(_)))
}

/// result line of the implementation for the `enc` entry
pub fn enc_result(text: &str) -> String {
    match decode(text) {
        None => "<decode failed>".to_string(),
        Some(mut m) => match encode(&mut m) {
            Ok(s) => {
                let mut l = Line::new();
                l.i(MARK).s(&s);
                l.0
            }
            Err(e) => format!("<{}>", e),
        },
    }
}

/// one correspondence case for the `enc` entry (only texts the model covers)
pub fn enc_case(text: &str, origin: &str, out: &mut Out) {
    let Some(m) = decode(text) else { return };
    let sl = has_slider(&m);
    out.count(if sl { "enc.with_sliders" } else { "enc.slider_free" });
    if sl && !SLIDERS_IN_MODEL {
        return;
    }
    // the extracted slider-event model walks every span of every slider with list
    // operations: sliders with thousands of repeats cost minutes there (milliseconds in
    // the crate).  They stay in the oracle streams; as model cases they are capped.
    let heavy = m.hit_objects.iter().any(|h| match &h.kind {
        HitObjectKind::Slider(s) => s.repeat_count > 60,
        _ => false,
    });
    if heavy {
        out.count("enc.skipped_many_repeats");
        return;
    }
    let mut case = Line::entry("enc");
    case.chars(text);
    let nontrivial = !m.hit_objects.is_empty() && !m.control_points.timing_points.is_empty();
    out.count(&format!("enc.mode{}", m.mode as i32));
    out.case(case.0, enc_result(text), format!("{} text={:?}", origin, text), nontrivial);
}

// ---------------------------------------------------------------------------
// generators
// ---------------------------------------------------------------------------

fn is_slider_line(l: &str) -> bool {
    let f: Vec<&str> = l.split(',').collect();
    if f.len() < 6 {
        return false;
    }
    match f[3].trim().parse::<i64>() {
        Ok(t) => t & 1 == 0 && t & 2 != 0,
        Err(_) => false,
    }
}

pub fn sample_extras(r: &mut Rng, level: u8) -> String {
    if level >= 1 && r.chance(1, 8) {
        return r
            .pick(&["", "0:0", "1:2:3", "0:0:0:0", "1:2:3:40:file.wav", "3:3:2:100:", "0:0:0:0:a:b", "2:1:-3:50:", "0:3:7:0:x.ogg", "1:1:2147483647:101:"])
            .to_string();
    }
    let nb = r.below(4);
    let ab = r.below(4);
    let custom = *r.pick(&[0i64, 0, 0, 1, 2, 3, -1, -2, 15]);
    let vol = *r.pick(&[0i64, 0, 100, 50, 1, 99, 101, -5, 70]);
    let file = *r.pick(&["", "", "", "hit.wav", "a b.ogg", "normal-hitnormal.wav", "日本.wav"]);
    if level >= 1 && r.chance(1, 40) {
        // text after the file name: a sixth `:` piece or one more `,` field (a name that ends in
        // white space then keeps it: class D30)
        let name = *r.pick(&["hit.wav", "hit.wav ", "s.ogg\t", " ", "a b.ogg", " lead.wav"]);
        let tail = *r.pick(&[":x", ",x", ":", ",", ":0:0", ",0:0:0:0:"]);
        return format!("{nb}:{ab}:{custom}:{vol}:{name}{tail}");
    }
    match r.below(5) {
        0 => format!("{nb}:{ab}"),
        1 => format!("{nb}:{ab}:{custom}"),
        2 => format!("{nb}:{ab}:{custom}:{vol}"),
        _ => format!("{nb}:{ab}:{custom}:{vol}:{file}"),
    }
}

/// slider path with an emphasis on multi-segment shapes
pub fn slider_path(r: &mut Rng, level: u8, x: i64, y: i64) -> String {
    if r.chance(1, 3) {
        return gen_osu::path(r, level, x, y);
    }
    let nseg = *r.pick(&[1, 1, 2, 2, 3, 4]);
    let mut toks: Vec<String> = vec![];
    let (mut cx, mut cy) = (x, y);
    for s in 0..nseg {
        let letter = *r.pick(&["B", "B", "B2", "B3", "B4", "L", "P", "C", "L", "C"]);
        toks.push(letter.to_string());
        let npts = if s == nseg - 1 && r.chance(1, 3) {
            // a trailing segment with a single point (its control point is typed and last)
            if nseg > 1 { 1 } else { r.range(1, 2) }
        } else if letter == "P" {
            if r.chance(3, 4) { 2 } else { r.range(1, 4) }
        } else {
            r.range(1, 5)
        };
        for k in 0..npts {
            if k > 0 && r.chance(1, 6) {
                // repeated point: the legacy segment split
            } else if r.chance(1, 12) {
                // first point on the slider's own position
                cx = x;
                cy = y;
            } else {
                cx += r.range(-100, 100);
                cy += r.range(-80, 80);
            }
            toks.push(format!("{cx}:{cy}"));
        }
    }
    toks.join("|")
}

/// timing-point lines with same-time groups, every bank / custom / volume class
pub fn timing_lines(r: &mut Rng, level: u8, chronological: bool, last_time: f64, out: &mut Vec<String>) {
    let n = r.range(1, 9) as usize;
    let mut t = if r.chance(1, 4) { -(r.range(0, 500) as f64) } else { r.range(0, 2000) as f64 };
    for i in 0..n {
        let timing = i == 0 || r.chance(1, 3);
        let bl = if timing {
            format!("{}", *r.pick(&[500.0, 333.33, 375.0, 461.538461538462, 1000.0, 6.0, 60000.0, 0.5, 1e7]))
        } else {
            r.pick(&["-100", "-50", "-200", "-133.333333333333", "-66.6666666666667", "-80", "-1000", "-10", "-10000", "-5", "-1", "-100000", "NaN", "-1e-5"]).to_string()
        };
        let tt = if level >= 1 && r.chance(1, 12) { gen_osu::float(r, level, -1000.0, last_time) } else { format!("{}", t) };
        let sig = r.pick(&["4", "3", "7", "0", "1", "12"]).to_string();
        let bank = r.pick(&["0", "1", "2", "3", "4", "-1"]).to_string();
        let custom = r.pick(&["0", "0", "1", "2", "3", "-1", "-3", "100"]).to_string();
        let vol = r.pick(&["100", "0", "50", "5", "101", "-5", "70"]).to_string();
        let fx = r.pick(&["0", "1", "8", "9", "3"]).to_string();
        let fields = [tt, bl, sig, bank, custom, vol, if timing { "1".into() } else { "0".into() }, fx];
        let keep = if level >= 1 && r.chance(1, 6) { r.range(2, 8) as usize } else { 8 };
        out.push(fields[..keep].join(","));
        if r.chance(1, 4) {
            // next line shares the time
        } else if chronological || r.chance(4, 5) {
            t += r.range(1, 20) as f64 * 250.0 * if r.chance(1, 5) { 0.37 } else { 1.0 };
        } else {
            t -= r.range(1, 2000) as f64;
        }
        if t > last_time {
            t = last_time;
        }
    }
}

/// hit-object lines: every kind in every mode
pub fn object_lines(r: &mut Rng, level: u8, chronological: bool, sliders: bool, max: usize, out: &mut Vec<String>) -> f64 {
    let n = r.range(0, max as i64) as usize;
    let mut t = r.range(0, 3000) as f64;
    let burst = r.chance(1, 12);
    let n = if burst { n + 24 } else { n };
    for k in 0..n {
        let x = r.range(0, 512);
        let y = r.range(0, 384);
        let sound = r.pick(&["0", "2", "4", "8", "6", "12", "14", "1", "15", "10"]).to_string();
        let nc = if r.chance(1, 4) { 4 } else { 0 };
        let off = if r.chance(1, 6) { (r.range(1, 7) as i64) << 4 } else { 0 };
        let ts = if level >= 1 && r.chance(1, 15) { gen_osu::float(r, level, -1000.0, 100000.0) } else { format!("{}", t) };
        let kind = loop {
            let k = r.below(4);
            if k != 1 || sliders {
                break k;
            }
        };
        match kind {
            0 => out.push(format!("{x},{y},{ts},{},{sound},{}", 1 + nc + off, sample_extras(r, level))),
            1 => {
                let reps = *r.pick(&[1i64, 1, 2, 3, 4]);
                let len = if r.chance(1, 8) { "0".to_string() } else { format!("{}", (r.unit() * 400.0 + 20.0).round()) };
                let mut line = format!("{x},{y},{ts},{},{sound},{},{reps},{len}", 2 + nc + off, slider_path(r, level, x, y));
                if r.chance(2, 3) {
                    let nodes = reps + if r.chance(1, 5) { 0 } else { 1 };
                    let es: Vec<String> = (0..nodes).map(|_| r.pick(&["0", "2", "4", "8", "10", "14"]).to_string()).collect();
                    let ss: Vec<String> = (0..nodes).map(|_| format!("{}:{}", r.below(4), r.below(4))).collect();
                    line += &format!(",{},{}", es.join("|"), ss.join("|"));
                    if r.chance(2, 3) {
                        line += &format!(",{}", sample_extras(r, level));
                    }
                }
                out.push(line);
            }
            2 => {
                let end = t + r.range(-100, 3000) as f64;
                out.push(format!("256,192,{ts},{},{sound},{end},{}", 8 + nc, sample_extras(r, level)));
                if end > t {
                    t = end;
                }
            }
            _ => {
                let end = t + r.range(-50, 2000) as f64;
                if r.chance(1, 10) {
                    out.push(format!("{x},192,{ts},128,{sound}"));
                } else {
                    out.push(format!("{x},192,{ts},128,{sound},{end}:{}", sample_extras(r, level)));
                }
            }
        }
        if burst && k < 24 {
            // > 20 equal start times: the stable sort must keep the file order
        } else if r.chance(1, 6) {
            // equal start times
        } else if chronological || r.chance(5, 6) {
            t += r.range(1, 12) as f64 * 125.0;
        } else {
            t -= r.range(1, 3000) as f64;
        }
    }
    t
}

/// object-centred file: all sections, the given mode
pub fn objects_file(r: &mut Rng, level: u8, mode: u8, chronological: bool, sliders: bool) -> String {
    let o = Opts { level, mode: Some(mode), chronological, max_objects: 10, max_timing: 8 };
    let mut lines: Vec<String> = vec![];
    let v = if r.chance(2, 3) { 14 } else { r.range(3, 20) };
    lines.push(format!("osu file format v{v}"));
    lines.push(String::new());
    let mut ho = vec![];
    let last = object_lines(r, level, chronological, sliders, 10, &mut ho).max(1000.0);
    lines.push("[General]".into());
    gen_osu::general(r, &o, mode, &mut lines);
    if level >= 1 && r.chance(1, 5) {
        // path separators: `\` is normalised to `/` by the decoder (last record wins)
        lines.push(format!("AudioFilename: {}", *r.pick(&["dir\\sub\\a.mp3", "a\\\\b.mp3", "dir\\/a.mp3", "x/\\y.ogg", "a/b/c.mp3", "\\\\server\\a.mp3"])));
    }
    lines.push(String::new());
    lines.push("[Editor]".into());
    gen_osu::editor(r, &o, &mut lines);
    lines.push(String::new());
    lines.push("[Metadata]".into());
    gen_osu::metadata(r, &o, &mut lines);
    lines.push(String::new());
    lines.push("[Difficulty]".into());
    gen_osu::difficulty(r, &o, &mut lines);
    lines.push(String::new());
    lines.push("[Events]".into());
    gen_osu::events(r, &o, last, &mut lines);
    if level >= 1 && r.chance(1, 5) {
        lines.push(format!("0,0,\"{}\",0,0", *r.pick(&["dir\\bg.jpg", "dir\\\\bg.jpg", "dir\\/bg.jpg", "a/\\b.png", "\\\\\\\\x.png", " spaced .jpg"])));
    }
    lines.push(String::new());
    lines.push("[TimingPoints]".into());
    timing_lines(r, level, chronological, last, &mut lines);
    lines.push(String::new());
    lines.push("[Colours]".into());
    gen_osu::colours(r, &o, &mut lines);
    lines.push(String::new());
    lines.push("[HitObjects]".into());
    lines.extend(ho);
    lines.join("\n") + "\n"
}

/// The file streams shared by C04 / C03 / C02.  `f(text, origin)`.
/// `sliders = false`: no slider lines at all (the stream the `enc` model entry
/// covers before the curve model is connected).
pub fn texts(tier: &str, seed: u64, sliders: bool, chrono_only: bool, mut f: impl FnMut(&str, &str)) {
    let mut r = Rng::new(seed ^ 0xE4C0 ^ if sliders { 0x51 } else { 0 });
    let n = if tier == "thorough" { 2400 } else { 200 };
    for i in 0..n {
        let level = (i % 3) as u8;
        let mode = ((i / 3) % 4) as u8;
        let chronological = chrono_only || i % 4 != 3;
        if i % 2 == 0 {
            let o = Opts { level, mode: Some(mode), chronological, max_objects: 10, max_timing: 8 };
            let mut lines = gen_osu::file_lines(&mut r, &o);
            if !sliders {
                lines.retain(|l| !is_slider_line(l));
            }
            f(&(lines.join("\n") + "\n"), &format!("grammar-level{} mode{}", level, mode));
        } else {
            let t = objects_file(&mut r, level, mode, chronological, sliders);
            f(&t, &format!("objects-level{} mode{}", level, mode));
        }
    }
}

/// bundled maps as text (valid UTF-8 without BOM only) and line-level mutations of them
pub fn bundled_texts(tier: &str, seed: u64, mut f: impl FnMut(&str, &str)) {
    let mut r = Rng::new(seed ^ 0xB0D1);
    let maps = bundled_maps();
    let big = if tier == "thorough" { usize::MAX } else { 60_000 };
    for (name, b) in maps.iter() {
        if b.len() > big {
            continue;
        }
        let Ok(t) = std::str::from_utf8(b) else { continue };
        let t = t.strip_prefix('\u{feff}').unwrap_or(t);
        f(t, &format!("bundled {}", name));
        let reps = if tier == "thorough" { 6 } else { 1 };
        for _ in 0..reps {
            let m = gen_osu::mutate(&mut r, t.as_bytes());
            if let Ok(mt) = std::str::from_utf8(&m) {
                if !mt.starts_with('\u{feff}') {
                    f(mt, &format!("mutated {}", name));
                }
            }
        }
    }
}

// ---------------------------------------------------------------------------
// the C04 oracle
// ---------------------------------------------------------------------------

fn kind_tag(h: &HitObject) -> u8 {
    match h.kind {
        HitObjectKind::Circle(_) => 0,
        HitObjectKind::Slider(_) => 1,
        HitObjectKind::Spinner(_) => 2,
        HitObjectKind::Hold(_) => 3,
    }
}

/// D21: no explicit length and a computed curve longer than the decoder's length limit
pub fn d18_object(h: &HitObject) -> bool {
    match &h.kind {
        HitObjectKind::Slider(s) => {
            if s.path.expected_dist().is_some() {
                return false;
            }
            let mut p = s.path.clone();
            let d = p.curve().dist();
            !(d.abs() <= 131072.0)
        }
        _ => false,
    }
}

/// D26: spinner / hold whose end time `start + duration`, as the encoder computes it, is
/// outside the parse limits
pub fn d26_object(h: &HitObject) -> bool {
    let end = match &h.kind {
        HitObjectKind::Spinner(s) => h.start_time + s.duration,
        HitObjectKind::Hold(s) => h.start_time + s.duration,
        _ => return false,
    };
    !(end.abs() <= 2147483647.0)
}

/// D30: a sample file name that ends in white space (the encoder writes the name at the end
/// of the line, where the decoder trims it)
pub fn d30_object(h: &HitObject) -> bool {
    h.samples.iter().any(|s| matches!(&s.name, HitSampleInfoName::File(f) if f.ends_with(char::is_whitespace)))
}

fn sample_names(h: &HitObject) -> Vec<String> {
    h.samples
        .iter()
        .map(|s| match &s.name {
            HitSampleInfoName::Default(d) => d.to_lowercase_str().to_string(),
            HitSampleInfoName::File(f) => format!("file:{:?}", f),
        })
        .collect()
}

pub fn lost_class(h: &HitObject) -> &'static str {
    if d18_object(h) {
        "D21"
    } else if d26_object(h) {
        "D26"
    } else {
        ""
    }
}

/// D32: slider whose end time `start + duration` is outside the parse limits (the sample points
/// collected at its node times are written as timing lines with such times)
pub fn d32_object(h: &HitObject) -> bool {
    match &h.kind {
        HitObjectKind::Slider(s) => {
            let mut s = s.clone();
            let end = h.start_time + s.duration();
            !(end.abs() <= 2147483647.0)
        }
        _ => false,
    }
}

/// D26 / D32 for [TimingPoints] lines: the line of the sample point collected at such an end time
fn d26_timing_line(map: &Beatmap, line: &str) -> &'static str {
    let t = line.split(',').next().and_then(|f| f.trim().parse::<f64>().ok());
    match t {
        Some(t) if !(t.abs() <= 2147483647.0) && map.hit_objects.iter().any(d26_object) => "D26",
        Some(t) if !(t.abs() <= 2147483647.0) && map.hit_objects.iter().any(d32_object) => "D32",
        _ => "",
    }
}

fn key_known(section: usize, line: &str) -> bool {
    use rosu_map::section::{difficulty::DifficultyKey, editor::EditorKey, general::GeneralKey, metadata::MetadataKey};
    let key = line.split_once(':').map_or(line, |(k, _)| k).trim();
    match section {
        0 => key.parse::<GeneralKey>().is_ok(),
        1 => key.parse::<EditorKey>().is_ok(),
        2 => key.parse::<MetadataKey>().is_ok(),
        3 => key.parse::<DifficultyKey>().is_ok(),
        _ => true,
    }
}

/// Runs the C04 checks on `map` (obtained by decoding `input`).  Returns the encoded text.
pub fn oracle(map: &mut Beatmap, input: &str, origin: &str, out: &mut Out) -> Option<String> {
    let desc = format!("{} text={:?}", origin, input);
    out.oracle_checks += 1;
    let enc = match encode(map) {
        Ok(s) => s,
        Err(e) => {
            out.fail("", &desc, &format!("encoding a decoded map failed: {}", e));
            return None;
        }
    };
    // the lines as the decoder's reader delivers them
    let mut lines: Vec<&str> = enc.split('\n').collect();
    if lines.last() == Some(&"") {
        lines.pop();
    }
    let lines: Vec<&str> = lines.into_iter().map(|l| l.trim_end()).collect();
    // 1. version line first
    let first = lines.first().copied().unwrap_or("");
    match first.strip_prefix("osu file format v") {
        Some(v) if v.parse::<i32>().ok() == Some(map.format_version) => {}
        _ => out.fail("", &desc, &format!("first line of the encoding is not the format-version line of the map: {:?}", first)),
    }
    // 2. headers: exactly once each, canonical order; found with the decoder's own recogniser
    let mut header_at: Vec<(usize, Section)> = vec![];
    for (i, l) in lines.iter().enumerate() {
        if let Some(s) = Section::try_from_line(l) {
            header_at.push((i, s));
        }
    }
    let expect = [
        Section::General,
        Section::Editor,
        Section::Metadata,
        Section::Difficulty,
        Section::Events,
        Section::TimingPoints,
        Section::Colors,
        Section::HitObjects,
    ];
    let got: Vec<Section> = header_at.iter().map(|x| x.1).collect();
    if got != expect {
        // which body line is read as a header?
        let bad: Vec<&str> = header_at.iter().map(|x| lines[x.0]).filter(|l| !HEADERS.contains(l)).collect();
        out.fail("", &desc, &format!("section headers of the encoding are not the eight canonical ones once each in order: {:?} (lines read as headers: {:?})", got, bad));
        return Some(enc);
    }
    for (k, (i, _)) in header_at.iter().enumerate() {
        if lines[*i] != HEADERS[k] {
            out.fail("", &desc, &format!("header line {:?} instead of {:?}", lines[*i], HEADERS[k]));
        }
    }
    // between the version line and the first header there is nothing but blank lines
    for l in &lines[1..header_at[0].0] {
        if !l.is_empty() {
            out.fail("", &desc, &format!("text before the first header: {:?}", l));
        }
    }
    // 3. every non-blank body line is accepted by its section's parser
    let mut state = BeatmapState::create(map.format_version);
    let mut body_counts = [0usize; 8];
    let mut timing_flag_lines = 0usize;
    for k in 0..8 {
        let from = header_at[k].0 + 1;
        let to = if k + 1 < 8 { header_at[k + 1].0 } else { lines.len() };
        for l in &lines[from..to] {
            if l.is_empty() {
                continue;
            }
            out.oracle_checks += 1;
            body_counts[k] += 1;
            if Beatmap::should_skip_line(l) {
                out.fail("", &desc, &format!("{} body line would be skipped by the decoder: {:?}", HEADERS[k], l));
                continue;
            }
            if !key_known(k, l) {
                out.fail("", &desc, &format!("{} body line has no key of its section (silently dropped on re-read): {:?}", HEADERS[k], l));
            }
            let before = state.hit_objects.hit_objects.len();
            let res = guarded(|| match k {
                0 => Beatmap::parse_general(&mut state, l).is_ok(),
                1 => Beatmap::parse_editor(&mut state, l).is_ok(),
                2 => Beatmap::parse_metadata(&mut state, l).is_ok(),
                3 => Beatmap::parse_difficulty(&mut state, l).is_ok(),
                4 => Beatmap::parse_events(&mut state, l).is_ok(),
                5 => Beatmap::parse_timing_points(&mut state, l).is_ok(),
                6 => Beatmap::parse_colors(&mut state, l).is_ok(),
                _ => Beatmap::parse_hit_objects(&mut state, l).is_ok(),
            });
            let obj_idx = body_counts[7].wrapping_sub(1);
            let cls = if k == 7 {
                map.hit_objects.get(obj_idx).map_or("", lost_class)
            } else if k == 5 {
                d26_timing_line(map, l)
            } else {
                ""
            };
            match res {
                Err(p) => out.fail("", &desc, &format!("{} parser panicked on encoded line {:?}: {}", HEADERS[k], l, p)),
                Ok(false) => out.fail(cls, &desc, &format!("{} parser rejects encoded line {:?}", HEADERS[k], l)),
                Ok(true) => {
                    if k == 5 && l.split(',').nth(6) == Some("1") {
                        timing_flag_lines += 1;
                    }
                    if k == 7 {
                        // not misread as a different record: one new object, same kind and start time
                        let after = &state.hit_objects.hit_objects;
                        if after.len() != before + 1 {
                            out.fail("", &desc, &format!("accepted hit-object line {:?} added {} objects", l, after.len() as i64 - before as i64));
                        } else if let Some(orig) = map.hit_objects.get(obj_idx) {
                            let new = after.last().unwrap();
                            if kind_tag(new) != kind_tag(orig) || new.start_time.to_bits() != orig.start_time.to_bits() {
                                out.fail("", &desc, &format!("hit-object line {:?} written for object #{} (kind {}, start {}) is read as kind {} start {}", l, obj_idx, kind_tag(orig), orig.start_time, kind_tag(new), new.start_time));
                            } else if sample_names(new) != sample_names(orig) {
                                // ... nor with other sample names (sample points are applied later; they do not touch names)
                                out.fail(if d30_object(orig) { "D30" } else { "" }, &desc, &format!("hit-object line {:?} written for object #{} with sample names {:?} is read with sample names {:?}", l, obj_idx, sample_names(orig), sample_names(new)));
                            }
                        }
                    }
                }
            }
        }
    }
    if body_counts[7] != map.hit_objects.len() {
        out.fail("", &desc, &format!("{} hit objects but {} hit-object lines", map.hit_objects.len(), body_counts[7]));
    }
    // 4. nothing dropped: record counts after a full re-decode
    out.oracle_checks += 1;
    match decode(&enc) {
        None => out.fail("", &desc, "re-decoding the encoded text failed"),
        Some(m2) => {
            let cls = map.hit_objects.iter().map(lost_class).find(|c| !c.is_empty()).unwrap_or("");
            if m2.hit_objects.len() != map.hit_objects.len() {
                out.fail(cls, &desc, &format!("hit objects: {} encoded, {} after re-decoding", map.hit_objects.len(), m2.hit_objects.len()));
            }
            if m2.breaks.len() != map.breaks.len() {
                out.fail("", &desc, &format!("breaks: {} encoded, {} after re-decoding", map.breaks.len(), m2.breaks.len()));
            }
            if m2.custom_combo_colors.len() != map.custom_combo_colors.len() || m2.custom_colors.len() != map.custom_colors.len() {
                out.fail("", &desc, &format!("colours: {}+{} encoded, {}+{} after re-decoding", map.custom_combo_colors.len(), map.custom_colors.len(), m2.custom_combo_colors.len(), m2.custom_colors.len()));
            }
            if m2.bookmarks.len() != map.bookmarks.len() {
                out.fail("", &desc, &format!("bookmarks: {} encoded, {} after re-decoding", map.bookmarks.len(), m2.bookmarks.len()));
            }
            if m2.control_points.timing_points.len() != timing_flag_lines || timing_flag_lines != map.control_points.timing_points.len() {
                out.fail(zero_time_class(map), &desc, &format!("timing points: {} in the map, {} uninherited lines written, {} after re-decoding", map.control_points.timing_points.len(), timing_flag_lines, m2.control_points.timing_points.len()));
            }
            // not misread: the fields of the six simple sections read back as written
            let f1 = crate::registry::c02::simple_fields(map);
            let f2 = crate::registry::c02::simple_fields(&m2);
            for ((n, a), (_, b)) in f1.iter().zip(f2.iter()) {
                out.oracle_checks += 1;
                if a != b && crate::registry::c02::carried(n, map) {
                    out.fail(slashes_class(n, map), &desc, &format!("field {} is written from {} and read back as {}", n, a, b));
                }
            }
            if m2.format_version != map.format_version {
                out.fail("", &desc, &format!("format version {} re-read as {}", map.format_version, m2.format_version));
            }
        }
    }
    Some(enc)
}


/// For every non-blank [HitObjects] line of an encoded text, in order: was it
/// rejected when the text is read back line by line (accumulating state)?
pub fn rejected_object_lines(enc: &str, version: i32) -> Vec<bool> {
    let mut state = BeatmapState::create(version);
    let mut sec: Option<Section> = None;
    let mut res = vec![];
    for raw in enc.split('\n') {
        let l = raw.trim_end();
        if l.is_empty() || Beatmap::should_skip_line(l) {
            continue;
        }
        if let Some(s) = Section::try_from_line(l) {
            sec = Some(s);
            continue;
        }
        let ok = guarded(|| match sec {
            Some(Section::General) => Beatmap::parse_general(&mut state, l).is_ok(),
            Some(Section::Difficulty) => Beatmap::parse_difficulty(&mut state, l).is_ok(),
            Some(Section::Events) => Beatmap::parse_events(&mut state, l).is_ok(),
            Some(Section::TimingPoints) => Beatmap::parse_timing_points(&mut state, l).is_ok(),
            Some(Section::HitObjects) => Beatmap::parse_hit_objects(&mut state, l).is_ok(),
            _ => true,
        })
        .unwrap_or(false);
        if sec == Some(Section::HitObjects) {
            res.push(!ok);
        }
    }
    res
}

/// D23: a file name in which the decoder's `\\` -> `/` normalisation produced `//`
pub fn slashes_class(field: &str, map: &Beatmap) -> &'static str {
    let v = match field {
        "audio_file" => &map.audio_file,
        "background_file" => &map.background_file,
        _ => return "",
    };
    if v.contains("//") { "D23" } else { "" }
}

/// D8: two timing points at the numerically equal times -0.0 / +0.0
pub fn zero_time_class(map: &Beatmap) -> &'static str {
    let tp = &map.control_points.timing_points;
    let z = tp.iter().filter(|p| p.time == 0.0).count();
    if z >= 2 { "D8" } else { "" }
}

pub fn oracle_text(text: &str, origin: &str, out: &mut Out) {
    let Some(mut m) = decode(text) else { return };
    out.count(&format!("oracle.mode{}", m.mode as i32));
    if has_slider(&m) {
        out.count("oracle.with_sliders");
    }
    if !m.hit_objects.windows(2).all(|w| w[0].start_time <= w[1].start_time) {
        out.count("oracle.unsorted_input_objects");
    }
    oracle(&mut m, text, origin, out);
}

/// the recorded inputs of the findings made while mechanising T02b / T02d (fixed texts: they go
/// through the `enc` correspondence and both oracles on every run)
pub const RECORDED_INPUTS: [(&str, &str); 9] = [
    ("recorded-D26-spinner", "osu file format v14\n\n[HitObjects]\n256,192,-3112.53,12,0,2147483647,0:0:0:0:\n"),
    ("recorded-D26-hold", "osu file format v14\n\n[General]\nMode: 3\n\n[HitObjects]\n100,192,-3112.53,128,0,2147483647:0:0:0:0:\n"),
    (
        "recorded-D27-near-one",
        "osu file format v14\n\n[TimingPoints]\n0,500,4,1,0,100,1,0\n0,-50,4,1,0,100,0,0\n100,400,4,1,0,100,1,0\n100,-100.00000000000001,4,1,0,100,0,0\n",
    ),
    (
        "recorded-D28-near-time",
        "osu file format v14\n\n[TimingPoints]\n0,500,4,1,0,100,1,0\n0,-50,4,1,0,100,0,0\n\n[HitObjects]\n256,192,0.00000000000000001,1,0,0:0:0:50:\n",
    ),
    // D30: the file name keeps its trailing white space because something follows it on the line
    ("recorded-D30-circle-spinner", "osu file format v14\n\n[HitObjects]\n256,192,1000,1,0,0:0:0:0:a.wav ,x\n256,192,2000,12,0,3000,0:0:0:0:c.wav ,x\n"),
    ("recorded-D30-hold", "osu file format v14\n\n[General]\nMode: 3\n\n[HitObjects]\n100,192,1000,128,0,2000:0:0:0:0:b.wav\t:x\n"),
    ("recorded-D30-blank-name", "osu file format v14\n\n[HitObjects]\n256,192,1000,1,0,0:0:0:0: :x\n"),
    // D32: a slider that ends beyond the parse limit; its node sample points are written as timing lines
    (
        "recorded-D32-slider-end-beyond-limit",
        "osu file format v14\n\n[Difficulty]\nSliderMultiplier:0.4\n\n[TimingPoints]\n0,60000,4,1,0,100,1,0\n0,-1000,4,1,0,100,0,0\n\n[HitObjects]\n0,0,0,2,0,L|100000:0,2,100000,0|0|0,0:0:0:50:|0:0:0:60:|0:0:0:70:\n",
    ),
    // D31: a file name on a slider node
    ("recorded-D31-node-file-name", "osu file format v14\n\n[HitObjects]\n100,100,1000,2,0,L|200:100,1,100,0|0,0:0:0:0:n.wav|0:0,0:0:0:0:\n"),
];

pub fn generate(tier: &str, seed: u64, out: &mut Out) {
    for (o, t) in RECORDED_INPUTS {
        enc_case(t, o, out);
        oracle_text(t, o, out);
    }
    // correspondence: slider-free stream (plus the slider stream once the models are connected)
    texts(tier, seed, false, false, |t, o| enc_case(t, o, out));
    if SLIDERS_IN_MODEL {
        texts(tier, seed, true, false, |t, o| enc_case(t, o, out));
    }
    bundled_texts(tier, seed, |t, o| enc_case(t, o, out));
    // oracle: both streams, bundled maps, hostile whole-file inputs of the C01 generators
    texts(tier, seed, false, false, |t, o| oracle_text(t, o, out));
    texts(tier, seed, true, false, |t, o| oracle_text(t, o, out));
    texts(tier, seed.wrapping_add(77), true, false, |t, o| oracle_text(t, o, out));
    bundled_texts(tier, seed, |t, o| oracle_text(t, o, out));
    crate::decoders::texts(tier, seed, |t, o| oracle_text(t, o, out));
}

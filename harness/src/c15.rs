//! C15: map-level processing of hit objects (order, combos, velocity, sample defaults, shifts).
use crate::decoders;
use crate::out::Out;
use crate::rng::Rng;
use rosu_map::section::general::GameMode;
use rosu_map::section::hit_objects::hit_samples::{HitSampleInfo, HitSampleInfoName, SampleBank};
use rosu_map::section::hit_objects::{HitObject, HitObjectKind, HitObjects, HitObjectsState};
use rosu_map::section::timing_points::SamplePoint;
use rosu_map::{DecodeBeatmap, DecodeState};

pub const RULE: &str = "generated maps: object lines sorted and unsorted (with more than 20 equal start times), breaks before/between/after objects (sorted and unsorted, short and long), timing and inherited points around object times, all four modes, integer times; oracle from the property text on HitObjects decoding: stable order, first object after each break, closed-form velocity and duration, sample defaults from the sample point 5 ms after the end / after each node, and integer time shifts in [-10^6, 10^6], including a stream of sliders with realistic SliderMultiplier / beat length / length whose sample points sit at (and next to) end + 5 and node time + 5 -- the boundary of T15d for integer times, finding D29; non-trivial = at least 3 objects and one slider or break; distinct = distinct texts";

#[derive(Clone)]
pub struct Map {
    pub mode: u8,
    pub general_extra: String,
    pub slider_mult: String,
    pub breaks: Vec<(i64, i64)>,
    pub timing: Vec<(i64, String, u8, i32, bool, u8)>, // time, beat_len text, bank, volume, timing_change, custom
    pub objects: Vec<Obj>,
}

#[derive(Clone)]
pub struct Obj {
    pub x: i32,
    pub y: i32,
    pub t: i64,
    pub kind: u8, // 0 circle 1 slider 2 spinner 3 hold
    pub new_combo: bool,
    pub sound: u8,
    pub path: String,
    pub repeats: i32,
    pub len: String,
    pub end: i64,
    pub extras: String,
}

impl Map {
    pub fn text(&self, shift: i64) -> String {
        let mut s = String::from("osu file format v14\n\n[General]\n");
        s += &format!("Mode: {}\n{}\n[Difficulty]\nSliderMultiplier:{}\n\n[Events]\n", self.mode, self.general_extra, self.slider_mult);
        for (a, b) in &self.breaks {
            s += &format!("2,{},{}\n", a + shift, b + shift);
        }
        s += "\n[TimingPoints]\n";
        for (t, bl, bank, vol, tc, custom) in &self.timing {
            s += &format!("{},{},4,{},{},{},{},0\n", t + shift, bl, bank, custom, vol, if *tc { 1 } else { 0 });
        }
        s += "\n[HitObjects]\n";
        for o in &self.objects {
            let ty = match o.kind {
                0 => 1,
                1 => 2,
                2 => 8,
                _ => 128,
            } + if o.new_combo { 4 } else { 0 };
            match o.kind {
                0 => s += &format!("{},{},{},{},{},{}\n", o.x, o.y, o.t + shift, ty, o.sound, o.extras),
                1 => s += &format!("{},{},{},{},{},{},{},{}\n", o.x, o.y, o.t + shift, ty, o.sound, o.path, o.repeats, o.len),
                2 => s += &format!("256,192,{},{},{},{},{}\n", o.t + shift, ty, o.sound, o.end + shift, o.extras),
                _ => s += &format!("{},192,{},{},{},{}:{}\n", o.x, o.t + shift, ty, o.sound, o.end + shift, o.extras),
            }
        }
        s
    }
}

pub fn gen_map(r: &mut Rng, big: bool) -> Map {
    let mode = r.below(4) as u8;
    let n = if big { r.range(22, 40) } else { r.range(1, 10) } as usize;
    let sorted = r.chance(1, 2);
    let mut t = r.range(-500, 3000);
    let mut objects = vec![];
    for i in 0..n {
        let kind = match mode {
            3 => *r.pick(&[0u8, 3, 3, 0, 1]),
            _ => *r.pick(&[0u8, 0, 1, 1, 2]),
        };
        let x = r.range(0, 512) as i32;
        let y = r.range(0, 384) as i32;
        let npts = r.range(1, 3);
        let mut path = String::from(*r.pick(&["L", "B", "P", "C"]));
        let (mut cx, mut cy) = (x as i64, y as i64);
        for _ in 0..npts {
            cx += r.range(-100, 100);
            cy += r.range(-80, 80);
            path += &format!("|{}:{}", cx, cy);
        }
        // osu-stable compatibility: a path whose last anchor is written twice is never extended,
        // whatever length the line states
        let dup_end = r.chance(1, 5);
        if dup_end {
            path += &format!("|{}:{}", cx, cy);
        }
        let dur = r.range(50, 2500);
        objects.push(Obj {
            x,
            y,
            t: if sorted { t } else { r.range(-500, 20000) },
            kind,
            new_combo: r.chance(1, 5),
            sound: *r.pick(&[0u8, 2, 4, 8, 10]),
            path,
            repeats: r.range(1, 3) as i32,
            len: if r.chance(1, 5) { "0".into() } else if dup_end { format!("{}", r.range(300, 900)) } else { format!("{}", r.range(20, 400)) },
            end: t + dur,
            extras: r.pick(&["0:0:0:0:", "1:2:0:0:", "0:0:2:40:", "2:0:0:0:", "0:0:0:0:x.wav"]).to_string(),
        });
        // many equal start times
        if big && i % 3 != 0 {
            // keep t
        } else {
            t += r.range(0, 6) * 250;
        }
    }
    if !sorted && big {
        // force ties in unsorted maps too
        let t0 = objects[0].t;
        for (i, o) in objects.iter_mut().enumerate() {
            if i % 2 == 0 {
                o.t = t0 + (i as i64 % 3) * 1000;
                o.end = o.t + 500;
            }
        }
    }
    for o in objects.iter_mut() {
        if o.end < o.t {
            o.end = o.t + 100;
        }
    }
    let tmax = objects.iter().map(|o| o.t).max().unwrap_or(1000).max(1000);
    let nb = r.range(0, 4);
    let mut breaks = vec![];
    let mut bt = r.range(-2000, tmax / 2);
    for _ in 0..nb {
        // zero-length breaks (`2,2000,2000`) and reversed lines (end before start: clamped up to the start) are legal
        let len = *r.pick(&[100i64, 400, 649, 650, 2000, 5000, 0, 0, -300, 1]);
        breaks.push((bt, bt + len));
        bt += len.max(0) + r.range(0, tmax / 2);
    }
    if r.chance(1, 4) {
        breaks.reverse();
    }
    // sometimes no timing-point line at all: every lookup then falls back to the defaults
    let nt = if r.chance(1, 6) { 0 } else { r.range(1, 6) };
    let mut timing = vec![];
    let mut tt = r.range(-1000, 500);
    for i in 0..nt {
        let tc = i == 0 || r.chance(1, 3);
        let bl = if tc {
            r.pick(&["500", "333.33", "1000", "6", "60000", "250.5", "-50", "-200"]).to_string()
        } else {
            r.pick(&["-100", "-50", "-200", "-10", "-1000", "-10000", "-5", "-133.33"]).to_string()
        };
        timing.push((tt, bl, r.below(4) as u8, *r.pick(&[100, 60, 5, 0]), tc, r.below(3) as u8));
        // place control points close to object times (within the 5 ms leniency too)
        if r.chance(1, 2) && !objects.is_empty() {
            let o = r.pick(&objects);
            tt = *r.pick(&[o.t, o.t + 5, o.t + 4, o.t + 6, o.end + 5, o.end + 4, o.end + 6, o.t - 1]);
        } else {
            tt += r.range(0, tmax / 3);
        }
    }
    let general_extra = match r.below(4) {
        0 => String::new(),
        1 => "SampleSet: Soft\nSampleVolume: 40\n".to_string(),
        2 => "SampleSet: Drum\n".to_string(),
        _ => "SampleVolume: 5\n".to_string(),
    };
    Map { mode, general_extra, slider_mult: r.pick(&["1.4", "0.4", "3.6", "2", "1.85"]).to_string(), breaks, timing, objects }
}

fn decode(text: &str) -> Option<HitObjects> {
    rosu_map::from_bytes::<HitObjects>(text.as_bytes()).ok()
}

/// hit objects before map-level processing, in file order
fn pre_objects(text: &str) -> Vec<HitObject> {
    let mut st = HitObjectsState::create(14);
    let mut sec = "";
    for line in text.lines() {
        let l = line.trim_end();
        if l.starts_with('[') {
            sec = match l {
                "[General]" => "g",
                "[Difficulty]" => "d",
                "[Events]" => "e",
                "[TimingPoints]" => "t",
                "[HitObjects]" => "h",
                _ => "",
            };
            continue;
        }
        if l.is_empty() {
            continue;
        }
        let _ = match sec {
            "g" => HitObjects::parse_general(&mut st, l),
            "d" => HitObjects::parse_difficulty(&mut st, l),
            "e" => HitObjects::parse_events(&mut st, l),
            "t" => HitObjects::parse_timing_points(&mut st, l),
            "h" => HitObjects::parse_hit_objects(&mut st, l),
            _ => Ok(()),
        };
    }
    st.hit_objects
}

fn key(x: f64) -> i64 {
    let mut b = x.to_bits() as i64;
    b ^= (((b >> 63) as u64) >> 1) as i64;
    b
}

fn kind_tag(h: &HitObject) -> (u8, u32, u32) {
    match &h.kind {
        HitObjectKind::Circle(c) => (0, c.pos.x.to_bits(), c.pos.y.to_bits()),
        HitObjectKind::Slider(s) => (1, s.pos.x.to_bits(), s.pos.y.to_bits()),
        HitObjectKind::Spinner(s) => (2, s.pos.x.to_bits(), s.pos.y.to_bits()),
        HitObjectKind::Hold(hd) => (3, hd.pos_x.to_bits(), 0),
    }
}

fn expected_apply(p: &SamplePoint, s: &HitSampleInfo) -> HitSampleInfo {
    // the property: samples that do not specify volume, bank or custom index take them from the sample point
    let mut r = s.clone();
    match s.name {
        HitSampleInfoName::Default(_) => {
            if s.custom_sample_bank == 0 {
                r.custom_sample_bank = p.custom_sample_bank;
                if p.custom_sample_bank >= 2 {
                    r.suffix = std::num::NonZeroU32::new(p.custom_sample_bank as u32);
                }
            }
            if s.volume == 0 {
                r.volume = p.sample_volume.clamp(0, 100);
            }
            if !s.bank_specified {
                r.bank = p.sample_bank;
                r.bank_specified = true;
            }
        }
        HitSampleInfoName::File(_) => {
            r.bank = SampleBank::Normal;
            r.suffix = None;
            if s.volume == 0 {
                r.volume = p.sample_volume.clamp(0, 100);
            }
            r.custom_sample_bank = 1;
            r.bank_specified = false;
            r.is_layered = false;
        }
    }
    r
}

pub fn check_map(m: &Map, out: &mut Out) {
    let text = m.text(0);
    let desc = format!("{:?}", text);
    let Some(mut v) = decode(&text) else {
        out.fail("", &desc, "HitObjects decode failed");
        return;
    };
    let pre = pre_objects(&text);
    // 1. non-decreasing start-time order, file order kept among equal times
    out.oracle_checks += 1;
    let mut want: Vec<usize> = (0..pre.len()).collect();
    want.sort_by(|&a, &b| pre[a].start_time.partial_cmp(&pre[b].start_time).unwrap_or(std::cmp::Ordering::Equal));
    if v.hit_objects.len() != pre.len() {
        out.fail("", &desc, &format!("object count changed by processing: {} -> {}", pre.len(), v.hit_objects.len()));
        return;
    }
    for (i, &j) in want.iter().enumerate() {
        let h = &v.hit_objects[i];
        if key(h.start_time) != key(pre[j].start_time) || kind_tag(h) != kind_tag(&pre[j]) {
            out.fail("", &desc, &format!("object at output index {} is not the object expected from a stable sort by start time (file index {})", i, j));
            return;
        }
    }
    if !v.hit_objects.windows(2).all(|w| w[0].start_time <= w[1].start_time) {
        out.fail("", &desc, "objects not in non-decreasing start-time order");
    }
    // 2. first object after each break starts a new combo (breaks in chronological order)
    let breaks_sorted = v.breaks.windows(2).all(|w| w[0].end_time <= w[1].end_time);
    if breaks_sorted {
        out.oracle_checks += 1;
        for b in &v.breaks {
            if let Some(h) = v.hit_objects.iter().find(|h| h.start_time > b.end_time) {
                if !matches!(h.kind, HitObjectKind::Hold(_)) && !h.new_combo() {
                    out.fail("", &desc, &format!("first object after the break ending at {} (start {}) does not start a new combo", b.end_time, h.start_time));
                }
            }
        }
        // and nothing else is forced: an object whose own flag was off and that is not first-after-a-break keeps it off
        for (i, &j) in want.iter().enumerate() {
            let was = pre[j].new_combo();
            let now = v.hit_objects[i].new_combo();
            let prev_start = if i == 0 { f64::NEG_INFINITY } else { v.hit_objects[i - 1].start_time };
            let st = v.hit_objects[i].start_time;
            let after_break = v.breaks.iter().any(|b| b.end_time < st && !(b.end_time < prev_start));
            if now != (was || (after_break && !matches!(v.hit_objects[i].kind, HitObjectKind::Hold(_)))) {
                out.fail("", &desc, &format!("new-combo flag of object {} is {} but file flag {} / first-after-break {}", i, now, was, after_break));
            }
        }
    } else {
        out.count("breaks.unsorted");
    }
    // 3. velocity, duration, sample defaults
    let mode = v.mode;
    let sm = v.slider_multiplier;
    let cps = v.control_points.clone();
    for (i, &j) in want.iter().enumerate() {
        let start = v.hit_objects[i].start_time;
        let mut end = start;
        if let HitObjectKind::Slider(ref mut s) = v.hit_objects[i].kind {
            out.oracle_checks += 1;
            let beat_len = cps.timing_points.iter().filter(|p| p.time <= start).last().or(cps.timing_points.first()).map_or(1000.0, |p| p.beat_len);
            let sv = cps.difficulty_points.iter().filter(|p| p.time <= start).last().map_or(1.0, |p| p.slider_velocity);
            let hi = if matches!(mode, GameMode::Taiko | GameMode::Mania) { 1000.0 } else { 10000.0 };
            let scaled = beat_len * ((100.0 / sv).clamp(10.0, hi) / 100.0);
            let vel = 100.0 * sm / scaled;
            if s.velocity.to_bits() != vel.to_bits() && !((s.velocity - vel).abs() <= 1e-9 * vel.abs()) {
                out.fail("", &desc, &format!("slider {}: velocity {} but 100*SM/(beat_len*clamp(100/sv)/100) = {}", i, s.velocity, vel));
            }
            let spans = (s.repeat_count + 1) as f64;
            let dist = s.path.curve().dist();
            let dur = spans * dist / s.velocity;
            let d2 = s.duration();
            if d2.to_bits() != dur.to_bits() {
                out.fail("", &desc, &format!("slider {}: duration {} != spans*dist/velocity {}", i, d2, dur));
            }
            end = start + dur;
            // node samples
            if let HitObjectKind::Slider(ref ps) = pre[j].kind {
                for (n, node) in s.node_samples.iter().enumerate() {
                    let t = start + n as f64 * dur / spans + 5.0;
                    let p = cps.sample_points.iter().filter(|p| p.time <= t).last().or(cps.sample_points.first()).cloned().unwrap_or_default();
                    let Some(pre_node) = ps.node_samples.get(n) else {
                        out.fail("", &desc, &format!("slider {}: node count changed by processing", i));
                        break;
                    };
                    let want_node: Vec<HitSampleInfo> = pre_node.iter().map(|x| expected_apply(&p, x)).collect();
                    if &want_node != node {
                        out.fail("", &desc, &format!("slider {} node {}: samples {:?} but sample point at {} gives {:?}", i, n, node, t, want_node));
                    }
                }
            }
        } else if let HitObjectKind::Spinner(ref s) = v.hit_objects[i].kind {
            end = start + s.duration;
        } else if let HitObjectKind::Hold(ref hd) = v.hit_objects[i].kind {
            end = start + hd.duration;
        }
        out.oracle_checks += 1;
        let t = end + 5.0;
        let p = cps.sample_points.iter().filter(|p| p.time <= t).last().or(cps.sample_points.first()).cloned().unwrap_or_default();
        let want_s: Vec<HitSampleInfo> = pre[j].samples.iter().map(|x| expected_apply(&p, x)).collect();
        if want_s != v.hit_objects[i].samples {
            out.fail("", &desc, &format!("object {}: samples {:?} but sample point active at end+5 = {} gives {:?}", i, v.hit_objects[i].samples, t, want_s));
        }
    }
}

pub fn check_shift(m: &Map, k: i64, out: &mut Out) {
    let t0 = m.text(0);
    let t1 = m.text(k);
    let (Some(mut a), Some(mut b)) = (decode(&t0), decode(&t1)) else { return };
    out.oracle_checks += 1;
    let desc = format!("shift={} text={:?}", k, t0);
    let kf = k as f64;
    if a.hit_objects.len() != b.hit_objects.len() {
        out.fail("", &desc, "shifted file has a different number of objects");
        return;
    }
    let sample_times: Vec<f64> = a.control_points.sample_points.iter().map(|p| p.time).collect();
    for (x, y) in a.hit_objects.iter_mut().zip(b.hit_objects.iter_mut()) {
        if x.start_time + kf != y.start_time {
            out.fail("", &desc, &format!("start time {} + {} != {}", x.start_time, k, y.start_time));
            return;
        }
        let mut x2 = x.clone();
        x2.start_time = y.start_time;
        if x2 != *y {
            // D29 only: the object is a slider one of whose look-up times lies in the rounding window
            // below a sample point, and nothing but sample volumes / banks / custom indices differs
            let class = if slider_lookup_in_window(x, &sample_times) && only_samples_differ(&x2, y) { "D29" } else { "" };
            out.fail(class, &desc, &format!("object at {} differs after the shift beyond its time: {:?} vs {:?}", x.start_time, x, y));
            return;
        }
        if let (HitObjectKind::Slider(s1), HitObjectKind::Slider(s2)) = (&mut x.kind, &mut y.kind) {
            if s1.velocity.to_bits() != s2.velocity.to_bits() || s1.node_samples != s2.node_samples {
                out.fail("", &desc, "slider velocity or node samples changed by the shift");
                return;
            }
        }
    }
    macro_rules! cmp_points {
        ($f:ident, $same:expr) => {
            if a.control_points.$f.len() != b.control_points.$f.len() {
                out.fail("", &desc, concat!(stringify!($f), ": different number of points after the shift"));
                return;
            }
            for (p, q) in a.control_points.$f.iter().zip(b.control_points.$f.iter()) {
                let mut p2 = p.clone();
                p2.time = q.time;
                if p.time + kf != q.time || p2 != *q {
                    out.fail("", &desc, &format!(concat!(stringify!($f), ": {:?} vs {:?}"), p, q));
                    return;
                }
            }
        };
    }
    cmp_points!(timing_points, ());
    cmp_points!(difficulty_points, ());
    cmp_points!(effect_points, ());
    cmp_points!(sample_points, ());
}


// ---------------------------------------------------------------------------
// sliders at integer times: D29.  A slider's duration spans * dist / velocity is in general not
// a whole number; its sample point is looked up at fl(fl(start + o) + 5), o = the duration, and
// for node i at o = i * duration / spans.  Whether a sample point at the whole time T is seen is
// decided by the exact number start + o + 5 EXCEPT when that number lies in a window of rounding
// size just below T: then it depends on how the two additions round, i.e. on the magnitude of
// start, i.e. on the shift.  The class is decided exactly: for whole start and T below 2^32,
// T - 5 - start and T - 5 - start - 2^-20 are f64 numbers, and
//     T - 2^-20 < start + o + 5 < T   <=>   T - 5 - start - 2^-20 < o < T - 5 - start.

const WINDOW: f64 = 9.5367431640625e-7; // 2^-20 ms

fn in_window(o: f64, start: f64, t: f64) -> bool {
    let m = t - 5.0 - start;
    o < m && o > m - WINDOW
}

/// `h` is a slider (whole start time) one of whose look-up offsets is in the window below a sample-point time
pub fn slider_lookup_in_window(h: &mut HitObject, sample_times: &[f64]) -> bool {
    let start = h.start_time;
    if start.fract() != 0.0 || start.abs() >= 4294967296.0 {
        return false;
    }
    let HitObjectKind::Slider(ref mut s) = h.kind else { return false };
    let spans = (s.repeat_count + 1) as f64;
    let d = s.duration();
    let mut offsets = vec![d];
    for i in 0..s.node_samples.len() {
        offsets.push(i as f64 * d / spans);
    }
    offsets.iter().any(|&o| sample_times.iter().any(|&t| t.fract() == 0.0 && t.abs() < 4294967296.0 && in_window(o, start, t)))
}

/// the two objects (start times already equalised) differ in nothing but what a sample point
/// supplies: volume, bank, custom index / suffix of their samples and node samples
fn only_samples_differ(x: &HitObject, y: &HitObject) -> bool {
    fn strip(h: &HitObject) -> HitObject {
        let mut h = h.clone();
        let wipe = |v: &mut Vec<HitSampleInfo>| {
            for s in v.iter_mut() {
                s.volume = 0;
                s.bank = SampleBank::None;
                s.custom_sample_bank = 0;
                s.suffix = None;
            }
        };
        wipe(&mut h.samples);
        if let HitObjectKind::Slider(ref mut s) = h.kind {
            for n in s.node_samples.iter_mut() {
                wipe(n);
            }
        }
        h
    }
    strip(x) == strip(y)
}

/// 1..4 sliders far apart with realistic parameters; green lines at (and next to) end + 5 and node time + 5
pub fn gen_boundary_map(r: &mut Rng) -> Map {
    let mode = *r.pick(&[0u8, 0, 0, 1, 2, 3]);
    let slider_mult = r.pick(&["1.4", "1", "1.8", "2", "0.7", "1.2", "1.6", "2.4", "3.6", "0.4", "1.85", "1.7", "1.3", "2.2", "1.5"]).to_string();
    let bl = r.pick(&["500", "400", "300", "333.33", "375", "428.57", "600", "461.54", "250", "1000", "352.94"]).to_string();
    let mut timing = vec![(-1000i64, bl, 1u8, 100, true, 0u8)];
    if r.chance(1, 3) {
        timing.push((-500, r.pick(&["-100", "-50", "-200", "-133.33", "-80"]).to_string(), 2, 70, false, 0));
    }
    let n = r.range(1, 4) as usize;
    let mut objects = vec![];
    let mut t = r.range(0, 5000);
    for _ in 0..n {
        let x = r.range(0, 300) as i32;
        let y = r.range(0, 384) as i32;
        let mut len = format!("{}", if r.chance(1, 2) { r.range(2, 80) * 7 } else { r.range(10, 600) });
        let repeats = r.range(1, 3) as i32;
        // duration (and velocity) of this slider with length text `l`, read off the implementation on a
        // one-slider map with the same timing lines
        let probe = |l: &str| -> Option<(f64, f64)> {
            let pm = Map {
                mode,
                general_extra: String::new(),
                slider_mult: slider_mult.clone(),
                breaks: vec![],
                timing: timing.clone(),
                objects: vec![Obj { x, y, t, kind: 1, new_combo: false, sound: 0, path: format!("L|{}:{}", x + 100, y), repeats, len: l.to_string(), end: t, extras: "0:0:0:0:".into() }],
            };
            decode(&pm.text(0)).and_then(|mut v| match v.hit_objects.first_mut().map(|h| &mut h.kind) {
                Some(HitObjectKind::Slider(s)) => Some((s.duration(), s.velocity)),
                _ => None,
            })
        };
        let hair_below = |d: f64| d < d.round() && d.round() - d < 1e-9;
        match r.below(3) {
            // whole lengths, as the editor writes them: hunt for a duration a hair below a whole number
            0 => {
                for _ in 0..64 {
                    let cand = format!("{}", if r.chance(1, 2) { r.range(2, 80) * 7 } else { r.range(10, 600) });
                    if probe(&cand).map_or(false, |(d, _)| hair_below(d)) {
                        len = cand;
                        break;
                    }
                }
            }
            // fractional length aimed at a whole duration, nudged down ulp by ulp
            1 => {
                if let Some((_, vel)) = probe("100") {
                    let target = r.range(50, 3000) as f64;
                    let l0 = target * vel / (repeats + 1) as f64;
                    if l0.is_finite() && l0 > 1.0 && l0 < 100_000.0 {
                        for j in 0..8u64 {
                            let cand = format!("{}", f64::from_bits(l0.to_bits() - j));
                            if probe(&cand).map_or(false, |(d, _)| hair_below(d)) {
                                len = cand;
                                break;
                            }
                        }
                    }
                }
            }
            _ => {}
        }
        objects.push(Obj {
            x,
            y,
            t,
            kind: 1,
            new_combo: r.chance(1, 5),
            sound: *r.pick(&[0u8, 2, 4, 8, 10]),
            path: format!("L|{}:{}", x + 100, y),
            repeats,
            len,
            end: t,
            extras: r.pick(&["0:0:0:0:", "1:2:0:0:", "2:0:0:0:"]).to_string(),
        });
        t += r.range(20_000, 60_000);
    }
    let mut m = Map { mode, general_extra: String::new(), slider_mult, breaks: vec![], timing, objects };
    // read the durations off the implementation, then put sample points at the boundaries
    if let Some(mut v) = decode(&m.text(0)) {
        let mut vols = [37, 61, 12, 88, 45, 73, 29, 54];
        vols.rotate_left(r.below(8));
        let mut vi = 0;
        for h in v.hit_objects.iter_mut() {
            let start = h.start_time as i64;
            if let HitObjectKind::Slider(ref mut s) = h.kind {
                let spans = (s.repeat_count + 1) as f64;
                let d = s.duration();
                if !d.is_finite() || d.abs() > 1e7 {
                    continue;
                }
                let mut offs = vec![d];
                for i in 1..s.node_samples.len() {
                    if r.chance(1, 2) {
                        offs.push(i as f64 * d / spans);
                    }
                }
                for o in offs {
                    let delta = *r.pick(&[0i64, 0, 0, 1, -1]);
                    let tt = start + o.round() as i64 + 5 + delta;
                    m.timing.push((tt, "-100".to_string(), r.below(4) as u8, vols[vi % 8], false, r.below(3) as u8));
                    vi += 1;
                }
            }
        }
    }
    m
}

// ---------------------------------------------------------------------------
// fractional times: D20.  With non-integer times the decimal shift t -> t + k
// does not commute with rounding: fl(parse(t) + 5) can fall on the other side
// of parse(t + 5) after the shift, so an object whose end lies EXACTLY 5 ms (in
// decimal arithmetic) before a sample point may or may not see that point.
// Times are kept in hundredths of a millisecond so the tie can be decided exactly.

fn cs(v: i64) -> String {
    format!("{}{}.{:02}", if v < 0 { "-" } else { "" }, v.abs() / 100, v.abs() % 100)
}

pub struct FracMap {
    pub objs: Vec<(i64, u8, i64)>, // start (hundredths), kind 0 circle / 2 spinner / 3 hold, end (hundredths)
    pub samples: Vec<(i64, i32)>,  // sample point time (hundredths), volume
}

impl FracMap {
    pub fn text(&self, shift_ms: i64) -> String {
        let k = shift_ms * 100;
        let mut s = String::from("osu file format v14\n\n[General]\nMode: 3\n\n[TimingPoints]\n");
        s += &format!("{},500,4,1,0,100,1,0\n", cs(-10_000_000 + k));
        for (t, v) in &self.samples {
            s += &format!("{},-100,4,1,0,{},0,0\n", cs(t + k), v);
        }
        s += "\n[HitObjects]\n";
        for (t, kind, e) in &self.objs {
            match kind {
                0 => s += &format!("100,100,{},1,0,0:0:0:0:\n", cs(t + k)),
                2 => s += &format!("256,192,{},8,0,{},0:0:0:0:\n", cs(t + k), cs(e + k)),
                _ => s += &format!("100,192,{},128,0,{}:0:0:0:0:\n", cs(t + k), cs(e + k)),
            }
        }
        s
    }
    /// some object's end lies exactly 5 ms before a sample point (decimal arithmetic)
    pub fn has_exact_tie(&self) -> bool {
        self.objs.iter().any(|(t, kind, e)| {
            let end = if *kind == 0 { *t } else { *e };
            self.samples.iter().any(|(st, _)| *st == end + 500)
        })
    }
    pub fn fractional(&self) -> bool {
        self.objs.iter().any(|(t, _, e)| t % 100 != 0 || e % 100 != 0) || self.samples.iter().any(|(t, _)| t % 100 != 0)
    }
}

pub fn gen_frac_map(r: &mut Rng) -> FracMap {
    let n = r.range(1, 5) as usize;
    let mut objs = vec![];
    let mut t = r.range(0, 200_000);
    for _ in 0..n {
        let kind = *r.pick(&[0u8, 0, 2, 3]);
        let e = t + r.range(1, 300_000);
        objs.push((t, kind, e));
        t = e + r.range(1, 200_000);
    }
    let mut samples = vec![];
    let mut vols = [37, 61, 12, 88, 45, 73, 29, 54];
    vols.rotate_left(r.below(8));
    for (i, (t, kind, e)) in objs.iter().enumerate() {
        let end = if *kind == 0 { *t } else { *e };
        let off = *r.pick(&[500i64, 500, 499, 501, 400, 600]);
        samples.push((end + off, vols[i % 8]));
    }
    samples.sort();
    samples.dedup_by_key(|x| x.0);
    FracMap { objs, samples }
}

pub fn check_shift_frac(m: &FracMap, k: i64, out: &mut Out) {
    let (Some(a), Some(b)) = (decode(&m.text(0)), decode(&m.text(k))) else { return };
    out.oracle_checks += 1;
    let desc = format!("shift={} text={:?}", k, m.text(0));
    let class = if m.fractional() && m.has_exact_tie() { "D20" } else { "" };
    if a.hit_objects.len() != b.hit_objects.len() {
        out.fail("", &desc, "shifted file has a different number of objects");
        return;
    }
    for (x, y) in a.hit_objects.iter().zip(b.hit_objects.iter()) {
        if (x.start_time + k as f64 - y.start_time).abs() > 1e-6 {
            out.fail("", &desc, &format!("start time {} + {} != {}", x.start_time, k, y.start_time));
            return;
        }
        if x.samples != y.samples {
            out.fail(class, &desc, &format!("samples of the object at {} change with the shift: {:?} vs {:?}", x.start_time, x.samples, y.samples));
            return;
        }
    }
}

pub fn generate(tier: &str, seed: u64, out: &mut Out) {
    let mut r = Rng::new(seed ^ 0xC15);
    let n = if tier == "thorough" { 6000 } else { 500 };
    // fractional times (hundredths of a millisecond), sample points at / next to end + 5
    for i in 0..n * 4 {
        let m = gen_frac_map(&mut r);
        let k = *r.pick(&[1i64, 7, 1000, 123_456, -3, -1_000_000, 999_999]);
        check_shift_frac(&m, k, out);
        out.count(if m.fractional() { "frac.fractional" } else { "frac.integer" });
        if i % 8 == 0 {
            decoders::model_case(7, &m.text(0), out, "c15-frac");
        }
    }
    // sliders at integer times with sample points at / next to end + 5 and node time + 5 (D29)
    for i in 0..n {
        let m = gen_boundary_map(&mut r);
        check_map(&m, out);
        // the rounding of start + duration changes with the binade of the sum: shifts that bring a
        // slider close to time 0 (where the sum is exact) and shifts far away from it
        let k = match i % 6 {
            0 => 1000,
            1 => 1_000_000,
            2 => -r.pick(&m.objects).t + r.range(-40, 40),
            3 => *r.pick(&[1i64, 7, -3, 64, 4096, -1_000_000]),
            4 => r.range(-1_000_000, 1_000_000),
            _ => -r.pick(&m.objects).t + r.range(0, 3000),
        };
        check_shift(&m, k, out);
        let in_win = decode(&m.text(0)).map_or(false, |mut v| {
            let st: Vec<f64> = v.control_points.sample_points.iter().map(|p| p.time).collect();
            v.hit_objects.iter_mut().any(|h| slider_lookup_in_window(h, &st))
        });
        out.count(if in_win { "boundary.in-window" } else { "boundary.clear" });
        if i % 4 == 0 {
            if decoders::MODEL_DECODERS.contains(&7) {
                decoders::model_case(7, &m.text(0), out, "c15-boundary");
            } else {
                decoders::model_case(6, &m.text(0), out, "c15-boundary");
            }
        }
    }
    for i in 0..n {
        let m = gen_map(&mut r, i % 4 == 0);
        check_map(&m, out);
        let k = match i % 5 {
            0 => r.range(-1_000_000, 1_000_000),
            1 => r.range(-1000, 1000),
            2 => *r.pick(&[1i64, -1, 5, -5, 1_000_000, -1_000_000]),
            _ => r.range(-100_000, 100_000),
        };
        check_shift(&m, k, out);
        let text = m.text(0);
        let nontrivial = m.objects.len() >= 3 && (m.objects.iter().any(|o| o.kind == 1) || !m.breaks.is_empty());
        out.count(&format!("mode.{}", m.mode));
        out.count(if m.objects.len() > 20 { "objects.>20" } else { "objects.<=20" });
        // correspondence: the HitObjects decoder model on the same file
        if decoders::MODEL_DECODERS.contains(&7) {
            decoders::model_case(7, &text, out, "c15");
        } else {
            decoders::model_case(6, &text, out, "c15");
        }
        if !nontrivial {
            out.count("trivial");
        }
    }
    // start times that differ only below the millisecond (quarters), in any file order: the
    // order is by the start TIME, not by its integer part
    let mut r2 = Rng::new(seed ^ 0xC15F);
    for i in 0..n {
        let m = gen_map(&mut r2, i % 2 == 0);
        let mut text = String::new();
        let mut in_ho = false;
        for l in m.text(0).lines() {
            if l.starts_with('[') {
                in_ho = l == "[HitObjects]";
            }
            let f: Vec<&str> = l.split(',').collect();
            if in_ho && f.len() >= 5 && !f[2].starts_with('-') {
                let frac = *r2.pick(&["", ".25", ".5", ".75", ".125", ""]);
                // spinner / hold end times move with the start
                let mut g: Vec<String> = f.iter().map(|x| x.to_string()).collect();
                g[2] = format!("{}{}", f[2], frac);
                text += &g.join(",");
            } else {
                text += l;
            }
            text.push('\n');
        }
        out.count("submillisecond.maps");
        check_order_text(&text, out);
        if i % 4 == 0 {
            let e = if decoders::MODEL_DECODERS.contains(&7) { 7 } else { 6 };
            decoders::model_case(e, &text, out, "c15-submillisecond");
        }
    }
}

/// the order clause alone, on any text: the processed list is the stable sort of the file-order
/// list by start time
fn check_order_text(text: &str, out: &mut Out) {
    let desc = format!("{:?}", text);
    let Some(v) = decode(text) else {
        out.fail("", &desc, "HitObjects decode failed");
        return;
    };
    let pre = pre_objects(text);
    out.oracle_checks += 1;
    if v.hit_objects.len() != pre.len() {
        out.fail("", &desc, &format!("object count changed by processing: {} -> {}", pre.len(), v.hit_objects.len()));
        return;
    }
    let mut want: Vec<usize> = (0..pre.len()).collect();
    want.sort_by(|&a, &b| pre[a].start_time.partial_cmp(&pre[b].start_time).unwrap_or(std::cmp::Ordering::Equal));
    for (i, &j) in want.iter().enumerate() {
        let h = &v.hit_objects[i];
        if h.start_time.to_bits() != pre[j].start_time.to_bits() || kind_tag(h) != kind_tag(&pre[j]) {
            out.fail("", &desc, &format!("object at output index {} (start {}) is not the object expected from a stable sort by start time (file index {}, start {})", i, h.start_time, j, pre[j].start_time));
            return;
        }
    }
}
